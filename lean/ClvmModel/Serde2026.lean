/-
Model of `src/serde_2026/{ser.rs, de.rs, strategy.rs, mod.rs}`.

Serializer: `SerializerState::new` (after `intern_tree`), `atom_ref_counts`, `sort_atoms`,
`write_atom_table`, `emit_instructions` (generic in the visit strategy; `LeftFirst` is the only
strategy), `serialize_with_strategy`, `compression_for_level`, `serialize_2026[_to_stream]`,
`serialize_2026_body_to_stream`.

Decoder: `checked_usize`, `checked_bounded_usize`, `deserialize_2026_body_from_stream`,
`deserialize_2026_from_stream`, `deserialize_2026`, `serialized_length_serde_2026`.

Transcription rules
* A reader is the unread remainder `inp : Bytes`; "bytes consumed" is the difference of lengths.
  `read_exact` on too short a remainder is `SerializationError` (`map_err` in the atom loop,
  `From<io::Error>` for the magic prefix: `UnexpectedEof` is not `OutOfMemory`).
* `i64` / `usize` / `u64` are `Int` / `Nat`.  Varints carry 56-bit values, so the `i64::MIN`,
  `usize::try_from`, `checked_neg` / `checked_sub` guards can never fire; they are transcribed
  anyway, in place.  `checked_mul` / `checked_add` on `u64` in the length probe are the comparisons
  `≥ 2^64`.
* `for _ in 0..n` loops are structural recursion on `n`.
* Atom bytes are read with `reader.by_ref().take(length).read_to_end(&mut buf)` followed by
  `n != length ⇒ SerializationError` (since the repair of finding I, commit 090b8ec: nothing is
  allocated from the *declared* length any more): on a slice this is "fewer than `length` bytes remain
  ⇒ `SerializationError`, else take `length` bytes".
* The caller's `Allocator` is `Intern.Counters` (limits as consulted by `new_atom` / `new_pair`);
  nodes are their denotation `Tree` (the decoder's sharing is not observable through C20).
* `Vec` stacks: head of the list = top of the stack.  `write_varint` panics outside the 56-bit
  range: `Err.Panic`.  `HashMap` index (`map[&k]`) on a missing key: `Err.Panic`; `unreachable!()`
  likewise.
* `Vec::sort_by` is `List.mergeSort` with the transcribed comparator (a strict total order on the
  indices because of the final `a.cmp(&b)`, so every correct sort returns the same list).
* `emit_instructions`' work loop has explicit fuel `3·|pairs| + 2` (each pair is expanded at most
  once: one `Cons` and two `Build`s per pair, plus the root; that the fuel suffices on the output of
  `intern_tree` is proved: `Lemmas/Serde2026Emit.lean` `emit_build`, C20 `ser_total`).
-/
import ClvmModel.Intern
import ClvmModel.Varint
import ClvmModel.Gen.Serde2026

namespace Clvm.Serde2026
open Clvm.Intern Clvm.Varint

/-- `SERDE_2026_MAGIC_PREFIX` -/
def magic : Bytes := Gen.magic2026.map UInt8.ofNat

/-- `MAX_INDEX` -/
def maxIndex : Nat := Gen.maxIndex2026

/-- `write_varint(writer, v)?` into a `Vec<u8>` -/
def wv (v : Int) : Except Err Bytes :=
  match writeVarint v with
  | some b => .ok b
  | none => .error (.Panic "write_varint: Value too large to encode")

/-! ## serializer -/

structure SerializerState where
  tree : InternedTree
  sortedNoNil : List Nat
  /-- `HashMap<i32, i32>`, newest binding first -/
  atomRemap : List (Int × Int)
  nilOldIdx : Option Int
  pairs : List (Int × Int)
  rootIndex : Int
  deriving Repr

/-- the closure `node_to_index` of `SerializerState::new`: `atom_to_index` maps `atoms[i] ↦ i`,
`pair_to_index` maps `pairs[i] ↦ -(i+1)`; a node in neither map panics (`pair_to_index[&n]`). -/
def nodeToIndex (t : InternedTree) (n : INode) : Except Err Int :=
  match n with
  | .atom k => if k < t.atoms.length then .ok (k : Int) else .error (.Panic "pair_to_index[&n]")
  | .pair k => if k < t.pairs.length then .ok (-((k : Int) + 1)) else .error (.Panic "pair_to_index[&n]")

/-- `counts[i] += 1` (slice index panics when out of range) -/
def bump (counts : List Nat) (i : Nat) : Except Err (List Nat) :=
  if i < counts.length then .ok (counts.modify i (· + 1)) else .error (.Panic "counts[idx]: index out of bounds")

/-- `for child in [left, right] { let idx = node_to_index(child); if idx >= 0 { counts[idx] += 1 } }` -/
def countChildren (t : InternedTree) : List INode → List Nat → Except Err (List Nat)
  | [], counts => .ok counts
  | child :: rest, counts =>
    match nodeToIndex t child with
    | .error e => .error e
    | .ok idx =>
      if idx ≥ 0 then
        match bump counts idx.toNat with
        | .error e => .error e
        | .ok counts' => countChildren t rest counts'
      else countChildren t rest counts

/-- `for &pair_node in &tree.pairs { … }` -/
def countPairs (t : InternedTree) : List (INode × INode) → List Nat → Except Err (List Nat)
  | [], counts => .ok counts
  | (l, r) :: rest, counts =>
    match countChildren t [l, r] counts with
    | .error e => .error e
    | .ok counts' => countPairs t rest counts'

/-- `atom_ref_counts` -/
def atomRefCounts (t : InternedTree) (rootIndex : Int) : Except Err (List Nat) :=
  let counts := List.replicate t.atoms.length 0
  let counts : Except Err (List Nat) := if rootIndex ≥ 0 then bump counts rootIndex.toNat else .ok counts
  match counts with
  | .error e => .error e
  | .ok counts => countPairs t t.pairs counts

/-- the key the comparator of `sort_atoms` reads for index `a`: `(a, ref_counts[a], atom_len(atoms[a]))` -/
structure SortKey where
  idx : Nat
  refs : Nat
  len : Nat
  deriving Repr, DecidableEq

/-- the closure passed to `sort_by` -/
def sortCmp (a b : SortKey) : Ordering :=
  let aReused := decide (a.refs > 1)
  let bReused := decide (b.refs > 1)
  (compare bReused aReused).then
    ((compare b.refs a.refs).then
      ((compare a.len b.len).then (compare a.idx b.idx)))

def sortLe (a b : SortKey) : Bool := sortCmp a b != .gt

/-- keys of `0..atom_count`; `ref_counts[a]` out of range panics -/
def sortKeys (atoms : List Bytes) (refCounts : List Nat) : Except Err (List SortKey) :=
  if refCounts.length < atoms.length then .error (.Panic "ref_counts[a]: index out of bounds")
  else .ok ((atoms.zipIdx.zip refCounts).map fun ((b, i), rc) => { idx := i, refs := rc, len := b.length })

/-- `sort_atoms`: `(sorted_no_nil, atom_remap, nil_old_idx)` -/
def sortAtoms (t : InternedTree) (refCounts : List Nat) :
    Except Err (List Nat × List (Int × Int) × Option Int) :=
  match sortKeys t.atoms refCounts with
  | .error e => .error e
  | .ok keys =>
    let sorted : List Nat := (keys.mergeSort sortLe).map (·.idx)
    let nilOldIdx : Option Int := (t.atoms.findIdx? (fun a => a.length == 0)).map (fun i => (i : Int))
    let sortedNoNil : List Nat := sorted.filter (fun (oldIdx : Nat) => some (oldIdx : Int) != nilOldIdx)
    let atomRemap : List (Int × Int) :=
      sortedNoNil.zipIdx.foldl (fun m (oldIdx, newIdx) => ((oldIdx : Int), (newIdx : Int)) :: m) []
    .ok (sortedNoNil, atomRemap, nilOldIdx)

/-- `tree.pairs.iter().map(|&pair_node| (node_to_index(left), node_to_index(right))).collect()` -/
def pairIndices (t : InternedTree) : List (INode × INode) → Except Err (List (Int × Int))
  | [] => .ok []
  | (l, r) :: rest =>
    match nodeToIndex t l with
    | .error e => .error e
    | .ok li =>
      match nodeToIndex t r with
      | .error e => .error e
      | .ok ri =>
        match pairIndices t rest with
        | .error e => .error e
        | .ok ps => .ok ((li, ri) :: ps)

/-- `SerializerState::new` after `intern_tree` returned `tree` -/
def SerializerState.ofInterned (tree : InternedTree) : Except Err SerializerState :=
  if tree.atoms.length > maxIndex || tree.pairs.length > maxIndex then .error .SerializationError
  else
    match nodeToIndex tree tree.root with
    | .error e => .error e
    | .ok rootIndex =>
      match atomRefCounts tree rootIndex with
      | .error e => .error e
      | .ok refCounts =>
        match sortAtoms tree refCounts with
        | .error e => .error e
        | .ok (sortedNoNil, atomRemap, nilOldIdx) =>
          match pairIndices tree tree.pairs with
          | .error e => .error e
          | .ok pairs => .ok { tree, sortedNoNil, atomRemap, nilOldIdx, pairs, rootIndex }

/-- `SerializerState::new(allocator, node)` -/
def SerializerState.new (d : Dag) (node : Nat) : Except Err SerializerState :=
  match internTree d node with
  | .error e => .error e
  | .ok tree => SerializerState.ofInterned tree

/-- the grouping loop of `write_atom_table`; `groups` is the `Vec<(usize, Vec<NodePtr>)>` with its
*last* element first (that is the one `last_mut()` looks at), each group's atoms likewise reversed. -/
def groupAtoms (atoms : List Bytes) : List Nat → List (Nat × List Bytes) → Except Err (List (Nat × List Bytes))
  | [], groups => .ok groups
  | oldIdx :: rest, groups =>
    match atoms[oldIdx]? with
    | none => .error (.Panic "tree.atoms[old_idx]: index out of bounds")
    | some atom =>
      let len := atom.length
      match groups with
      | (lastLen, as) :: gs =>
        if lastLen == len then groupAtoms atoms rest ((lastLen, atom :: as) :: gs)
        else groupAtoms atoms rest ((len, [atom]) :: groups)
      | [] => groupAtoms atoms rest [(len, [atom])]

/-- `for (length, atoms_of_length) in &atom_groups { … }` (groups and atoms in stream order) -/
def writeGroups : List (Nat × List Bytes) → Except Err Bytes
  | [] => .ok []
  | (length, atomsOfLength) :: rest =>
    let head : Except Err Bytes :=
      match atomsOfLength with
      | [a] =>
        match wv (length : Int) with
        | .error e => .error e
        | .ok b => .ok (b ++ a)
      | _ =>
        match wv (-(length : Int)) with
        | .error e => .error e
        | .ok b1 =>
          match wv (atomsOfLength.length : Int) with
          | .error e => .error e
          | .ok b2 => .ok (b1 ++ b2 ++ atomsOfLength.flatten)
    match head with
    | .error e => .error e
    | .ok h =>
      match writeGroups rest with
      | .error e => .error e
      | .ok t => .ok (h ++ t)

/-- `write_atom_table` -/
def writeAtomTable (tree : InternedTree) (sortedNoNil : List Nat) : Except Err Bytes :=
  match groupAtoms tree.atoms sortedNoNil [] with
  | .error e => .error e
  | .ok groupsRev =>
    let groups := (groupsRev.map fun (l, as) => (l, as.reverse)).reverse
    match wv (groups.length : Int) with
    | .error e => .error e
    | .ok b =>
      match writeGroups groups with
      | .error e => .error e
      | .ok t => .ok (b ++ t)

/-- `strategy.rs`: `Direction` -/
inductive Direction where
  | leftFirst
  | rightFirst
  deriving Repr, DecidableEq

/-- `Direction::cons_opcode` -/
def Direction.consOpcode : Direction → Int
  | .leftFirst => Gen.consOpcodeLeftFirst
  | .rightFirst => Gen.consOpcodeRightFirst

/-- `impl VisitStrategy for LeftFirst`: `decide` (the node context is `()`) -/
def leftFirstDecide (_state : SerializerState) (_pairIdx : Nat) : Direction := .leftFirst

/-- `enum Op { Build(i32, C), Cons(i32, Direction) }` with `C = ()` -/
inductive Op where
  | build (idx : Int)
  | cons (pi : Int) (dir : Direction)
  deriving Repr, DecidableEq

/-- the instruction pushed for an atom index (`Build` with `idx >= 0`, and the no-pairs case) -/
def atomInstruction (state : SerializerState) (idx : Int) : Except Err Int :=
  if some idx == state.nilOldIdx then .ok 0
  else
    match state.atomRemap.lookup idx with
    | none => .error (.Panic "state.atom_remap[&idx]")
    | some n => .ok (n + 2)

/-- `while let Some(op) = work_stack.pop() { … }`; `constructionOrder` is the `HashMap<i32, i32>`
(newest binding first), `instructions` in stream order. -/
def emitLoop (state : SerializerState) : Nat → List Op → List (Int × Int) → List Int → Except Err (List Int)
  | 0, _, _, _ => .error (.Panic "fuel")
  | _ + 1, [], _, instructions => .ok instructions
  | fuel + 1, op :: workStack, constructionOrder, instructions =>
    match op with
    | .cons pi dir =>
      emitLoop state fuel workStack ((pi, (constructionOrder.length : Int)) :: constructionOrder)
        (instructions ++ [dir.consOpcode])
    | .build idx =>
      if idx ≥ 0 then
        match atomInstruction state idx with
        | .error e => .error e
        | .ok inst => emitLoop state fuel workStack constructionOrder (instructions ++ [inst])
      else
        match constructionOrder.lookup idx with
        | some ci => emitLoop state fuel workStack constructionOrder (instructions ++ [-(ci + 2)])
        | none =>
          let pi := (-idx - 1).toNat
          match state.pairs[pi]? with
          | none => .error (.Panic "state.pairs[pi]: index out of bounds")
          | some (left, right) =>
            let dir := leftFirstDecide state pi
            let workStack := Op.cons idx dir :: workStack
            match dir with
            | .leftFirst => emitLoop state fuel (.build left :: .build right :: workStack) constructionOrder instructions
            | .rightFirst => emitLoop state fuel (.build right :: .build left :: workStack) constructionOrder instructions

def emitFuel (state : SerializerState) : Nat := 3 * state.pairs.length + 2

/-- `emit_instructions(state, &LeftFirst)` -/
def emitInstructions (state : SerializerState) : Except Err (List Int) :=
  if state.tree.pairs.isEmpty then
    match atomInstruction state state.rootIndex with
    | .error e => .error e
    | .ok inst => .ok [inst]
  else emitLoop state (emitFuel state) [.build state.rootIndex] [] []

/-- `for inst in instructions { write_varint(writer, inst)? }` -/
def writeInstructions : List Int → Except Err Bytes
  | [] => .ok []
  | inst :: rest =>
    match wv inst with
    | .error e => .error e
    | .ok b =>
      match writeInstructions rest with
      | .error e => .error e
      | .ok t => .ok (b ++ t)

/-- `serialize_with_strategy(state, &LeftFirst, writer)` -/
def serializeWithStrategy (state : SerializerState) : Except Err Bytes :=
  match writeAtomTable state.tree state.sortedNoNil with
  | .error e => .error e
  | .ok table =>
    match emitInstructions state with
    | .error e => .error e
    | .ok instructions =>
      match wv (instructions.length : Int) with
      | .error e => .error e
      | .ok cnt =>
        match writeInstructions instructions with
        | .error e => .error e
        | .ok body => .ok (table ++ cnt ++ body)

/-- `enum Compression` -/
inductive Compression where
  | fast
  deriving Repr, DecidableEq

/-- `compression_for_level`: every level saturates to `Fast` -/
def compressionForLevel (_level : Nat) : Compression := .fast

/-- `serialize_with_compression` -/
def serializeWithCompression (d : Dag) (node : Nat) (compression : Compression) : Except Err Bytes :=
  match SerializerState.new d node with
  | .error e => .error e
  | .ok state =>
    match compression with
    | .fast => serializeWithStrategy state

/-- `serialize_2026_body_to_stream` -/
def serialize2026Body (d : Dag) (node : Nat) (level : Nat) : Except Err Bytes :=
  serializeWithCompression d node (compressionForLevel level)

/-- `serialize_2026_to_stream` / `serialize_2026` -/
def serialize2026 (d : Dag) (node : Nat) (level : Nat) : Except Err Bytes :=
  match serializeWithCompression d node (compressionForLevel level) with
  | .error e => .error e
  | .ok body => .ok (magic ++ body)

/-! ## decoder -/

/-- `checked_usize` (64-bit `usize`: `usize::try_from` of a non-negative `i64` cannot fail) -/
def checkedUsize (value : Int) : Except Err Nat :=
  if value < 0 then .error .SerializationError
  else .ok value.toNat

/-- `checked_bounded_usize` -/
def checkedBoundedUsize (value : Int) (max : Nat) : Except Err Nat :=
  match checkedUsize value with
  | .error e => .error e
  | .ok value => if value > max then .error .SerializationError else .ok value

/-- `for _ in 0..count { buf.clear(); take(length).read_to_end(&mut buf)…; n != length ⇒ error;
atoms.push(allocator.new_atom(&buf)?) }` -/
def readAtoms (length : Nat) : Nat → Bytes → Counters → List Bytes → Except Err (Bytes × Counters × List Bytes)
  | 0, inp, ctr, atoms => .ok (inp, ctr, atoms)
  | count + 1, inp, ctr, atoms =>
    if inp.length < length then .error .SerializationError
    else
      match ctr.newAtom length with
      | .error e => .error e
      | .ok ctr' => readAtoms length count (inp.drop length) ctr' (atoms ++ [inp.take length])

/-- header of one atom group: `(length, count)` and the remainder -/
def readGroupHeader (maxAtomLen : Nat) (strict : Bool) (inp : Bytes) : Except Err (Nat × Nat × Bytes) :=
  match readVarint strict inp with
  | .error e => .error e
  | .ok (lengthVal, inp1) =>
    if lengthVal < 0 then
      if lengthVal == -(2 : Int) ^ 63 then .error .SerializationError
      else
        match checkedBoundedUsize (-lengthVal) maxAtomLen with
        | .error e => .error e
        | .ok length =>
          match readVarint strict inp1 with
          | .error e => .error e
          | .ok (countVal, inp2) =>
            match checkedUsize countVal with
            | .error e => .error e
            | .ok count => .ok (length, count, inp2)
    else
      match checkedBoundedUsize lengthVal maxAtomLen with
      | .error e => .error e
      | .ok length => .ok (length, 1, inp1)

/-- `for _ in 0..group_count { … }` of the decoder -/
def readGroups (maxAtomLen : Nat) (strict : Bool) :
    Nat → Bytes → Counters → List Bytes → Except Err (Bytes × Counters × List Bytes)
  | 0, inp, ctr, atoms => .ok (inp, ctr, atoms)
  | groupCount + 1, inp, ctr, atoms =>
    match readGroupHeader maxAtomLen strict inp with
    | .error e => .error e
    | .ok (length, count, inp') =>
      if length == 0 || count == 0 then .error .SerializationError
      else
        match readAtoms length count inp' ctr atoms with
        | .error e => .error e
        | .ok (inp'', ctr', atoms') => readGroups maxAtomLen strict groupCount inp'' ctr' atoms'

/-- decoder state of the instruction loop -/
structure DState where
  ctr : Counters
  pairs : List Tree
  stack : List Tree
  deriving Repr

/-- the `match inst { … }` of the instruction loop -/
def execInst (atoms : List Bytes) (s : DState) (inst : Int) : Except Err DState :=
  if inst == 0 then .ok { s with stack := Tree.nil :: s.stack }
  else if inst == 1 then
    if s.stack.length < 2 then .error .SerializationError
    else
      match s.stack with
      | right :: left :: st =>
        match s.ctr.newPair with
        | .error e => .error e
        | .ok ctr =>
          let pair := Tree.pair left right
          .ok { ctr, pairs := s.pairs ++ [pair], stack := pair :: st }
      | _ => .error (.Panic "stack.pop().unwrap()")
  else if inst == -1 then
    if s.stack.length < 2 then .error .SerializationError
    else
      match s.stack with
      | left :: right :: st =>
        match s.ctr.newPair with
        | .error e => .error e
        | .ok ctr =>
          let pair := Tree.pair left right
          .ok { ctr, pairs := s.pairs ++ [pair], stack := pair :: st }
      | _ => .error (.Panic "stack.pop().unwrap()")
  else if inst ≥ 2 then
    let ai := (inst - 2).toNat
    match atoms[ai]? with
    | none => .error .SerializationError
    | some b => .ok { s with stack := Tree.atom b :: s.stack }
  else
    -- `n.checked_neg().and_then(|x| x.checked_sub(2))`
    if inst == -(2 : Int) ^ 63 then .error .SerializationError
    else if -inst - 2 < -(2 : Int) ^ 63 then .error .SerializationError
    else
      let pi := (-inst - 2).toNat
      match s.pairs[pi]? with
      | none => .error .SerializationError
      | some p => .ok { s with stack := p :: s.stack }

/-- `for _ in 0..instruction_count { let inst = read_varint(reader, strict)?; match inst … }` -/
def runInstructions (atoms : List Bytes) (strict : Bool) : Nat → Bytes → DState → Except Err (Bytes × DState)
  | 0, inp, s => .ok (inp, s)
  | n + 1, inp, s =>
    match readVarint strict inp with
    | .error e => .error e
    | .ok (inst, inp') =>
      match execInst atoms s inst with
      | .error e => .error e
      | .ok s' => runInstructions atoms strict n inp' s'

/-- `deserialize_2026_body_from_stream(allocator, reader, max_atom_len, strict)`: the tree, the
unread remainder and the allocator counters afterwards. -/
def deserializeBody (ctr : Counters) (inp : Bytes) (maxAtomLen : Nat) (strict : Bool) :
    Except Err (Tree × Bytes × Counters) :=
  match readVarint strict inp with
  | .error e => .error e
  | .ok (gc, inp1) =>
    match checkedUsize gc with
    | .error e => .error e
    | .ok groupCount =>
      match readGroups maxAtomLen strict groupCount inp1 ctr [] with
      | .error e => .error e
      | .ok (inp2, ctr2, atoms) =>
        match readVarint strict inp2 with
        | .error e => .error e
        | .ok (ic, inp3) =>
          match checkedUsize ic with
          | .error e => .error e
          | .ok instructionCount =>
            if instructionCount == 0 then .error .SerializationError
            else
              match runInstructions atoms strict instructionCount inp3 { ctr := ctr2, pairs := [], stack := [] } with
              | .error e => .error e
              | .ok (inp4, s) =>
                if s.stack.length != 1 then .error .SerializationError
                else
                  match s.stack.getLast? with   -- `stack[0]`
                  | none => .error (.Panic "stack[0]: index out of bounds")
                  | some t => .ok (t, inp4, s.ctr)

/-- `deserialize_2026_from_stream` -/
def deserializeFromStream (ctr : Counters) (inp : Bytes) (maxAtomLen : Nat) (strict : Bool) :
    Except Err (Tree × Bytes × Counters) :=
  if inp.length < magic.length then .error .SerializationError         -- `read_exact(&mut prefix_buf)?`
  else if inp.take magic.length != magic then .error .SerializationError
  else deserializeBody ctr (inp.drop magic.length) maxAtomLen strict

/-- `deserialize_2026(allocator, blob, max_atom_len, strict)` with a fresh `Allocator::new()` -/
def deserialize2026 (blob : Bytes) (maxAtomLen : Nat) (strict : Bool) : Except Err Tree :=
  match deserializeFromStream Counters.new blob maxAtomLen strict with
  | .error e => .error e
  | .ok (t, _, _) => .ok t

/-- the same with the cursor position afterwards -/
def deserialize2026Consumed (blob : Bytes) (maxAtomLen : Nat) (strict : Bool) :
    Except Err (Tree × Nat) :=
  match deserializeFromStream Counters.new blob maxAtomLen strict with
  | .error e => .error e
  | .ok (t, rest, _) => .ok (t, blob.length - rest.length)

/-! ## length probe -/

/-- `for _ in 0..group_count { … }` of `serialized_length_serde_2026`; `dataLen = data.len()`, the
cursor position is `dataLen - inp.length`. -/
def lenGroups (maxAtomLen : Nat) (strict : Bool) (dataLen : Nat) : Nat → Bytes → Except Err Bytes
  | 0, inp => .ok inp
  | groupCount + 1, inp =>
    match readVarint strict inp with
    | .error e => .error e
    | .ok (lengthVal, inp1) =>
      let r : Except Err (Nat × Bytes) :=
        if lengthVal < 0 then
          if lengthVal == -(2 : Int) ^ 63 then .error .SerializationError
          else
            match checkedBoundedUsize (-lengthVal) maxAtomLen with
            | .error e => .error e
            | .ok atomLen =>
              match readVarint strict inp1 with
              | .error e => .error e
              | .ok (countVal, inp2) =>
                match checkedUsize countVal with
                | .error e => .error e
                | .ok count =>
                  if atomLen == 0 || count == 0 then .error .SerializationError
                  else if atomLen * count ≥ 2 ^ 64 then .error .SerializationError   -- `checked_mul`
                  else .ok (atomLen * count, inp2)
        else
          match checkedBoundedUsize lengthVal maxAtomLen with
          | .error e => .error e
          | .ok atomLen =>
            if atomLen == 0 then .error .SerializationError else .ok (atomLen, inp1)
      match r with
      | .error e => .error e
      | .ok (skip, inp') =>
        let position := dataLen - inp'.length
        if position + skip ≥ 2 ^ 64 then .error .SerializationError          -- `checked_add`
        else if position + skip > dataLen then .error .SerializationError
        else lenGroups maxAtomLen strict dataLen groupCount (inp'.drop skip)   -- `set_position(new_pos)`

/-- `for _ in 0..instruction_count { read_varint(&mut cursor, strict)?; }` -/
def lenInstructions (strict : Bool) : Nat → Bytes → Except Err Bytes
  | 0, inp => .ok inp
  | n + 1, inp =>
    match readVarint strict inp with
    | .error e => .error e
    | .ok (_, inp') => lenInstructions strict n inp'

/-- `serialized_length_serde_2026(buf, max_atom_len, strict)` -/
def serializedLength2026 (buf : Bytes) (maxAtomLen : Nat) (strict : Bool) : Except Err Nat :=
  if buf.take magic.length != magic then .error .SerializationError      -- `!buf.starts_with(&MAGIC)`
  else
    let data := buf.drop magic.length
    match readVarint strict data with
    | .error e => .error e
    | .ok (gc, inp1) =>
      match checkedUsize gc with
      | .error e => .error e
      | .ok groupCount =>
        match lenGroups maxAtomLen strict data.length groupCount inp1 with
        | .error e => .error e
        | .ok inp2 =>
          match readVarint strict inp2 with
          | .error e => .error e
          | .ok (ic, inp3) =>
            match checkedUsize ic with
            | .error e => .error e
            | .ok instructionCount =>
              if instructionCount == 0 then .error .SerializationError
              else
                match lenInstructions strict instructionCount inp3 with
                | .error e => .error e
                | .ok inp4 => .ok (magic.length + (data.length - inp4.length))

end Clvm.Serde2026
