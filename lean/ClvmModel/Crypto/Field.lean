/-
Independent implementation, layer "field": modular arithmetic on `Nat` (GMP-backed when
compiled), square-and-multiply exponentiation with explicit fuel, Fermat inversion, square
roots for p ≡ 3 (mod 4), and the quadratic extension Fp2 = Fp[u]/(u² + 1) with square roots
(complex method).  Everything is total and structurally recursive.

Nothing here is a transcription of /repo or of the crates it calls (blst, k256, p256): this is
the *independent implementation* the operators are compared with (C32).  It is validated by
differential testing against the real crates and by the vector files, not proved.
-/
import ClvmModel.Basic

namespace Clvm.Crypto

/-! ### Fp -/

@[inline] def addMod (p a b : Nat) : Nat := (a + b) % p
@[inline] def subMod (p a b : Nat) : Nat := (a % p + (p - b % p)) % p
@[inline] def mulMod (p a b : Nat) : Nat := (a * b) % p
@[inline] def negMod (p a : Nat) : Nat := (p - a % p) % p

/-- square-and-multiply, least significant bit first; `fuel` bounds the number of bits read -/
def powModAux (p : Nat) : Nat → Nat → Nat → Nat → Nat
  | 0, _, _, acc => acc
  | fuel + 1, b, e, acc =>
    if e = 0 then acc
    else powModAux p fuel (b * b % p) (e / 2) (if e % 2 = 1 then acc * b % p else acc)

/-- `b ^ e mod p`; fuel = bit length of `e` -/
def powMod (p b e : Nat) : Nat := powModAux p (e.log2 + 1) (b % p) e (1 % p)

/-- inverse by Fermat's little theorem (`p` prime); `0 ↦ 0` -/
def invMod (p a : Nat) : Nat := powMod p a (p - 2)

/-- square root for `p ≡ 3 (mod 4)`: candidate `a^((p+1)/4)`, checked by squaring -/
def sqrtMod (p a : Nat) : Option Nat :=
  let a := a % p
  let c := powMod p a ((p + 1) / 4)
  if c * c % p = a then some c else none

/-! ### Fp2 = Fp[u]/(u² + 1)  (−1 is a non-residue because p ≡ 3 mod 4) -/

structure Fp2 where
  c0 : Nat
  c1 : Nat
  deriving DecidableEq, Repr, Inhabited

namespace Fp2

@[inline] def zero : Fp2 := ⟨0, 0⟩
@[inline] def one : Fp2 := ⟨1, 0⟩
@[inline] def isZero (a : Fp2) : Bool := a.c0 == 0 && a.c1 == 0
@[inline] def add (p : Nat) (a b : Fp2) : Fp2 := ⟨addMod p a.c0 b.c0, addMod p a.c1 b.c1⟩
@[inline] def sub (p : Nat) (a b : Fp2) : Fp2 := ⟨subMod p a.c0 b.c0, subMod p a.c1 b.c1⟩
@[inline] def neg (p : Nat) (a : Fp2) : Fp2 := ⟨negMod p a.c0, negMod p a.c1⟩
/-- (a0 + a1 u)(b0 + b1 u) = (a0 b0 − a1 b1) + (a0 b1 + a1 b0) u -/
@[inline] def mul (p : Nat) (a b : Fp2) : Fp2 :=
  ⟨subMod p (a.c0 * b.c0) (a.c1 * b.c1), (a.c0 * b.c1 + a.c1 * b.c0) % p⟩
@[inline] def sqr (p : Nat) (a : Fp2) : Fp2 := mul p a a
/-- conjugate = Frobenius -/
@[inline] def conj (p : Nat) (a : Fp2) : Fp2 := ⟨a.c0 % p, negMod p a.c1⟩
@[inline] def mulFp (p : Nat) (a : Fp2) (k : Nat) : Fp2 := ⟨a.c0 * k % p, a.c1 * k % p⟩
/-- 1/(a0 + a1 u) = (a0 − a1 u)/(a0² + a1²); `0 ↦ 0` -/
def inv (p : Nat) (a : Fp2) : Fp2 :=
  let n := invMod p ((a.c0 * a.c0 + a.c1 * a.c1) % p)
  ⟨a.c0 * n % p, negMod p (a.c1 * n)⟩

def powAux (p : Nat) : Nat → Fp2 → Nat → Fp2 → Fp2
  | 0, _, _, acc => acc
  | fuel + 1, b, e, acc =>
    if e = 0 then acc
    else powAux p fuel (sqr p b) (e / 2) (if e % 2 = 1 then mul p acc b else acc)

def pow (p : Nat) (b : Fp2) (e : Nat) : Fp2 := powAux p (e.log2 + 1) b e one

/-- Square root in Fp2 by the "complex method": with n = a0² + a1² = s², one root of
`a0 + a1 u` is `x0 + x1 u` where x0² = (a0 ± s)/2 and x1 = a1 / (2 x0).  The candidate is
checked by squaring, so a wrong branch can only produce `none`, never a wrong root. -/
def sqrt (p : Nat) (a : Fp2) : Option Fp2 :=
  let a : Fp2 := ⟨a.c0 % p, a.c1 % p⟩
  let check (x : Fp2) : Option Fp2 := if sqr p x = a then some x else none
  if a.c1 = 0 then
    match sqrtMod p a.c0 with
    | some x => check ⟨x, 0⟩
    | none =>
      match sqrtMod p (negMod p a.c0) with
      | some x => check ⟨0, x⟩
      | none => none
  else
    match sqrtMod p ((a.c0 * a.c0 + a.c1 * a.c1) % p) with
    | none => none
    | some s =>
      let half := invMod p 2
      let d1 := (a.c0 + s) * half % p
      let x0? := match sqrtMod p d1 with
        | some x => some x
        | none => sqrtMod p (subMod p a.c0 s * half % p)
      match x0? with
      | none => none
      | some x0 => check ⟨x0, a.c1 * invMod p (2 * x0 % p) % p⟩

end Fp2

/-! ### bytes ↔ naturals (big endian) -/

def natOfBytesBE (b : Bytes) : Nat := b.foldl (fun a x => a * 256 + x.toNat) 0

/-- exactly `len` bytes, big endian (high bytes are dropped if `n` does not fit) -/
def bytesOfNatBE : Nat → Nat → Bytes
  | 0, _ => []
  | len + 1, n => UInt8.ofNat (n / 256 ^ len % 256) :: bytesOfNatBE len n

end Clvm.Crypto
