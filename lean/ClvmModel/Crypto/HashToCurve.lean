/-
Independent implementation: RFC 9380 hash-to-curve for BLS12-381, suites
BLS12381G1_XMD:SHA-256_SSWU_RO_ and BLS12381G2_XMD:SHA-256_SSWU_RO_ (with an arbitrary DST):
expand_message_xmd (SHA-256), hash_to_field (count = 2, L = 64), simplified SWU on the
isogenous curve E', the 11- / 3-isogeny to E, point addition, cofactor clearing by h_eff.
Written from the RFC's pseudocode in its *straight-line, non-optimised* form (inv0, is_square
by computing a square root, scalar multiplication by h_eff); only the isogeny coefficients are
machine-converted from the vendored blst sources (see IsoConsts.lean).  Validated by the
`crypto` stream against blst's `hash_to_g1/g2` outputs.
-/
import ClvmModel.Hash.Sha256
import ClvmModel.Crypto.Bls
import ClvmModel.Crypto.IsoConsts

namespace Clvm.Crypto.Bls

/-! ### expand_message_xmd / hash_to_field -/

def strxor : Bytes → Bytes → Bytes
  | a :: as, b :: bs => (a ^^^ b) :: strxor as bs
  | _, _ => []

/-- b_1 … b_ell given b_0 -/
def xmdBlocks (b0 dstPrime : Bytes) : Nat → Nat → Bytes → List Bytes
  | 0, _, _ => []
  | n + 1, i, prev =>
    let bi := Hash.sha256 (strxor b0 prev ++ [UInt8.ofNat i] ++ dstPrime)
    bi :: xmdBlocks b0 dstPrime n (i + 1) bi

/-- `expand_message_xmd(msg, DST, len_in_bytes)` with H = SHA-256 (ell ≤ 255 for the lengths used) -/
def expandMessageXmd (msg dst : Bytes) (len : Nat) : Bytes :=
  let dst := if dst.length > 255 then Hash.sha256 ("H2C-OVERSIZE-DST-".toUTF8.toList ++ dst) else dst
  let ell := (len + 31) / 32
  let dstPrime := dst ++ [UInt8.ofNat dst.length]
  let zPad : Bytes := List.replicate 64 0
  let libStr : Bytes := [UInt8.ofNat (len / 256), UInt8.ofNat (len % 256)]
  let b0 := Hash.sha256 (zPad ++ msg ++ libStr ++ [0] ++ dstPrime)
  let blocks := xmdBlocks b0 dstPrime ell 1 (List.replicate 32 0)
  (blocks.flatten).take len

/-- split into chunks of 64 bytes, each reduced mod p -/
def fieldElems : Nat → Bytes → List Nat
  | 0, _ => []
  | n + 1, b => (natOfBytesBE (b.take 64) % p) :: fieldElems n (b.drop 64)

/-! ### simplified SWU, generic over the field record -/

structure SswuParams (α : Type) where
  F : FieldOps α
  A : α
  B : α
  Z : α
  sqrt : α → Option α
  sgn0 : α → Bool

/-- `map_to_curve_simple_swu` (RFC 9380 §6.6.2, straight-line version) -/
def sswu {α : Type} (S : SswuParams α) (u : α) : α × α :=
  let F := S.F
  let u2 := F.mul u u
  let zu2 := F.mul S.Z u2
  let tv1 := F.inv (F.add (F.mul zu2 zu2) zu2)              -- inv0(Z²u⁴ + Zu²)
  let x1 :=
    if F.isZero tv1 then F.mul S.B (F.inv (F.mul S.Z S.A))   -- B / (Z·A)
    else F.mul (F.mul (F.neg S.B) (F.inv S.A)) (F.add F.one tv1)
  let g (x : α) := F.add (F.add (F.mul (F.mul x x) x) (F.mul S.A x)) S.B
  let gx1 := g x1
  let x2 := F.mul zu2 x1
  let gx2 := g x2
  let (x, y) :=
    match S.sqrt gx1 with
    | some y => (x1, y)
    | none => (x2, (S.sqrt gx2).getD F.zero)
  let y := if S.sgn0 u != S.sgn0 y then F.neg y else y
  (x, y)

/-- Horner evaluation, coefficients listed from degree 0 upwards -/
def evalPoly {α : Type} (F : FieldOps α) (coeffs : List α) (x : α) : α :=
  coeffs.foldr (fun c acc => F.add (F.mul acc x) c) F.zero

/-- the isogeny E' → E: x = xNum/xDen, y = y'·yNum/yDen (a zero denominator maps to ∞) -/
def isoMap {α : Type} (F : FieldOps α) (xNum xDen yNum yDen : List α) (P : α × α) : Curve.Affine α :=
  let (x', y') := P
  let xd := evalPoly F xDen x'
  let yd := evalPoly F yDen x'
  if F.isZero xd || F.isZero yd then none
  else some (F.mul (evalPoly F xNum x') (F.inv xd), F.mul y' (F.mul (evalPoly F yNum x') (F.inv yd)))

/-! ### G1 -/

def sswuG1 : SswuParams Nat where
  F := fpOps p
  A := 0x00144698a3b8e9433d693a02c96d4982b0ea985383ee66a8d8e8981aefd881ac98936f8da0e0f97f5cf428082d584c1d
  B := 0x12e2908d11688030018b12e8753eee3b2016c1f0f24f4070a0b9c14fcef35ef55a23215a316ceaa5d1cc48e98e172be0
  Z := 11
  sqrt := sqrtMod p
  sgn0 := fun x => x % 2 == 1

/-- h_eff for G1 = 1 − z -/
def hEffG1 : Nat := 0xd201000000010001

def mapToG1 (u : Nat) : G1 :=
  isoMap (fpOps p) Iso.g1XNum (Iso.g1XDen ++ [1]) Iso.g1YNum (Iso.g1YDen ++ [1]) (sswu sswuG1 u)

/-- `hash_to_curve` for G1: hash_to_field(msg, 2), map both, add, clear the cofactor -/
def hashToG1 (msg dst : Bytes) : G1 :=
  match fieldElems 2 (expandMessageXmd msg dst 128) with
  | [u0, u1] => g1Curve.mul hEffG1 (g1Curve.add (mapToG1 u0) (mapToG1 u1))
  | _ => none

/-! ### G2 -/

def sgn0Fp2 (x : Fp2) : Bool :=
  let sign0 := x.c0 % 2 == 1
  let zero0 := x.c0 == 0
  let sign1 := x.c1 % 2 == 1
  sign0 || (zero0 && sign1)

def sswuG2 : SswuParams Fp2 where
  F := fp2Ops p
  A := ⟨0, 240⟩
  B := ⟨1012, 1012⟩
  Z := ⟨p - 2, p - 1⟩                       -- −(2 + u)
  sqrt := Fp2.sqrt p
  sgn0 := sgn0Fp2

/-- h_eff for G2 (RFC 9380 §8.8.2) -/
def hEffG2 : Nat :=
  0xbc69f08f2ee75b3584c6a0ea91b352888e2a8e9145ad7689986ff031508ffe1329c2f178731db956d82bf015d1212b02ec0ec69d7477c1ae954cbc06689f6a359894c0adebbf6b4e8020005aaa95551

def mapToG2 (u : Fp2) : G2 :=
  isoMap (fp2Ops p) Iso.g2XNum (Iso.g2XDen ++ [Fp2.one]) Iso.g2YNum (Iso.g2YDen ++ [Fp2.one]) (sswu sswuG2 u)

/-- `hash_to_curve` for G2: hash_to_field(msg, 2) with m = 2 -/
def hashToG2 (msg dst : Bytes) : G2 :=
  match fieldElems 4 (expandMessageXmd msg dst 256) with
  | [a0, a1, b0, b1] => g2Curve.mul hEffG2 (g2Curve.add (mapToG2 ⟨a0, a1⟩) (mapToG2 ⟨b0, b1⟩))
  | _ => none

end Clvm.Crypto.Bls
