/-
Independent implementation: BLS12-381 groups G1 (over Fp) and G2 (over Fp2), the ZCash
compressed point encoding, subgroup membership by multiplication with the group order, and
scalar multiplication.  Parameters are the standard ones (draft-irtf-cfrg-pairing-friendly-curves,
ZCash protocol spec §5.4.9.2); nothing here is transcribed from blst or chia-bls.

Encoding (ZCash): bit 7 of byte 0 = compressed, bit 6 = infinity, bit 5 = "y is the
lexicographically larger root"; the remaining 381 bits are x (G1) or x.c1 (G2, followed by
the 48 bytes of x.c0).  Accepted iff: compressed bit set; infinity ⇒ every other bit zero;
coordinates < p; x³ + b is a square; the point is in the order-r subgroup.

One rule of `chia_bls::G1Element::from_bytes` is not in the standard: a non-infinity G1
encoding whose bytes 1‥47 are all zero is rejected before decoding (`G1InfinityNotZero`).  It is
kept as an explicit extra clause (`chiaG1Quirk`); `ClvmProofs/Props/C32.lean` shows it unobservable by
kernel-evaluating that none of the 64 affected encodings is an accepted subgroup point.
-/
import ClvmModel.Crypto.Curve

namespace Clvm.Crypto.Bls

/-- base field modulus -/
def p : Nat := 0x1a0111ea397fe69a4b1ba7b6434bacd764774b84f38512bf6730d2a0f6b0f6241eabfffeb153ffffb9feffffffffaaab
/-- group order -/
def r : Nat := 0x73eda753299d7d483339d80809a1d80553bda402fffe5bfeffffffff00000001

def g1Curve : Curve Nat := ⟨fpOps p, 0, 4⟩
def g2Curve : Curve Fp2 := ⟨fp2Ops p, Fp2.zero, ⟨4, 4⟩⟩

abbrev G1 := Curve.Affine Nat
abbrev G2 := Curve.Affine Fp2

def g1Gen : G1 := some
  (0x17f1d3a73197d7942695638c4fa9ac0fc3688c4f9774b905a14e3a3f171bac586c55e83ff97a1aeffb3af00adb22c6bb,
   0x08b3f481e3aaa0f1a09e30ed741d8ae4fcf5e095d5d00af600db18cb2c04b3edd03cc744a2888ae40caa232946c5e7e1)

def g2Gen : G2 := some
  (⟨0x024aa2b2f08f0a91260805272dc51051c6e47ad4fa403b02b4510b647ae3d1770bac0326a805bbefd48056c8c121bdb8,
    0x13e02b6052719f607dacd3a088274f65596bd0d09920b61ab5da61bbdc7f5049334cf11213945d57e5ac7d055d042b7e⟩,
   ⟨0x0ce5d527727d6e118cc9cdc6da2e351aadfd9baa8cbdd3a76d429a695160d12c923ac9cc3baca289e193548608b82801,
    0x0606c4a02ea734cc32acd2b02bc28b99cb3e287e85a763af267492ab572e99ab3f370d275cec1da1aaa9075ff05f79be⟩)

/-- y > (p−1)/2 -/
@[inline] def fpIsLarger (y : Nat) : Bool := y > (p - 1) / 2
/-- lexicographic order on Fp2 with c1 most significant -/
@[inline] def fp2IsLarger (y : Fp2) : Bool := if y.c1 ≠ 0 then fpIsLarger y.c1 else fpIsLarger y.c0

def inSubgroupG1 (P : G1) : Bool := (g1Curve.mul r P).isNone
def inSubgroupG2 (P : G2) : Bool := (g2Curve.mul r P).isNone

/-! ### decoding -/

/-- the extra rejection of `chia_bls::PublicKey::from_bytes_unchecked` (see the header) -/
def chiaG1Quirk (bytes : Bytes) : Bool :=
  match bytes with
  | b0 :: rest => (b0.toNat / 64 == 2) && rest.all (· == 0)
  | [] => false

/-- ZCash-compressed G1 point *without* the subgroup check (`none` = invalid encoding) -/
def g1DecodeUnchecked (bytes : Bytes) : Option G1 :=
  match bytes with
  | [] => none
  | b0 :: rest =>
    if bytes.length ≠ 48 then none
    else
      let f := b0.toNat
      if f / 128 = 0 then none                              -- not compressed
      else if f / 64 % 2 = 1 then                           -- infinity bit
        if f = 0xc0 ∧ rest.all (· == 0) then some none else none
      else
        let sign := f / 32 % 2 = 1
        let x := natOfBytesBE (UInt8.ofNat (f % 32) :: rest)
        if x ≥ p then none
        else
          match sqrtMod p ((x * x % p * x + 4) % p) with
          | none => none
          | some y =>
            let y := if fpIsLarger y == sign then y else negMod p y
            some (some (x, y))

/-- `G1Element::from_bytes`: decoding + subgroup check (infinity is accepted) -/
def g1Decode (bytes : Bytes) : Option G1 :=
  if chiaG1Quirk bytes then none
  else
    match g1DecodeUnchecked bytes with
    | none => none
    | some P => if inSubgroupG1 P then some P else none

def g1Encode : G1 → Bytes
  | none => 0xc0 :: List.replicate 47 0
  | some (x, y) =>
    match bytesOfNatBE 48 x with
    | b0 :: rest => UInt8.ofNat (b0.toNat % 32 + 0x80 + (if fpIsLarger y then 0x20 else 0)) :: rest
    | [] => []

def g2DecodeUnchecked (bytes : Bytes) : Option G2 :=
  match bytes with
  | [] => none
  | b0 :: rest =>
    if bytes.length ≠ 96 then none
    else
      let f := b0.toNat
      if f / 128 = 0 then none
      else if f / 64 % 2 = 1 then
        if f = 0xc0 ∧ rest.all (· == 0) then some none else none
      else
        let sign := f / 32 % 2 = 1
        let x1 := natOfBytesBE (UInt8.ofNat (f % 32) :: rest.take 47)
        let x0 := natOfBytesBE (rest.drop 47)
        if x1 ≥ p ∨ x0 ≥ p then none
        else
          let x : Fp2 := ⟨x0, x1⟩
          let rhs := Fp2.add p (Fp2.mul p (Fp2.sqr p x) x) ⟨4, 4⟩
          match Fp2.sqrt p rhs with
          | none => none
          | some y =>
            let y := if fp2IsLarger y == sign then y else Fp2.neg p y
            some (some (x, y))

/-- `G2Element::from_bytes` -/
def g2Decode (bytes : Bytes) : Option G2 :=
  match g2DecodeUnchecked bytes with
  | none => none
  | some P => if inSubgroupG2 P then some P else none

def g2Encode : G2 → Bytes
  | none => 0xc0 :: List.replicate 95 0
  | some (x, y) =>
    match bytesOfNatBE 48 x.c1 with
    | b0 :: rest =>
      UInt8.ofNat (b0.toNat % 32 + 0x80 + (if fp2IsLarger y then 0x20 else 0)) :: rest ++ bytesOfNatBE 48 x.c0
    | [] => []

/-! ### group operations as the operators use them -/

/-- scalar multiplication by a non-negative scalar already reduced by the caller -/
def g1Mul (k : Nat) (P : G1) : G1 := g1Curve.mul k P
def g2Mul (k : Nat) (P : G2) : G2 := g2Curve.mul k P

def g1Add (P Q : G1) : G1 := g1Curve.add P Q
def g1Sub (P Q : G1) : G1 := g1Curve.sub P Q
def g1Neg (P : G1) : G1 := g1Curve.neg P
def g2Add (P Q : G2) : G2 := g2Curve.add P Q
def g2Sub (P Q : G2) : G2 := g2Curve.sub P Q
def g2Neg (P : G2) : G2 := g2Curve.neg P

/-- `G1Element::from_integer` -/
def pubkeyForExp (k : Nat) : G1 := g1Mul k g1Gen

end Clvm.Crypto.Bls
