/-
Independent implementation: ECDSA verification over secp256k1 and secp256r1 (NIST P-256).

Curve parameters are the standard ones (SEC 2 / NIST SP 800-186).  The *acceptance rules* are
those of the RustCrypto crates the operators call (read from the vendored sources
k256-0.14.0-rc.9, p256-0.14.0-rc.9, primeorder, ecdsa-0.17.0-rc.17, sec1-0.8.1), stated
here as a specification:

* public key = `VerifyingKey::from_sec1_bytes`: first byte is the SEC1 tag; `00` (identity, 1
  byte) parses but is rejected as a public key; `02`/`03` compressed (33 bytes); `04`
  uncompressed (65 bytes, must satisfy the curve equation); **`05` "compact" (33 bytes, x only)
  is accepted** — this is not a SEC1 encoding: k256 decodes it with the even y (BIP-340
  convention), p256 with the smaller of y and p − y; hybrid tags `06`/`07` and everything
  else are rejected; coordinates must be < p.
* signature = `Signature::from_slice`: exactly 64 bytes r ‖ s, 1 ≤ r, s ≤ n − 1.
* `verify_prehash`: **k256 rejects s > n/2 ("high-s", `NORMALIZE_S = true`), p256 does not**;
  z = prehash mod n (32-byte prehash, so `bits2field` is the identity); u1 = z/s, u2 = r/s,
  R = u1·G + u2·Q; accept iff R ≠ ∞ and R.x mod n = r.
-/
import ClvmModel.Crypto.Curve

namespace Clvm.Crypto

structure EcdsaParams where
  p : Nat
  a : Nat
  b : Nat
  gx : Nat
  gy : Nat
  n : Nat
  /-- `EcdsaCurve::NORMALIZE_S`: verification refuses s > n/2 -/
  rejectHighS : Bool
  /-- decoding of the non-standard tag 05: `true` = smaller of (y, p−y), `false` = even y -/
  compactMinY : Bool

def secp256k1 : EcdsaParams where
  p := 0xfffffffffffffffffffffffffffffffffffffffffffffffffffffffefffffc2f
  a := 0
  b := 7
  gx := 0x79be667ef9dcbbac55a06295ce870b07029bfcdb2dce28d959f2815b16f81798
  gy := 0x483ada7726a3c4655da4fbfc0e1108a8fd17b448a68554199c47d08ffb10d4b8
  n := 0xfffffffffffffffffffffffffffffffebaaedce6af48a03bbfd25e8cd0364141
  rejectHighS := true
  compactMinY := false

def secp256r1 : EcdsaParams where
  p := 0xffffffff00000001000000000000000000000000ffffffffffffffffffffffff
  a := 0xffffffff00000001000000000000000000000000fffffffffffffffffffffffc
  b := 0x5ac635d8aa3a93e7b3ebbd55769886bc651d06b0cc53b0f63bce3c3e27d2604b
  gx := 0x6b17d1f2e12c4247f8bce6e563a440f277037d812deb33a0f4a13945d898c296
  gy := 0x4fe342e2fe1a7f9b8ee7eb4a7c0f9e162bce33576b315ececbb6406837bf51f5
  n := 0xffffffff00000000ffffffffffffffffbce6faada7179e84f3b9cac2fc632551
  rejectHighS := false
  compactMinY := true

namespace EcdsaParams
variable (K : EcdsaParams)

def curve : Curve Nat := ⟨fpOps K.p, K.a, K.b⟩

def G : Curve.Affine Nat := some (K.gx, K.gy)

/-- the y with y² = x³ + a x + b and the requested parity (x < p assumed checked) -/
def liftX (x : Nat) (odd : Bool) : Option (Nat × Nat) :=
  let rhs := (x * x % K.p * x + K.a * x + K.b) % K.p
  match sqrtMod K.p rhs with
  | none => none
  | some y =>
    let y := if (y % 2 == 1) == odd then y else negMod K.p y
    some (x, y)

/-- `VerifyingKey::from_sec1_bytes` -/
def decodePublicKey (bytes : Bytes) : Option (Nat × Nat) :=
  match bytes with
  | [] => none
  | tag :: rest =>
    let t := tag.toNat
    if t = 0 then none                      -- identity (or wrong length): never a public key
    else if t = 2 ∨ t = 3 then
      if rest.length ≠ 32 then none
      else
        let x := natOfBytesBE rest
        if x ≥ K.p then none else K.liftX x (t = 3)
    else if t = 4 then
      if rest.length ≠ 64 then none
      else
        let x := natOfBytesBE (rest.take 32)
        let y := natOfBytesBE (rest.drop 32)
        if x ≥ K.p ∨ y ≥ K.p then none
        else if K.curve.onCurve (some (x, y)) then some (x, y) else none
    else if t = 5 then
      if rest.length ≠ 32 then none
      else
        let x := natOfBytesBE rest
        if x ≥ K.p then none
        else
          match K.liftX x false with
          | none => none
          | some (x, y) =>
            if K.compactMinY then
              let ny := negMod K.p y
              some (x, if y > ny then ny else y)
            else some (x, y)
    else none

/-- `Signature::from_slice` -/
def decodeSignature (bytes : Bytes) : Option (Nat × Nat) :=
  if bytes.length ≠ 64 then none
  else
    let r := natOfBytesBE (bytes.take 32)
    let s := natOfBytesBE (bytes.drop 32)
    if r ≥ K.n ∨ s ≥ K.n then none
    else if r = 0 ∨ s = 0 then none
    else some (r, s)

/-- `verify_prehash` for a 32-byte prehash -/
def verifyPrehash (Q : Nat × Nat) (prehash : Bytes) (sig : Nat × Nat) : Bool :=
  let (r, s) := sig
  if K.rejectHighS && s > K.n / 2 then false
  else
    let z := natOfBytesBE prehash % K.n
    let sInv := invMod K.n s
    let u1 := z * sInv % K.n
    let u2 := r * sInv % K.n
    match K.curve.mulAdd u1 K.G u2 (some Q) with
    | none => false
    | some (x, _) => x % K.n == r

end EcdsaParams
end Clvm.Crypto
