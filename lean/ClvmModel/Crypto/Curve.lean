/-
Independent implementation, layer "curve": short Weierstrass curves y² = x³ + a x + b over a
field given as a record of operations (instantiated with Fp and Fp2).  Affine points are
`Option (α × α)` (`none` = point at infinity); arithmetic is done in Jacobian coordinates
(X/Z², Y/Z³) so that a scalar multiplication needs one field inversion.
Not a transcription of any code in /repo or its dependencies.
-/
import ClvmModel.Crypto.Field

namespace Clvm.Crypto

structure FieldOps (α : Type) where
  zero : α
  one : α
  add : α → α → α
  sub : α → α → α
  mul : α → α → α
  neg : α → α
  inv : α → α
  isZero : α → Bool
  eq : α → α → Bool

def fpOps (p : Nat) : FieldOps Nat where
  zero := 0
  one := 1 % p
  add := addMod p
  sub := subMod p
  mul := mulMod p
  neg := negMod p
  inv := invMod p
  isZero := fun a => a == 0
  eq := fun a b => a == b

def fp2Ops (p : Nat) : FieldOps Fp2 where
  zero := Fp2.zero
  one := Fp2.one
  add := Fp2.add p
  sub := Fp2.sub p
  mul := Fp2.mul p
  neg := Fp2.neg p
  inv := Fp2.inv p
  isZero := Fp2.isZero
  eq := fun a b => a.c0 == b.c0 && a.c1 == b.c1

structure Curve (α : Type) where
  F : FieldOps α
  a : α
  b : α

/-- Jacobian point; `z = 0` is the point at infinity -/
structure JPoint (α : Type) where
  x : α
  y : α
  z : α

namespace Curve
variable {α : Type} (C : Curve α)

abbrev Affine (α : Type) := Option (α × α)

def jInf : JPoint α := ⟨C.F.one, C.F.one, C.F.zero⟩

def toJ : Affine α → JPoint α
  | none => C.jInf
  | some (x, y) => ⟨x, y, C.F.one⟩

def toAffine (P : JPoint α) : Affine α :=
  if C.F.isZero P.z then none
  else
    let zi := C.F.inv P.z
    let zi2 := C.F.mul zi zi
    some (C.F.mul P.x zi2, C.F.mul P.y (C.F.mul zi2 zi))

/-- y² = x³ + a x + b -/
def onCurve : Affine α → Bool
  | none => true
  | some (x, y) =>
    let F := C.F
    F.eq (F.mul y y) (F.add (F.add (F.mul (F.mul x x) x) (F.mul C.a x)) C.b)

def jDouble (P : JPoint α) : JPoint α :=
  let F := C.F
  if F.isZero P.z || F.isZero P.y then C.jInf
  else
    let y2 := F.mul P.y P.y
    let s := F.mul P.x y2
    let s := F.add s s
    let s := F.add s s                         -- 4 X Y²
    let x2 := F.mul P.x P.x
    let z2 := F.mul P.z P.z
    let m := F.add (F.add (F.add x2 x2) x2) (F.mul C.a (F.mul z2 z2))   -- 3 X² + a Z⁴
    let x' := F.sub (F.mul m m) (F.add s s)
    let y4 := F.mul y2 y2
    let y4 := F.add y4 y4
    let y4 := F.add y4 y4
    let y4 := F.add y4 y4                      -- 8 Y⁴
    let y' := F.sub (F.mul m (F.sub s x')) y4
    let z' := F.mul P.y P.z
    ⟨x', y', F.add z' z'⟩

def jAdd (P Q : JPoint α) : JPoint α :=
  let F := C.F
  if F.isZero P.z then Q
  else if F.isZero Q.z then P
  else
    let z1z1 := F.mul P.z P.z
    let z2z2 := F.mul Q.z Q.z
    let u1 := F.mul P.x z2z2
    let u2 := F.mul Q.x z1z1
    let s1 := F.mul P.y (F.mul z2z2 Q.z)
    let s2 := F.mul Q.y (F.mul z1z1 P.z)
    if F.eq u1 u2 then
      if F.eq s1 s2 then C.jDouble P else C.jInf
    else
      let h := F.sub u2 u1
      let r := F.sub s2 s1
      let h2 := F.mul h h
      let h3 := F.mul h2 h
      let u1h2 := F.mul u1 h2
      let x3 := F.sub (F.sub (F.mul r r) h3) (F.add u1h2 u1h2)
      let y3 := F.sub (F.mul r (F.sub u1h2 x3)) (F.mul s1 h3)
      ⟨x3, y3, F.mul h (F.mul P.z Q.z)⟩

def jNeg (P : JPoint α) : JPoint α := ⟨P.x, C.F.neg P.y, P.z⟩

/-- double-and-add, least significant bit first; `fuel` bounds the number of bits read -/
def jMulAux : Nat → Nat → JPoint α → JPoint α → JPoint α
  | 0, _, _, acc => acc
  | fuel + 1, k, base, acc =>
    if k = 0 then acc
    else jMulAux fuel (k / 2) (C.jDouble base) (if k % 2 = 1 then C.jAdd acc base else acc)

def jMul (k : Nat) (P : JPoint α) : JPoint α := C.jMulAux (k.log2 + 1) k P C.jInf

/-! affine interface -/

def add (P Q : Affine α) : Affine α := C.toAffine (C.jAdd (C.toJ P) (C.toJ Q))

def neg : Affine α → Affine α
  | none => none
  | some (x, y) => some (x, C.F.neg y)

def sub (P Q : Affine α) : Affine α := C.add P (C.neg Q)

def mul (k : Nat) (P : Affine α) : Affine α := C.toAffine (C.jMul k (C.toJ P))

/-- `u1·P + u2·Q` -/
def mulAdd (u1 : Nat) (P : Affine α) (u2 : Nat) (Q : Affine α) : Affine α :=
  C.toAffine (C.jAdd (C.jMul u1 (C.toJ P)) (C.jMul u2 (C.toJ Q)))

end Curve
end Clvm.Crypto
