/-
Independent implementation: the optimal ate pairing on BLS12-381, only as far as the operators
need it — "is the product of pairings the identity of GT?".

Fp12 is represented as Fp2[w]/(w⁶ − ξ), ξ = 1 + u (six Fp2 coefficients, schoolbook
multiplication).  G2 points live on the sextic twist E' : y² = x³ + 4ξ over Fp2; the untwist is
(x, y) ↦ (x·w⁻², y·w⁻³).  The Miller loop runs over the bits of |z| = 0xd201000000010000 with
*affine* arithmetic on the twist; the line through the untwisted points, evaluated at
P = (xP, yP) ∈ E(Fp) and scaled by w³ (an element of the subfield Fp4, killed by the final
exponentiation), is   (y₁ − m·x₁) + (m·xP)·w² − yP·w³   with m the slope on the twist.
Since only "product = 1" is ever asked, the sign of the loop parameter (a final conjugation)
is irrelevant and omitted.  Final exponentiation: f ↦ f^((p¹²−1)/r) as
(p⁶−1)·(p²+1)·((p⁴−p²+1)/r): conjugation/inversion, one Frobenius, and a plain
square-and-multiply for the hard part.

Nothing here is transcribed from blst; it is validated by the `crypto` stream against
blst's verdicts (bls_pairing_identity, bls_verify) and by bilinearity identities.
-/
import ClvmModel.Crypto.Bls

namespace Clvm.Crypto.Bls

local infixl:65 " ⊞ " => Fp2.add p
local infixl:65 " ⊟ " => Fp2.sub p
local infixl:70 " ⊠ " => Fp2.mul p

/-- multiplication by ξ = 1 + u -/
@[inline] def mulXi (a : Fp2) : Fp2 := ⟨subMod p a.c0 a.c1, addMod p a.c0 a.c1⟩

structure Fp12 where
  c0 : Fp2
  c1 : Fp2
  c2 : Fp2
  c3 : Fp2
  c4 : Fp2
  c5 : Fp2
  deriving DecidableEq, Repr, Inhabited

namespace Fp12

def one : Fp12 := ⟨Fp2.one, Fp2.zero, Fp2.zero, Fp2.zero, Fp2.zero, Fp2.zero⟩

/-- schoolbook product in Fp2[w], reduced with w⁶ = ξ -/
def mul (a b : Fp12) : Fp12 :=
  ⟨(a.c0 ⊠ b.c0) ⊞ mulXi ((a.c1 ⊠ b.c5) ⊞ (a.c2 ⊠ b.c4) ⊞ (a.c3 ⊠ b.c3) ⊞ (a.c4 ⊠ b.c2) ⊞ (a.c5 ⊠ b.c1)),
   (a.c0 ⊠ b.c1) ⊞ (a.c1 ⊠ b.c0) ⊞ mulXi ((a.c2 ⊠ b.c5) ⊞ (a.c3 ⊠ b.c4) ⊞ (a.c4 ⊠ b.c3) ⊞ (a.c5 ⊠ b.c2)),
   (a.c0 ⊠ b.c2) ⊞ (a.c1 ⊠ b.c1) ⊞ (a.c2 ⊠ b.c0) ⊞ mulXi ((a.c3 ⊠ b.c5) ⊞ (a.c4 ⊠ b.c4) ⊞ (a.c5 ⊠ b.c3)),
   (a.c0 ⊠ b.c3) ⊞ (a.c1 ⊠ b.c2) ⊞ (a.c2 ⊠ b.c1) ⊞ (a.c3 ⊠ b.c0) ⊞ mulXi ((a.c4 ⊠ b.c5) ⊞ (a.c5 ⊠ b.c4)),
   (a.c0 ⊠ b.c4) ⊞ (a.c1 ⊠ b.c3) ⊞ (a.c2 ⊠ b.c2) ⊞ (a.c3 ⊠ b.c1) ⊞ (a.c4 ⊠ b.c0) ⊞ mulXi (a.c5 ⊠ b.c5),
   (a.c0 ⊠ b.c5) ⊞ (a.c1 ⊠ b.c4) ⊞ (a.c2 ⊠ b.c3) ⊞ (a.c3 ⊠ b.c2) ⊞ (a.c4 ⊠ b.c1) ⊞ (a.c5 ⊠ b.c0)⟩

/-- x ↦ x^(p⁶): the non-trivial automorphism over Fp6 = Fp2[w²], w ↦ −w -/
def conj6 (a : Fp12) : Fp12 := ⟨a.c0, Fp2.neg p a.c1, a.c2, Fp2.neg p a.c3, a.c4, Fp2.neg p a.c5⟩

/-- γ = ξ^((p²−1)/6) = w^(p²−1) -/
def gamma : Fp2 := Fp2.pow p ⟨1, 1⟩ ((p * p - 1) / 6)

/-- x ↦ x^(p²): Fp2 is fixed, w ↦ γ·w -/
def frob2 (a : Fp12) : Fp12 :=
  let g1 := gamma
  let g2 := g1 ⊠ g1
  let g3 := g2 ⊠ g1
  let g4 := g3 ⊠ g1
  let g5 := g4 ⊠ g1
  ⟨a.c0, a.c1 ⊠ g1, a.c2 ⊠ g2, a.c3 ⊠ g3, a.c4 ⊠ g4, a.c5 ⊠ g5⟩

/-! inversion through the tower Fp12 = Fp6[w]/(w² − v), Fp6 = Fp2[v]/(v³ − ξ), v = w² -/

structure Fp6 where
  a0 : Fp2
  a1 : Fp2
  a2 : Fp2

def Fp6.mul (a b : Fp6) : Fp6 :=
  ⟨(a.a0 ⊠ b.a0) ⊞ mulXi ((a.a1 ⊠ b.a2) ⊞ (a.a2 ⊠ b.a1)),
   (a.a0 ⊠ b.a1) ⊞ (a.a1 ⊠ b.a0) ⊞ mulXi (a.a2 ⊠ b.a2),
   (a.a0 ⊠ b.a2) ⊞ (a.a1 ⊠ b.a1) ⊞ (a.a2 ⊠ b.a0)⟩

def Fp6.sub (a b : Fp6) : Fp6 := ⟨a.a0 ⊟ b.a0, a.a1 ⊟ b.a1, a.a2 ⊟ b.a2⟩
def Fp6.neg (a : Fp6) : Fp6 := ⟨Fp2.neg p a.a0, Fp2.neg p a.a1, Fp2.neg p a.a2⟩
/-- multiplication by v -/
def Fp6.mulV (a : Fp6) : Fp6 := ⟨mulXi a.a2, a.a0, a.a1⟩

def Fp6.inv (a : Fp6) : Fp6 :=
  let t0 := (a.a0 ⊠ a.a0) ⊟ mulXi (a.a1 ⊠ a.a2)
  let t1 := mulXi (a.a2 ⊠ a.a2) ⊟ (a.a0 ⊠ a.a1)
  let t2 := (a.a1 ⊠ a.a1) ⊟ (a.a0 ⊠ a.a2)
  let d := (a.a0 ⊠ t0) ⊞ mulXi ((a.a2 ⊠ t1) ⊞ (a.a1 ⊠ t2))
  let di := Fp2.inv p d
  ⟨t0 ⊠ di, t1 ⊠ di, t2 ⊠ di⟩

/-- 1/(A0 + A1 w) = (A0 − A1 w)/(A0² − v·A1²); `0 ↦ 0` -/
def inv (a : Fp12) : Fp12 :=
  let A0 : Fp6 := ⟨a.c0, a.c2, a.c4⟩
  let A1 : Fp6 := ⟨a.c1, a.c3, a.c5⟩
  let d := Fp6.inv (Fp6.sub (Fp6.mul A0 A0) (Fp6.mulV (Fp6.mul A1 A1)))
  let B0 := Fp6.mul A0 d
  let B1 := Fp6.neg (Fp6.mul A1 d)
  ⟨B0.a0, B1.a0, B0.a1, B1.a1, B0.a2, B1.a2⟩

def powAux : Nat → Fp12 → Nat → Fp12 → Fp12
  | 0, _, _, acc => acc
  | fuel + 1, b, e, acc =>
    if e = 0 then acc
    else powAux fuel (mul b b) (e / 2) (if e % 2 = 1 then mul acc b else acc)

def pow (b : Fp12) (e : Nat) : Fp12 := powAux (e.log2 + 1) b e one

end Fp12

/-- |z|, the absolute value of the BLS parameter z = −0xd201000000010000 -/
def zAbs : Nat := 0xd201000000010000

/-- the hard part of the final exponent, (p⁴ − p² + 1)/r -/
def hardExp : Nat := (p ^ 4 - p ^ 2 + 1) / r

/-- `f^((p¹²−1)/r) = 1` -/
def finalExpIsOne (f : Fp12) : Bool :=
  let f1 := Fp12.mul (Fp12.conj6 f) (Fp12.inv f)         -- f^(p⁶−1)
  let f2 := Fp12.mul (Fp12.frob2 f1) f1                  -- ^(p²+1)
  Fp12.pow f2 hardExp == Fp12.one

/-- line through the untwisted `T` with twist slope `m`, evaluated at `P`, times w³ -/
def lineAt (m : Fp2) (T : Fp2 × Fp2) (P : Nat × Nat) : Fp12 :=
  ⟨T.2 ⊟ (m ⊠ T.1), Fp2.zero, Fp2.mulFp p m P.1, ⟨negMod p P.2, 0⟩, Fp2.zero, Fp2.zero⟩

/-- one step of the Miller loop: returns the line value and the new `T` (`none` = the
degenerate cases, impossible for points of order r: they contribute no line) -/
def dblStep (T : Fp2 × Fp2) (P : Nat × Nat) : Option (Fp12 × (Fp2 × Fp2)) :=
  let (x, y) := T
  if y.isZero then none
  else
    let x2 := x ⊠ x
    let m := (x2 ⊞ x2 ⊞ x2) ⊠ Fp2.inv p (y ⊞ y)
    let x3 := (m ⊠ m) ⊟ (x ⊞ x)
    let y3 := (m ⊠ (x ⊟ x3)) ⊟ y
    some (lineAt m T P, (x3, y3))

def addStep (T Q : Fp2 × Fp2) (P : Nat × Nat) : Option (Fp12 × (Fp2 × Fp2)) :=
  if T.1 = Q.1 then none
  else
    let m := (Q.2 ⊟ T.2) ⊠ Fp2.inv p (Q.1 ⊟ T.1)
    let x3 := (m ⊠ m) ⊟ T.1 ⊟ Q.1
    let y3 := (m ⊠ (T.1 ⊟ x3)) ⊟ T.2
    some (lineAt m T P, (x3, y3))

/-- Miller loop over the bits `i = n-1 … 0` of |z| (below the leading one) -/
def millerAux (P : Nat × Nat) (Q : Fp2 × Fp2) : Nat → Fp12 → Option (Fp2 × Fp2) → Fp12
  | 0, f, _ => f
  | i + 1, f, T =>
    let f := Fp12.mul f f
    match T with
    | none => millerAux P Q i f none
    | some T =>
      match dblStep T P with
      | none => millerAux P Q i f none
      | some (l, T2) =>
        let f := Fp12.mul f l
        if zAbs / 2 ^ i % 2 = 1 then
          match addStep T2 Q P with
          | none => millerAux P Q i f none
          | some (l, T3) => millerAux P Q i (Fp12.mul f l) (some T3)
        else millerAux P Q i f (some T2)

/-- f_{|z|,Q}(P) for finite points -/
def miller (P : Nat × Nat) (Q : Fp2 × Fp2) : Fp12 := millerAux P Q zAbs.log2 Fp12.one (some Q)

/-- the Miller value of a pair, with e(∞, ·) = e(·, ∞) = 1 -/
def millerPair : G1 × G2 → Fp12
  | (some P, some Q) => miller P Q
  | _ => Fp12.one

/-- **Specification**: ∏ e(Pᵢ, Qᵢ) = 1 in GT (an empty product is 1; a pair containing a point at
infinity contributes 1). -/
def pairingProductIsOne (items : List (G1 × G2)) : Bool :=
  finalExpIsOne (items.foldl (fun acc it => Fp12.mul acc (millerPair it)) Fp12.one)

end Clvm.Crypto.Bls
