/-
Operator level of the cryptographic operators (C32): one Lean function per Rust operator
function, following the order of checks and cost charges of the source:

  src/more_ops.rs      op_sha256, op_coinid, op_point_add, op_pubkey_for_exp
  src/keccak256_ops.rs op_keccak256
  src/bls_ops.rs       op_bls_g1_subtract … op_bls_verify
  src/secp_ops.rs      op_secp256k1_verify, op_secp256r1_verify
  src/op_utils.rs      get_args, get_varargs, atom, int_atom, first, rest, nilp,
                       new_atom_and_cost, mod_group_order
  src/allocator.rs     g1, g2, new_g1, new_g2, validate_g1, validate_g2 (no cache: the
                       validated-points cache must be unobservable, which the stream checks)

`args` is the CLVM argument list as a tree.  All cost constants and flag bits come from the
translator (`Clvm.Gen`, tools/extract.d/40_crypto.py).  The cryptographic primitives are the
independent Lean implementations (`Clvm.Hash`, `Clvm.Crypto`); pairing and hash-to-curve enter
as function parameters.

Not modelled: allocator limits (`new_atom` failing with OutOfMemory / TooManyAtoms) — the
operators are run in a fresh allocator with the default limits; costs are `Nat` (no u64 wrap:
every cost is bounded by base + len·const with len < 2^32).
-/
import ClvmModel.Tree
import ClvmModel.Gen.Crypto
import ClvmModel.Hash.Sha256
import ClvmModel.Hash.Keccak256
import ClvmModel.Crypto.Secp
import ClvmModel.Crypto.Bls

namespace Clvm.Crypto

/-- Result of an operator: `fresh = true` iff the Rust operator obtained its result node from an
allocation call (`new_atom`, `new_g1`, `new_g2`, `new_atom_and_cost`: the allocator's atom count
goes up by one and the heap by the length of the result); `false` when it returns `nil()` or one
of its argument nodes unchanged.  Every operator here allocates at most once, last. -/
structure OpRes where
  cost : Nat
  value : Tree
  fresh : Bool
  deriving Repr, DecidableEq

end Clvm.Crypto

namespace Clvm.Crypto.Ops
open Clvm Clvm.Crypto

abbrev Res := Except Err OpRes

/-- `flags.contains(ClvmFlags::X)` for a flag constant `bit` -/
def hasFlag (flags bit : Nat) : Bool := flags &&& bit == bit

def newCostModel (flags : Nat) : Bool := hasFlag flags Gen.Crypto.flagNewCostModel

/-- `check_cost` -/
def checkCost (cost maxCost : Nat) : Except Err Unit :=
  if cost > maxCost then .error .CostExceeded else .ok ()

/-! ### op_utils -/

/-- `match_args::<N>`: the argument list has exactly `n` items (any atom terminates it) -/
def matchArgs : Nat → Tree → Option (List Tree)
  | 0, .atom _ => some []
  | 0, .pair _ _ => none
  | _ + 1, .atom _ => none
  | n + 1, .pair f r => (matchArgs n r).map (f :: ·)

/-- `get_args::<N>` -/
def getArgs (n : Nat) (args : Tree) (name : String) : Except Err (List Tree) :=
  match matchArgs n args with
  | some l => .ok l
  | none => .error (.InvalidOpArg s!"{name} takes exactly {n} argument(s)")

/-- `get_varargs::<N>`: at most `n` items; returns the items present -/
def getVarargs : Nat → Tree → String → Except Err (List Tree)
  | _, .atom _, _ => .ok []
  | 0, .pair _ _, name => .error (.InvalidOpArg s!"{name} takes no more than N arguments")
  | n + 1, .pair f r, name => (getVarargs n r name).map (f :: ·)

/-- `atom` -/
def atomOf (t : Tree) (name : String) : Except Err Bytes :=
  match t with
  | .pair _ _ => .error (.InvalidOpArg s!"{name} used on list")
  | .atom b => .ok b

/-- `number_from_u8`: big-endian two's complement, empty = 0 -/
def intOfBytes (b : Bytes) : Int :=
  match b with
  | [] => 0
  | x :: _ =>
    let n := natOfBytesBE b
    if x.toNat ≥ 0x80 then (n : Int) - (256 ^ b.length : Nat) else n

/-- `int_atom`: (value, length in bytes) -/
def intAtom (t : Tree) (name : String) : Except Err (Int × Nat) :=
  match t with
  | .pair _ _ => .error (.InvalidOpArg s!"Requires Int Argument: {name}")
  | .atom b => .ok (intOfBytes b, b.length)

/-- `nilp` -/
def nilp : Tree → Bool
  | .atom [] => true
  | _ => false

/-- `first` -/
def first : Tree → Except Err Tree
  | .pair f _ => .ok f
  | .atom _ => .error (.InvalidOpArg "first of non-cons")

/-- `rest` -/
def rest : Tree → Except Err Tree
  | .pair _ r => .ok r
  | .atom _ => .error (.InvalidOpArg "rest of non-cons")

/-- `new_atom_and_cost` -/
def newAtomAndCost (cost : Nat) (buf : Bytes) : Res :=
  .ok ⟨cost + buf.length * Gen.Crypto.mallocCostPerByte, .atom buf, true⟩

/-- `mod_group_order`: `mod_floor`, then the (dead) sign correction, as written -/
def modGroupOrder (n : Int) : Int :=
  let order : Int := Gen.Crypto.groupOrder
  let remainder := Int.fmod n order
  if remainder < 0 then remainder + order else remainder

/-- `fits_in_small_atom` (what `Allocator::small_number` answers for a byte buffer) -/
def fitsInSmallAtom (v : Bytes) : Option Nat :=
  match v with
  | [] => some 0
  | [b0] => if b0 == 0 || b0.toNat ≥ 0x80 then none else some b0.toNat
  | b0 :: b1 :: _ =>
    if v.length > 4 || b0.toNat ≥ 0x80 || (b0 == 0 && b1.toNat < 0x80) || (v.length == 4 && b0.toNat > 3)
    then none else some (natOfBytesBE v)

def smallNumber : Tree → Option Nat
  | .atom b => fitsInSmallAtom b
  | .pair _ _ => none

/-! ### allocator: point decoding -/

/-- `Allocator::g1` -/
def allocG1 (t : Tree) : Except Err Bls.G1 :=
  match t with
  | .pair _ _ => .error (.InvalidAllocArg "pair found, expected G1 point")
  | .atom b =>
    if b.length ≠ 48 then .error (.InvalidAllocArg "atom is not G1 size, 48 bytes")
    else match Bls.g1Decode b with
      | some P => .ok P
      | none => .error (.InvalidAllocArg "atom is not a G1 point")

/-- `Allocator::g2` -/
def allocG2 (t : Tree) : Except Err Bls.G2 :=
  match t with
  | .pair _ _ => .error (.InvalidAllocArg "pair found, expected G2 point")
  | .atom b =>
    if b.length ≠ 96 then .error (.InvalidAllocArg "atom is not G2 size, 96 bytes")
    else match Bls.g2Decode b with
      | some P => .ok P
      | none => .error (.InvalidAllocArg "atom is not a G2 point")

/-- `Allocator::new_g1` -/
def newG1 (P : Bls.G1) : Tree := .atom (Bls.g1Encode P)
/-- `Allocator::new_g2` -/
def newG2 (P : Bls.G2) : Tree := .atom (Bls.g2Encode P)

/-- `Allocator::validate_g1` (without the cache) -/
def validateG1 (blob : Bytes) : Except Err Unit :=
  match Bls.g1Decode blob with
  | some _ => .ok ()
  | none => .error (.InvalidOpArg "atom is not a G1 point")

/-- `Allocator::validate_g2` (without the cache) -/
def validateG2 (blob : Bytes) : Except Err Unit :=
  match Bls.g2Decode blob with
  | some _ => .ok ()
  | none => .error (.InvalidOpArg "atom is not a G2 point")

/-! ### hashing operators -/

/-- the argument loop shared *in shape* by op_sha256 and op_keccak256 is written twice, as in
the source; the hasher state is modelled by the concatenation of the updates -/
def sha256Loop (perArg perByte maxCost : Nat) : Tree → Nat → Bytes → Except Err (Nat × Bytes)
  | .atom _, cost, acc => .ok (cost, acc)
  | .pair arg rest, cost, acc => do
    let cost := cost + perArg
    let blob ← atomOf arg "sha256"
    let cost := cost + blob.length * perByte
    checkCost cost maxCost
    sha256Loop perArg perByte maxCost rest cost (acc ++ blob)

/-- `op_sha256` (default build: with the pre-computed-hash fast path) -/
def opSha256 (flags maxCost : Nat) (args : Tree) : Res :=
  let (baseCost, perArg, perByte) :=
    if newCostModel flags then (Gen.Crypto.newSha256BaseCost, Gen.Crypto.newSha256CostPerArg, Gen.Crypto.newSha256CostPerByte)
    else (Gen.Crypto.sha256BaseCost, Gen.Crypto.sha256CostPerArg, Gen.Crypto.sha256CostPerByte)
  let cost := baseCost
  if args = .atom [] then newAtomAndCost cost Gen.Crypto.sha256OfEmpty
  else
    let fast : Option Nat :=
      match matchArgs 2 args with
      | some [v0, v1] =>
        if smallNumber v0 = some 1 then
          match smallNumber v1 with
          | some val => if val < Gen.Crypto.precomputedHashes.length then some val else none
          | none => none
        else none
      | _ => none
    match fast with
    | some val =>
      let numBytes := if val > 0 then 2 else 1
      let cost := cost + (numBytes * perByte + 2 * perArg)
      match checkCost cost maxCost with
      | .error e => .error e
      | .ok () =>
        match Gen.Crypto.precomputedHashes[val]? with
        | some h => newAtomAndCost cost h
        | none => .error (.Panic "PRECOMPUTED_HASHES index")
    | none =>
      match sha256Loop perArg perByte maxCost args cost [] with
      | .error e => .error e
      | .ok (cost, msg) => newAtomAndCost cost (Hash.sha256 msg)

def keccakLoop (perArg perByte maxCost : Nat) : Tree → Nat → Bytes → Except Err (Nat × Bytes)
  | .atom _, cost, acc => .ok (cost, acc)
  | .pair arg rest, cost, acc => do
    let cost := cost + perArg
    let blob ← atomOf arg "keccak256"
    let cost := cost + blob.length * perByte
    checkCost cost maxCost
    keccakLoop perArg perByte maxCost rest cost (acc ++ blob)

/-- `op_keccak256` -/
def opKeccak256 (flags maxCost : Nat) (args : Tree) : Res :=
  let (baseCost, perArg, perByte) :=
    if newCostModel flags then (Gen.Crypto.newKeccak256BaseCost, Gen.Crypto.newKeccak256CostPerArg, Gen.Crypto.newKeccak256CostPerByte)
    else (Gen.Crypto.keccak256BaseCost, Gen.Crypto.keccak256CostPerArg, Gen.Crypto.keccak256CostPerByte)
  match keccakLoop perArg perByte maxCost args baseCost [] with
  | .error e => .error e
  | .ok (cost, msg) => newAtomAndCost cost (Hash.keccak256 msg)

/-- the amount checks of `op_coinid`, in source order (`none` = accepted) -/
def coinidAmountError (amount : Bytes) : Option String :=
  match amount with
  | [] => none
  | b0 :: tl =>
    if b0 &&& 0x80 != 0 then some "CoinID Error: Invalid Amount: Amount is Negative"
    else if amount == [0] || (decide (amount.length > 1) && b0 == 0 &&
        (match tl with | b1 :: _ => b1 &&& 0x80 == 0 | [] => false)) then
      some "CoinID Error: Invalid Amount: Amount has leading zeroes"
    else if decide (amount.length > 9) || (amount.length == 9 && b0 != 0) then
      some "CoinID Error: Invalid Amount: Amount exceeds max coin amount"
    else none

/-- `op_coinid` (`max_cost` is not consulted) -/
def opCoinid (flags _maxCost : Nat) (args : Tree) : Res := do
  let l ← getArgs 3 args "coinid"
  match l with
  | [parentCoin, puzzleHash, amount] =>
    let parentCoin ← atomOf parentCoin "coinid"
    if parentCoin.length ≠ 32 then
      throw (.InvalidOpArg "CoinID Error: Invalid Parent Coin ID, not 32 bytes")
    let puzzleHash ← atomOf puzzleHash "coinid"
    if puzzleHash.length ≠ 32 then
      throw (.InvalidOpArg "CoinID Error: Invalid Puzzle Hash, not 32 bytes")
    let amount ← atomOf amount "coinid"
    match coinidAmountError amount with
    | some msg => throw (.InvalidOpArg msg)
    | none =>
      let ret := Hash.sha256 (parentCoin ++ puzzleHash ++ amount)
      if ret.length ≠ 32 then throw (.Panic "sha256 hash is not 32 bytes")
      let cost := if newCostModel flags then Gen.Crypto.newCoinidCost else Gen.Crypto.coinidCost
      newAtomAndCost cost ret
  | _ => throw (.InternalError "get_args arity")

/-! ### BLS G1 -/

def pointAddLoop (maxCost : Nat) : Tree → Nat → Bls.G1 → Except Err (Nat × Bls.G1)
  | .atom _, cost, total => .ok (cost, total)
  | .pair arg rest, cost, total => do
    let cost := cost + Gen.Crypto.pointAddCostPerArg
    checkCost cost maxCost
    let point ← allocG1 arg
    pointAddLoop maxCost rest cost (Bls.g1Add total point)

/-- `op_point_add` (g1_add, opcode 29) -/
def opPointAdd (_flags maxCost : Nat) (args : Tree) : Res := do
  let (cost, total) ← pointAddLoop maxCost args Gen.Crypto.pointAddBaseCost none
  pure ⟨cost + 48 * Gen.Crypto.mallocCostPerByte, newG1 total, true⟩

/-- `op_pubkey_for_exp` (opcode 30) -/
def opPubkeyForExp (_flags maxCost : Nat) (args : Tree) : Res := do
  let l ← getArgs 1 args "pubkey_for_exp"
  match l with
  | [n] =>
    let (v0, v0Len) ← intAtom n "pubkey_for_exp"
    let cost := Gen.Crypto.pubkeyBaseCost + v0Len * Gen.Crypto.pubkeyCostPerByte
    checkCost cost maxCost
    let point := Bls.pubkeyForExp (modGroupOrder v0).toNat
    pure ⟨cost + 48 * Gen.Crypto.mallocCostPerByte, newG1 point, true⟩
  | _ => throw (.InternalError "get_args arity")

def g1SubtractLoop (maxCost : Nat) : Tree → Nat → Bls.G1 → Bool → Except Err (Nat × Bls.G1)
  | .atom _, cost, total, _ => .ok (cost, total)
  | .pair arg rest, cost, total, isFirst => do
    let point ← allocG1 arg
    let cost := cost + Gen.Crypto.blsG1SubtractCostPerArg
    checkCost cost maxCost
    let total := if isFirst then point else Bls.g1Sub total point
    g1SubtractLoop maxCost rest cost total false

/-- `op_bls_g1_subtract` -/
def opBlsG1Subtract (_flags maxCost : Nat) (args : Tree) : Res := do
  let cost := Gen.Crypto.blsG1SubtractBaseCost
  checkCost cost maxCost
  let (cost, total) ← g1SubtractLoop maxCost args cost none true
  pure ⟨cost + 48 * Gen.Crypto.mallocCostPerByte, newG1 total, true⟩

/-- `op_bls_g1_multiply` -/
def opBlsG1Multiply (flags maxCost : Nat) (args : Tree) : Res := do
  let l ← getArgs 2 args "g1_multiply"
  match l with
  | [point, scalar] =>
    let cost := if newCostModel flags then Gen.Crypto.newBlsG1MultiplyBaseCost else Gen.Crypto.blsG1MultiplyBaseCost
    checkCost cost maxCost
    let total ← allocG1 point
    let (scalar, scalarLen) ← intAtom scalar "g1_multiply"
    if hasFlag flags Gen.Crypto.flagLimits && !newCostModel flags && scalarLen > Gen.Crypto.blsMultiplyScalarLimit then
      throw (.InvalidOpArg "g1_multiply")
    let costPerByte := if newCostModel flags then Gen.Crypto.newBlsG1MultiplyCostPerByte else Gen.Crypto.blsG1MultiplyCostPerByte
    let cost := cost + scalarLen * costPerByte
    checkCost cost maxCost
    let scalar := modGroupOrder scalar
    let total := Bls.g1Mul scalar.toNat total
    pure ⟨cost + 48 * Gen.Crypto.mallocCostPerByte, newG1 total, true⟩
  | _ => throw (.InternalError "get_args arity")

/-- `blob[0] ^= 0x20` -/
def flipSignBit : Bytes → Bytes
  | [] => []
  | b0 :: tl => (b0 ^^^ 0x20) :: tl

/-- `(blob[0] & 0xe0) == 0xc0` -/
def isCompressedInfinity : Bytes → Bool
  | [] => false
  | b0 :: _ => b0 &&& 0xe0 == 0xc0

/-- `op_bls_g1_negate` -/
def opBlsG1Negate (flags _maxCost : Nat) (args : Tree) : Res := do
  let strict := !hasFlag flags Gen.Crypto.flagRelaxedBls
  let l ← getArgs 1 args "g1_negate"
  match l with
  | [point] =>
    let blob ← atomOf point "G1 atom"
    if blob.length ≠ 48 then throw (.InvalidOpArg "atom is not a G1 size, 48 bytes")
    if strict then validateG1 blob
    if isCompressedInfinity blob then
      pure ⟨Gen.Crypto.blsG1NegateBaseCost + 48 * Gen.Crypto.mallocCostPerByte, point, false⟩
    else
      newAtomAndCost Gen.Crypto.blsG1NegateBaseCost (flipSignBit blob)
  | _ => throw (.InternalError "get_args arity")

/-! ### BLS G2 -/

def g2AddLoop (maxCost : Nat) : Tree → Nat → Bls.G2 → Except Err (Nat × Bls.G2)
  | .atom _, cost, total => .ok (cost, total)
  | .pair arg rest, cost, total => do
    let point ← allocG2 arg
    let cost := cost + Gen.Crypto.blsG2AddCostPerArg
    checkCost cost maxCost
    g2AddLoop maxCost rest cost (Bls.g2Add total point)

/-- `op_bls_g2_add` -/
def opBlsG2Add (_flags maxCost : Nat) (args : Tree) : Res := do
  let cost := Gen.Crypto.blsG2AddBaseCost
  checkCost cost maxCost
  let (cost, total) ← g2AddLoop maxCost args cost none
  pure ⟨cost + 96 * Gen.Crypto.mallocCostPerByte, newG2 total, true⟩

def g2SubtractLoop (maxCost : Nat) : Tree → Nat → Bls.G2 → Bool → Except Err (Nat × Bls.G2)
  | .atom _, cost, total, _ => .ok (cost, total)
  | .pair arg rest, cost, total, isFirst => do
    let point ← allocG2 arg
    let cost := cost + Gen.Crypto.blsG2SubtractCostPerArg
    checkCost cost maxCost
    let total := if isFirst then point else Bls.g2Sub total point
    g2SubtractLoop maxCost rest cost total false

/-- `op_bls_g2_subtract` -/
def opBlsG2Subtract (_flags maxCost : Nat) (args : Tree) : Res := do
  let cost := Gen.Crypto.blsG2SubtractBaseCost
  checkCost cost maxCost
  let (cost, total) ← g2SubtractLoop maxCost args cost none true
  pure ⟨cost + 96 * Gen.Crypto.mallocCostPerByte, newG2 total, true⟩

/-- `op_bls_g2_multiply` -/
def opBlsG2Multiply (flags maxCost : Nat) (args : Tree) : Res := do
  let l ← getArgs 2 args "g2_multiply"
  match l with
  | [point, scalar] =>
    let cost := if newCostModel flags then Gen.Crypto.newBlsG2MultiplyBaseCost else Gen.Crypto.blsG2MultiplyBaseCost
    checkCost cost maxCost
    let total ← allocG2 point
    let (scalar, scalarLen) ← intAtom scalar "g2_multiply"
    if hasFlag flags Gen.Crypto.flagLimits && !newCostModel flags && scalarLen > Gen.Crypto.blsMultiplyScalarLimit then
      throw (.InvalidOpArg "g2_multiply")
    let costPerByte := if newCostModel flags then Gen.Crypto.newBlsG2MultiplyCostPerByte else Gen.Crypto.blsG2MultiplyCostPerByte
    let cost := cost + scalarLen * costPerByte
    checkCost cost maxCost
    let scalar := modGroupOrder scalar
    let total := Bls.g2Mul scalar.toNat total
    pure ⟨cost + 96 * Gen.Crypto.mallocCostPerByte, newG2 total, true⟩
  | _ => throw (.InternalError "get_args arity")

/-- `op_bls_g2_negate` -/
def opBlsG2Negate (flags _maxCost : Nat) (args : Tree) : Res := do
  let strict := !hasFlag flags Gen.Crypto.flagRelaxedBls
  let l ← getArgs 1 args "g2_negate"
  match l with
  | [point] =>
    let blob ← atomOf point "G2 atom"
    if blob.length ≠ 96 then throw (.InvalidOpArg "atom is not G2 size, 96 bytes")
    if strict then validateG2 blob
    if isCompressedInfinity blob then
      pure ⟨Gen.Crypto.blsG2NegateBaseCost + 96 * Gen.Crypto.mallocCostPerByte, point, false⟩
    else
      newAtomAndCost Gen.Crypto.blsG2NegateBaseCost (flipSignBit blob)
  | _ => throw (.InternalError "get_args arity")

/-! ### hash-to-curve operators (`hashToG1/2 msg dst` is a parameter) -/

/-- `op_bls_map_to_g1` -/
def opBlsMapToG1 (hashToG1 : Bytes → Bytes → Bls.G1) (flags maxCost : Nat) (args : Tree) : Res := do
  let l ← getVarargs 2 args "g1_map"
  let argc := l.length
  if !(1 ≤ argc && argc ≤ 2) then
    throw (.InvalidOpArg s!"g1_map takes exactly 1 or 2 arguments, got {argc}")
  let (cost, costPerByte, costPerDstByte) :=
    if newCostModel flags then (Gen.Crypto.newBlsMapToG1BaseCost, Gen.Crypto.newBlsMapToG1CostPerByte, Gen.Crypto.newBlsMapToG1CostPerDstByte)
    else (Gen.Crypto.blsMapToG1BaseCost, Gen.Crypto.blsMapToG1CostPerByte, Gen.Crypto.blsMapToG1CostPerDstByte)
  checkCost cost maxCost
  match l with
  | msg :: tl =>
    let msg ← atomOf msg "g1_map"
    let cost := cost + msg.length * costPerByte
    checkCost cost maxCost
    let dst ← match tl with
      | dst :: _ => atomOf dst "g1_map"
      | [] => pure Gen.Crypto.dstG1
    let cost := cost + dst.length * costPerDstByte
    checkCost cost maxCost
    let point := hashToG1 msg dst
    pure ⟨cost + 48 * Gen.Crypto.mallocCostPerByte, newG1 point, true⟩
  | [] => throw (.InternalError "argc")

/-- `op_bls_map_to_g2` (note: no `check_cost` between the message and the DST charge) -/
def opBlsMapToG2 (hashToG2 : Bytes → Bytes → Bls.G2) (flags maxCost : Nat) (args : Tree) : Res := do
  let l ← getVarargs 2 args "g2_map"
  let argc := l.length
  if !(1 ≤ argc && argc ≤ 2) then
    throw (.InvalidOpArg s!"g2_map takes exactly 1 or 2 arguments, got {argc}")
  let (cost, costPerByte, costPerDstByte) :=
    if newCostModel flags then (Gen.Crypto.newBlsMapToG2BaseCost, Gen.Crypto.newBlsMapToG2CostPerByte, Gen.Crypto.newBlsMapToG2CostPerDstByte)
    else (Gen.Crypto.blsMapToG2BaseCost, Gen.Crypto.blsMapToG2CostPerByte, Gen.Crypto.blsMapToG2CostPerDstByte)
  checkCost cost maxCost
  match l with
  | msg :: tl =>
    let msg ← atomOf msg "g2_map"
    let cost := cost + msg.length * costPerByte
    let dst ← match tl with
      | dst :: _ => atomOf dst "g2_map"
      | [] => pure Gen.Crypto.dstG2
    let cost := cost + dst.length * costPerDstByte
    checkCost cost maxCost
    let point := hashToG2 msg dst
    pure ⟨cost + 96 * Gen.Crypto.mallocCostPerByte, newG2 point, true⟩
  | [] => throw (.InternalError "argc")

/-! ### pairing operators (`aggregate_pairing` / `aggregate_verify` are parameters) -/

/-- the `while !nilp(args)` loop of `op_bls_pairing_identity`; `fuel` ≥ number of nodes -/
def pairingLoop (costPerArg maxCost : Nat) : Nat → Tree → Nat → List (Bls.G1 × Bls.G2) →
    Except Err (Nat × List (Bls.G1 × Bls.G2))
  | 0, _, _, _ => .error (.InternalError "fuel")
  | fuel + 1, args, cost, items =>
    if nilp args then .ok (cost, items.reverse)
    else do
      let cost := cost + costPerArg
      checkCost cost maxCost
      let g1 ← allocG1 (← first args)
      let args ← rest args
      let g2 ← allocG2 (← first args)
      let args ← rest args
      pairingLoop costPerArg maxCost fuel args cost ((g1, g2) :: items)

/-- `op_bls_pairing_identity` -/
def opBlsPairingIdentity (aggregatePairing : List (Bls.G1 × Bls.G2) → Bool)
    (flags maxCost : Nat) (args : Tree) : Res := do
  let (cost, costPerArg) :=
    if newCostModel flags then (Gen.Crypto.newBlsPairingBaseCost, Gen.Crypto.newBlsPairingCostPerArg)
    else (Gen.Crypto.blsPairingBaseCost, Gen.Crypto.blsPairingCostPerArg)
  checkCost cost maxCost
  let (cost, items) ← pairingLoop costPerArg maxCost (args.size + 1) args cost []
  if !aggregatePairing items then throw .BLSPairingIdentityFailed
  else pure ⟨cost, Tree.nil, false⟩

/-- the `while !nilp(args)` loop of `op_bls_verify` -/
def verifyLoop (costPerArg costPerByte costPerDstByte maxCost : Nat) : Nat → Tree → Nat →
    List (Bls.G1 × Bytes) → Except Err (Nat × List (Bls.G1 × Bytes))
  | 0, _, _, _ => .error (.InternalError "fuel")
  | fuel + 1, args, cost, items =>
    if nilp args then .ok (cost, items.reverse)
    else do
      let pk ← allocG1 (← first args)
      let args ← rest args
      let msg ← atomOf (← first args) "bls_verify message"
      let args ← rest args
      let cost := cost + costPerArg
      let cost := cost + msg.length * costPerByte
      let cost := cost + Gen.Crypto.dstG2.length * costPerDstByte
      checkCost cost maxCost
      verifyLoop costPerArg costPerByte costPerDstByte maxCost fuel args cost ((pk, msg) :: items)

/-- `op_bls_verify` -/
def opBlsVerify (aggregateVerify : Bls.G2 → List (Bls.G1 × Bytes) → Bool)
    (flags maxCost : Nat) (args : Tree) : Res := do
  let (cost, costPerArg, costPerByte, costPerDstByte) :=
    if newCostModel flags then
      (Gen.Crypto.newBlsPairingBaseCost, Gen.Crypto.newBlsPairingCostPerArg, Gen.Crypto.newBlsMapToG2CostPerByte, Gen.Crypto.newBlsMapToG2CostPerDstByte)
    else (Gen.Crypto.blsPairingBaseCost, Gen.Crypto.blsPairingCostPerArg, Gen.Crypto.blsMapToG2CostPerByte, Gen.Crypto.blsMapToG2CostPerDstByte)
  checkCost cost maxCost
  let signature ← allocG2 (← first args)
  let args ← rest args
  let (cost, items) ← verifyLoop costPerArg costPerByte costPerDstByte maxCost (args.size + 1) args cost []
  if !aggregateVerify signature items then throw .BLSVerifyFailed
  else pure ⟨cost, Tree.nil, false⟩

/-! ### secp -/

/-- `op_secp256r1_verify` -/
def opSecp256r1Verify (_flags maxCost : Nat) (args : Tree) : Res := do
  let cost := Gen.Crypto.secp256r1VerifyCost
  checkCost cost maxCost
  let l ← getArgs 3 args "secp256r1_verify"
  match l with
  | [pubkey, msg, sig] =>
    let pubkey ← atomOf pubkey "secp256r1_verify pubkey"
    let verifier ← match secp256r1.decodePublicKey pubkey with
      | some q => pure q
      | none => throw (.InvalidOpArg "secp256r1_verify: pubkey is not valid")
    let msg ← atomOf msg "secp256r1_verify msg"
    if msg.length ≠ 32 then throw (.InvalidOpArg "secp256r1_verify: message digest is not 32 bytes")
    let sig ← atomOf sig "secp256r1_verify sig"
    let sig ← match secp256r1.decodeSignature sig with
      | some s => pure s
      | none => throw (.InvalidOpArg "secp256r1_verify: signature is not valid")
    if !secp256r1.verifyPrehash verifier msg sig then throw .Secp256Failed
    else pure ⟨cost, Tree.nil, false⟩
  | _ => throw (.InternalError "get_args arity")

/-- `op_secp256k1_verify` -/
def opSecp256k1Verify (_flags maxCost : Nat) (args : Tree) : Res := do
  let cost := Gen.Crypto.secp256k1VerifyCost
  checkCost cost maxCost
  let l ← getArgs 3 args "secp256k1_verify"
  match l with
  | [pubkey, msg, sig] =>
    let pubkey ← atomOf pubkey "secp256k1_verify pubkey"
    let verifier ← match secp256k1.decodePublicKey pubkey with
      | some q => pure q
      | none => throw (.InvalidOpArg "secp256k1_verify: pubkey is not valid")
    let msg ← atomOf msg "secp256k1_verify msg"
    if msg.length ≠ 32 then throw (.InvalidOpArg "secp256k1_verify: message digest is not 32 bytes")
    let sig ← atomOf sig "secp256k1_verify sig"
    let sig ← match secp256k1.decodeSignature sig with
      | some s => pure s
      | none => throw (.InvalidOpArg "secp256k1_verify: signature is not valid")
    if !secp256k1.verifyPrehash verifier msg sig then throw .Secp256Failed
    else pure ⟨cost, Tree.nil, false⟩
  | _ => throw (.InternalError "get_args arity")

end Clvm.Crypto.Ops

namespace Clvm.Crypto

/-- the four primitives that are parameters of the operator level -/
structure Primitives where
  /-- `hash_to_g1_with_dst msg dst` -/
  hashToG1 : Bytes → Bytes → Bls.G1
  /-- `hash_to_g2_with_dst msg dst` -/
  hashToG2 : Bytes → Bytes → Bls.G2
  /-- `chia_bls::aggregate_pairing` -/
  aggregatePairing : List (Bls.G1 × Bls.G2) → Bool
  /-- `chia_bls::aggregate_verify sig [(pk, msg)]` -/
  aggregateVerify : Bls.G2 → List (Bls.G1 × Bytes) → Bool

abbrev OpFn := (flags : Nat) → (maxCost : Nat) → (args : Tree) → Except Err OpRes

/-- dispatch by the name of the Rust operator function -/
def opByNameWith (P : Primitives) : String → Option OpFn
  | "op_sha256" => some Ops.opSha256
  | "op_keccak256" => some Ops.opKeccak256
  | "op_coinid" => some Ops.opCoinid
  | "op_point_add" => some Ops.opPointAdd
  | "op_pubkey_for_exp" => some Ops.opPubkeyForExp
  | "op_bls_g1_subtract" => some Ops.opBlsG1Subtract
  | "op_bls_g1_multiply" => some Ops.opBlsG1Multiply
  | "op_bls_g1_negate" => some Ops.opBlsG1Negate
  | "op_bls_g2_add" => some Ops.opBlsG2Add
  | "op_bls_g2_subtract" => some Ops.opBlsG2Subtract
  | "op_bls_g2_multiply" => some Ops.opBlsG2Multiply
  | "op_bls_g2_negate" => some Ops.opBlsG2Negate
  | "op_bls_map_to_g1" => some (Ops.opBlsMapToG1 P.hashToG1)
  | "op_bls_map_to_g2" => some (Ops.opBlsMapToG2 P.hashToG2)
  | "op_bls_pairing_identity" => some (Ops.opBlsPairingIdentity P.aggregatePairing)
  | "op_bls_verify" => some (Ops.opBlsVerify P.aggregateVerify)
  | "op_secp256k1_verify" => some Ops.opSecp256k1Verify
  | "op_secp256r1_verify" => some Ops.opSecp256r1Verify
  | _ => none

end Clvm.Crypto
