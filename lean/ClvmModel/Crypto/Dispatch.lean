/-
The four primitives behind the pairing / hash-to-curve operators, as `chia_bls` + blst behave,
expressed with the independent Lean implementations, and the parameter-free operator dispatch.

`aggregatePairing` is *faithful to the implementation*, including finding J (C32): blst skips a
pair only when BOTH points are infinity, special-cases infinity only in a batch of one pair, and
lets a G2 infinity inside a batch of ≥ 2 pairs turn the accumulated value into 0; batches are
8 pairs (`N_MAX`); nothing aggregated ⇒ verdict `false`.  The mathematical statement is
`Bls.pairingProductIsOne` (Pairing.lean); `ClvmProofs/Props/C32.lean` relates the two.
-/
import ClvmModel.Crypto.Ops
import ClvmModel.Crypto.Pairing
import ClvmModel.Crypto.HashToCurve

namespace Clvm.Crypto
open Bls

/-- consecutive chunks of `n + 1` elements; `fuel` ≥ length -/
def chunksAux {α : Type} (n : Nat) : Nat → List α → List (List α)
  | 0, _ => []
  | _, [] => []
  | fuel + 1, l => l.take (n + 1) :: chunksAux n fuel (l.drop (n + 1))

/-- blst `N_MAX`: pairs are handed to the Miller loop in batches of 8 -/
def blstBatch : Nat := 8

/-- a batch whose Miller loop blst evaluates to 0: at least two pairs, one of them with the G2
point at infinity (coordinates (0,0) make every line vanish) -/
def batchIsZero (b : List (G1 × G2)) : Bool := decide (b.length ≥ 2) && b.any (fun it => it.2.isNone)

/-- `chia_bls::aggregate_pairing` on points that already passed `G1Element/G2Element::from_bytes` -/
def aggregatePairing (items : List (G1 × G2)) : Bool :=
  if items.isEmpty then true
  else
    -- blst_pairing_raw_aggregate ignores a pair iff both points are infinity
    let kept := items.filter (fun it => !(it.1.isNone && it.2.isNone))
    -- nothing aggregated: blst_pairing_finalverify answers false
    if kept.isEmpty then false
    else if (chunksAux (blstBatch - 1) kept.length kept).any batchIsZero then false
    else pairingProductIsOne kept

/-- `chia_bls::aggregate_verify` (augmented scheme: the message is prefixed with the public key):
∏ e(pkᵢ, H(pkᵢ ‖ msgᵢ)) = e(g1, sig), i.e. e(−g1, sig)·∏ … = 1; an infinite public key is refused
(`BLST_PK_IS_INFINITY`); no pairs ⇒ the signature must be the point at infinity. -/
def aggregateVerify (sig : G2) (items : List (G1 × Bytes)) : Bool :=
  if items.isEmpty then sig.isNone
  else if items.any (fun it => it.1.isNone) then false
  else
    let pairs := items.map (fun it => (it.1, hashToG2 (g1Encode it.1 ++ it.2) Gen.Crypto.dstG2))
    pairingProductIsOne ((g1Neg g1Gen, sig) :: pairs)

/-- the primitives as implemented in Lean -/
def leanPrimitives : Primitives where
  hashToG1 := hashToG1
  hashToG2 := hashToG2
  aggregatePairing := aggregatePairing
  aggregateVerify := aggregateVerify

/-- dispatch by the name of the Rust operator function ("op_sha256", …, "op_secp256r1_verify") -/
def opByName : String → Option OpFn := opByNameWith leanPrimitives

end Clvm.Crypto
