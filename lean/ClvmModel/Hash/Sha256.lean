/-
Layer 0: SHA-256 (FIPS 180-4) on `Bytes`, executable, total, kernel-evaluable.

Independent Lean implementation (trusted as a *specification*; validated against Python
`hashlib.sha256` and against `chia_sha2::Sha256` through the harness `HASH` stream).
All recursion is structural (on a fuel `Nat` or on a list), all arithmetic is `UInt32`,
so `decide +kernel` evaluates one compression in about a second with no extra axioms.
-/
import ClvmModel.Basic

namespace Clvm.Hash
namespace Sha256

/-- round constants (first 32 bits of the fractional parts of the cube roots of the first 64 primes) -/
def K : List UInt32 := [
  0x428a2f98, 0x71374491, 0xb5c0fbcf, 0xe9b5dba5, 0x3956c25b, 0x59f111f1, 0x923f82a4, 0xab1c5ed5,
  0xd807aa98, 0x12835b01, 0x243185be, 0x550c7dc3, 0x72be5d74, 0x80deb1fe, 0x9bdc06a7, 0xc19bf174,
  0xe49b69c1, 0xefbe4786, 0x0fc19dc6, 0x240ca1cc, 0x2de92c6f, 0x4a7484aa, 0x5cb0a9dc, 0x76f988da,
  0x983e5152, 0xa831c66d, 0xb00327c8, 0xbf597fc7, 0xc6e00bf3, 0xd5a79147, 0x06ca6351, 0x14292967,
  0x27b70a85, 0x2e1b2138, 0x4d2c6dfc, 0x53380d13, 0x650a7354, 0x766a0abb, 0x81c2c92e, 0x92722c85,
  0xa2bfe8a1, 0xa81a664b, 0xc24b8b70, 0xc76c51a3, 0xd192e819, 0xd6990624, 0xf40e3585, 0x106aa070,
  0x19a4c116, 0x1e376c08, 0x2748774c, 0x34b0bcb5, 0x391c0cb3, 0x4ed8aa4a, 0x5b9cca4f, 0x682e6ff3,
  0x748f82ee, 0x78a5636f, 0x84c87814, 0x8cc70208, 0x90befffa, 0xa4506ceb, 0xbef9a3f7, 0xc67178f2]

structure State where
  a : UInt32
  b : UInt32
  c : UInt32
  d : UInt32
  e : UInt32
  f : UInt32
  g : UInt32
  h : UInt32
  deriving DecidableEq, Repr

def init : State :=
  ⟨0x6a09e667, 0xbb67ae85, 0x3c6ef372, 0xa54ff53a, 0x510e527f, 0x9b05688c, 0x1f83d9ab, 0x5be0cd19⟩

@[inline] def rotr (x : UInt32) (n : UInt32) : UInt32 := (x >>> n) ||| (x <<< (32 - n))
@[inline] def bsig0 (x : UInt32) : UInt32 := rotr x 2 ^^^ rotr x 13 ^^^ rotr x 22
@[inline] def bsig1 (x : UInt32) : UInt32 := rotr x 6 ^^^ rotr x 11 ^^^ rotr x 25
@[inline] def ssig0 (x : UInt32) : UInt32 := rotr x 7 ^^^ rotr x 18 ^^^ (x >>> 3)
@[inline] def ssig1 (x : UInt32) : UInt32 := rotr x 17 ^^^ rotr x 19 ^^^ (x >>> 10)
@[inline] def ch (x y z : UInt32) : UInt32 := (x &&& y) ^^^ ((~~~ x) &&& z)
@[inline] def maj (x y z : UInt32) : UInt32 := (x &&& y) ^^^ (x &&& z) ^^^ (y &&& z)

/-- message schedule: `sched n w0 … w15` lists `n` words starting at `w0` of the sequence
`w(i) = ssig1 w(i-2) + w(i-7) + ssig0 w(i-15) + w(i-16)` (sliding window of 16). -/
def sched : Nat → UInt32 → UInt32 → UInt32 → UInt32 → UInt32 → UInt32 → UInt32 → UInt32 → UInt32 → UInt32 → UInt32 → UInt32 → UInt32 → UInt32 → UInt32 → UInt32 → List UInt32
  | 0, _, _, _, _, _, _, _, _, _, _, _, _, _, _, _, _ => []
  | n + 1, w0, w1, w2, w3, w4, w5, w6, w7, w8, w9, w10, w11, w12, w13, w14, w15 =>
    w0 :: sched n w1 w2 w3 w4 w5 w6 w7 w8 w9 w10 w11 w12 w13 w14 w15 (ssig1 w14 + w9 + ssig0 w1 + w0)

/-- the 64 rounds, structurally over the constants zipped with the schedule -/
def rounds : List UInt32 → List UInt32 → State → State
  | k :: ks, w :: ws, ⟨a, b, c, d, e, f, g, h⟩ =>
    let t1 := h + bsig1 e + ch e f g + k + w
    let t2 := bsig0 a + maj a b c
    rounds ks ws ⟨t1 + t2, a, b, c, d + t1, e, f, g⟩
  | _, _, s => s

/-- read `n` big-endian 32-bit words; `none` if the input is too short -/
def wordsBE : Nat → Bytes → Option (List UInt32 × Bytes)
  | 0, bs => some ([], bs)
  | n + 1, a :: b :: c :: d :: bs =>
    match wordsBE n bs with
    | some (ws, rest) =>
      some (((a.toUInt32 <<< 24) ||| (b.toUInt32 <<< 16) ||| (c.toUInt32 <<< 8) ||| d.toUInt32) :: ws, rest)
    | none => none
  | _ + 1, _ => none

/-- one compression on 16 message words -/
def compressWords (s : State) : List UInt32 → State
  | [w0, w1, w2, w3, w4, w5, w6, w7, w8, w9, w10, w11, w12, w13, w14, w15] =>
    let r := rounds K (sched 64 w0 w1 w2 w3 w4 w5 w6 w7 w8 w9 w10 w11 w12 w13 w14 w15) s
    ⟨s.a + r.a, s.b + r.b, s.c + r.c, s.d + r.d, s.e + r.e, s.f + r.f, s.g + r.g, s.h + r.h⟩
  | _ => s

/-- absorb whole 64-byte blocks (fuel ≥ number of blocks); a trailing partial block is ignored
(the padded message never has one). -/
def blocks : Nat → State → Bytes → State
  | 0, s, _ => s
  | n + 1, s, bs =>
    match wordsBE 16 bs with
    | some (ws, rest) => blocks n (compressWords s ws) rest
    | none => s

def be32 (x : UInt32) : Bytes :=
  [(x >>> 24).toUInt8, (x >>> 16).toUInt8, (x >>> 8).toUInt8, x.toUInt8]

def be64 (n : Nat) : Bytes :=
  [UInt8.ofNat (n >>> 56), UInt8.ofNat (n >>> 48), UInt8.ofNat (n >>> 40), UInt8.ofNat (n >>> 32),
   UInt8.ofNat (n >>> 24), UInt8.ofNat (n >>> 16), UInt8.ofNat (n >>> 8), UInt8.ofNat n]

/-- FIPS 180-4 §5.1.1: `0x80`, zeros up to 56 mod 64, the bit length as 64-bit big-endian -/
def pad (len : Nat) : Bytes :=
  0x80 :: (List.replicate ((119 - len % 64) % 64) 0 ++ be64 (8 * len))

def digest (s : State) : Bytes :=
  be32 s.a ++ be32 s.b ++ be32 s.c ++ be32 s.d ++ be32 s.e ++ be32 s.f ++ be32 s.g ++ be32 s.h

end Sha256

/-- SHA-256 of a byte string (32 bytes). -/
def sha256 (msg : Bytes) : Bytes :=
  let len := msg.length
  Sha256.digest (Sha256.blocks (len / 64 + 2) Sha256.init (msg ++ Sha256.pad len))

end Clvm.Hash
