/-
Layer 0: Keccak-256 (the original Keccak submission padding `0x01 … 0x80`, rate 136 bytes,
output 32 bytes) — what the `keccak256` operator computes through `sha3::Keccak256`.
NOT NIST SHA3-256 (whose domain byte is `0x06`).

Independent Lean implementation, executable, total, structural recursion only; validated against
the vectors of `/repo/op-tests/test-keccak256*.txt` and against `sha3::Keccak256` through the
harness `HASH` stream.  The round body was generated from the specification (θ ρ π χ ι with the
rotation offsets and round constants computed from their defining recurrences).
-/
import ClvmModel.Basic

namespace Clvm.Hash
namespace Keccak

/-- round constants ι (from the degree-8 LFSR of the specification) -/
def RC : List UInt64 := [
  0x0000000000000001, 0x0000000000008082, 0x800000000000808a, 0x8000000080008000,
  0x000000000000808b, 0x0000000080000001, 0x8000000080008081, 0x8000000000008009,
  0x000000000000008a, 0x0000000000000088, 0x0000000080008009, 0x000000008000000a,
  0x000000008000808b, 0x800000000000008b, 0x8000000000008089, 0x8000000000008003,
  0x8000000000008002, 0x8000000000000080, 0x000000000000800a, 0x800000008000000a,
  0x8000000080008081, 0x8000000000008080, 0x0000000080000001, 0x8000000080008008]

@[inline] def rotl (x : UInt64) (n : UInt64) : UInt64 := (x <<< n) ||| (x >>> (64 - n))

/-- one round of Keccak-f[1600] on the 25 lanes `a[x + 5 y]` -/
def round (rc : UInt64) : List UInt64 → List UInt64
  | [a0, a1, a2, a3, a4, a5, a6, a7, a8, a9, a10, a11, a12, a13, a14, a15, a16, a17, a18, a19, a20, a21, a22, a23, a24] =>
    let c0 := a0 ^^^ a5 ^^^ a10 ^^^ a15 ^^^ a20
    let c1 := a1 ^^^ a6 ^^^ a11 ^^^ a16 ^^^ a21
    let c2 := a2 ^^^ a7 ^^^ a12 ^^^ a17 ^^^ a22
    let c3 := a3 ^^^ a8 ^^^ a13 ^^^ a18 ^^^ a23
    let c4 := a4 ^^^ a9 ^^^ a14 ^^^ a19 ^^^ a24
    let d0 := c4 ^^^ rotl c1 1
    let d1 := c0 ^^^ rotl c2 1
    let d2 := c1 ^^^ rotl c3 1
    let d3 := c2 ^^^ rotl c4 1
    let d4 := c3 ^^^ rotl c0 1
    let b0 := (a0 ^^^ d0)
    let b1 := rotl (a6 ^^^ d1) 44
    let b2 := rotl (a12 ^^^ d2) 43
    let b3 := rotl (a18 ^^^ d3) 21
    let b4 := rotl (a24 ^^^ d4) 14
    let b5 := rotl (a3 ^^^ d3) 28
    let b6 := rotl (a9 ^^^ d4) 20
    let b7 := rotl (a10 ^^^ d0) 3
    let b8 := rotl (a16 ^^^ d1) 45
    let b9 := rotl (a22 ^^^ d2) 61
    let b10 := rotl (a1 ^^^ d1) 1
    let b11 := rotl (a7 ^^^ d2) 6
    let b12 := rotl (a13 ^^^ d3) 25
    let b13 := rotl (a19 ^^^ d4) 8
    let b14 := rotl (a20 ^^^ d0) 18
    let b15 := rotl (a4 ^^^ d4) 27
    let b16 := rotl (a5 ^^^ d0) 36
    let b17 := rotl (a11 ^^^ d1) 10
    let b18 := rotl (a17 ^^^ d2) 15
    let b19 := rotl (a23 ^^^ d3) 56
    let b20 := rotl (a2 ^^^ d2) 62
    let b21 := rotl (a8 ^^^ d3) 55
    let b22 := rotl (a14 ^^^ d4) 39
    let b23 := rotl (a15 ^^^ d0) 41
    let b24 := rotl (a21 ^^^ d1) 2
    [(b0 ^^^ ((~~~ b1) &&& b2)) ^^^ rc,
     b1 ^^^ ((~~~ b2) &&& b3),
     b2 ^^^ ((~~~ b3) &&& b4),
     b3 ^^^ ((~~~ b4) &&& b0),
     b4 ^^^ ((~~~ b0) &&& b1),
     b5 ^^^ ((~~~ b6) &&& b7),
     b6 ^^^ ((~~~ b7) &&& b8),
     b7 ^^^ ((~~~ b8) &&& b9),
     b8 ^^^ ((~~~ b9) &&& b5),
     b9 ^^^ ((~~~ b5) &&& b6),
     b10 ^^^ ((~~~ b11) &&& b12),
     b11 ^^^ ((~~~ b12) &&& b13),
     b12 ^^^ ((~~~ b13) &&& b14),
     b13 ^^^ ((~~~ b14) &&& b10),
     b14 ^^^ ((~~~ b10) &&& b11),
     b15 ^^^ ((~~~ b16) &&& b17),
     b16 ^^^ ((~~~ b17) &&& b18),
     b17 ^^^ ((~~~ b18) &&& b19),
     b18 ^^^ ((~~~ b19) &&& b15),
     b19 ^^^ ((~~~ b15) &&& b16),
     b20 ^^^ ((~~~ b21) &&& b22),
     b21 ^^^ ((~~~ b22) &&& b23),
     b22 ^^^ ((~~~ b23) &&& b24),
     b23 ^^^ ((~~~ b24) &&& b20),
     b24 ^^^ ((~~~ b20) &&& b21)]
  | s => s

def keccakF (s : List UInt64) : List UInt64 := RC.foldl (fun s rc => round rc s) s

/-- read `n` little-endian 64-bit lanes; `none` if the input is too short -/
def lanesLE : Nat → Bytes → Option (List UInt64 × Bytes)
  | 0, bs => some ([], bs)
  | n + 1, b0 :: b1 :: b2 :: b3 :: b4 :: b5 :: b6 :: b7 :: bs =>
    match lanesLE n bs with
    | some (ws, rest) =>
      some ((b0.toUInt64 ||| (b1.toUInt64 <<< 8) ||| (b2.toUInt64 <<< 16) ||| (b3.toUInt64 <<< 24) |||
             (b4.toUInt64 <<< 32) ||| (b5.toUInt64 <<< 40) ||| (b6.toUInt64 <<< 48) ||| (b7.toUInt64 <<< 56)) :: ws, rest)
    | none => none
  | _ + 1, _ => none

/-- xor the block lanes into the first lanes of the state -/
def xorInto : List UInt64 → List UInt64 → List UInt64
  | s :: ss, b :: bs => (s ^^^ b) :: xorInto ss bs
  | ss, [] => ss
  | [], _ => []

/-- absorb whole 136-byte blocks (fuel ≥ number of blocks) -/
def absorb : Nat → List UInt64 → Bytes → List UInt64
  | 0, s, _ => s
  | n + 1, s, bs =>
    match lanesLE 17 bs with
    | some (ws, rest) => absorb n (keccakF (xorInto s ws)) rest
    | none => s

def le64 (x : UInt64) : Bytes :=
  [x.toUInt8, (x >>> 8).toUInt8, (x >>> 16).toUInt8, (x >>> 24).toUInt8,
   (x >>> 32).toUInt8, (x >>> 40).toUInt8, (x >>> 48).toUInt8, (x >>> 56).toUInt8]

/-- multi-rate padding `pad10*1` with the Keccak domain bits: `0x01 0x00… 0x80` (`0x81` when one byte) -/
def pad (len : Nat) : Bytes :=
  let q := 136 - len % 136
  if q = 1 then [0x81] else 0x01 :: (List.replicate (q - 2) 0 ++ [0x80])

def squeeze256 : List UInt64 → Bytes
  | l0 :: l1 :: l2 :: l3 :: _ => le64 l0 ++ le64 l1 ++ le64 l2 ++ le64 l3
  | _ => []

end Keccak

/-- Keccak-256 of a byte string (32 bytes). -/
def keccak256 (msg : Bytes) : Bytes :=
  let len := msg.length
  Keccak.squeeze256 (Keccak.absorb (len / 136 + 2) (List.replicate 25 0) (msg ++ Keccak.pad len))

end Clvm.Hash
