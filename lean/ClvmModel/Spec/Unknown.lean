/-
`Spec.unknownRule`: the published cost rule for operator atoms with no assigned meaning, over ℕ,
as documented by property C09 and by the comment block of `op_unknown` (src/more_ops.rs) /
`unknown_operator` (src/chia_dialect.rs):

```
byte index (reverse):  | 4 | 3 | 2 | 1 | 0          |
                       | multiplier    |XX | XXXXXX |      XX = cost_function, XXXXXX ignored
cost = (multiplier + 1) * base,   base by cost_function:
  0: 1     1: like operator add     2: like operator mul     3: like operator concat
over the argument *sizes* (no arithmetic on values); with NEW_COST_MODEL 1 and 2 use the new
constants, add uses max(acc_len, arg_len), mul grows the running size as l0 += l1.
```

It fails when the opcode is empty or starts with `0xffff` (`Reserved`), is longer than 5 bytes
(multiplier part > 4 bytes: `Invalid`), a required atom argument is a pair (`InvalidOpArg`), the base
exceeds the budget (`CostExceeded`), or the full product `(multiplier+1)·base` exceeds `2^32−1`
(`Invalid`) — the product is taken over ℕ, so products that would overflow 64 bits fail too.
In strict mode (`NO_UNKNOWN_OPS`) every such operator fails (`Unimplemented`).  Otherwise the result
is nil and the cost is the product.

All constants are pinned literals (no `Gen.*`).  Arguments are described by their sizes only:
`some n` = an atom of `n` bytes, `none` = a pair.
-/
import ClvmModel.Alloc.IntEnc

namespace Clvm.Spec
open Clvm Clvm.Alloc

namespace Unknown

def sum (l : List Nat) : Nat := l.foldr (· + ·) 0

/-- Σᵢ max(s₀ … sᵢ) with `m` the maximum so far -/
def runMaxSum : (m : Nat) → List Nat → Nat
  | _, [] => 0
  | m, s :: r => max m s + runMaxSum (max m s) r

/-- add-like: `99 + 320·n + 3·Σ sᵢ`; new model `99 + 500·n + 4·Σᵢ max(s₀ … sᵢ)` -/
def addBase (nm : Bool) (sizes : List Nat) : Nat :=
  if nm then 99 + 500 * sizes.length + 4 * runMaxSum 0 sizes
  else 99 + 320 * sizes.length + 3 * sum sizes

/-- Σ over the arguments after the first of `885 + 6·(L + s) + L·s/divider`, `L` the sum of the sizes before -/
def mulSteps (divider : Nat) : (L : Nat) → List Nat → Nat
  | _, [] => 0
  | L, s :: r => 885 + 6 * (L + s) + (L * s) / divider + mulSteps divider (L + s) r

/-- multiply-like: `92 + Σ_{i≥1} (885 + 6·(Lᵢ + sᵢ) + Lᵢ·sᵢ/128)`, `Lᵢ = s₀ + … + sᵢ₋₁`;
new model `2000 + 6·s₀ + Σ_{i≥1} (885 + 6·(Lᵢ + sᵢ) + Lᵢ·sᵢ/16)` -/
def mulBase (nm : Bool) : List Nat → Nat
  | [] => if nm then 2000 else 92
  | s0 :: r => if nm then 2000 + 6 * s0 + mulSteps 16 s0 r else 92 + mulSteps 128 s0 r

/-- concat-like: `142 + 135·n + 3·Σ sᵢ` (both models) -/
def concatBase (sizes : List Nat) : Nat := 142 + 135 * sizes.length + 3 * sum sizes

/-- base cost by cost function over the argument sizes -/
def base (cf : Nat) (nm : Bool) (sizes : List Nat) : Nat :=
  match cf with
  | 1 => addBase nm sizes
  | 2 => mulBase nm sizes
  | 3 => concatBase sizes
  | _ => 1

/-- the opcode is reserved: empty, or starts with `0xffff` -/
def reserved : Bytes → Bool
  | [] => true
  | b0 :: b1 :: _ => b0.toNat == 0xff && b1.toNat == 0xff
  | _ => false

/-- multiplier: big-endian value of all opcode bytes but the last -/
def multiplier (op : Bytes) : Nat := beNat op.dropLast

/-- cost function: the top two bits of the last opcode byte -/
def costFunction (op : Bytes) : Nat := ((op.getLast?.map UInt8.toNat).getD 0) / 64

/-- is the running base compared with the budget right after the argument that completes `seen`?
(every argument, except that the pre-hard-fork multiply-like rule does not look at the budget after
the first argument: it charges nothing for it) -/
def checkedAfter (cf : Nat) (nm : Bool) (seen : List Nat) : Bool :=
  !(cf == 2 && !nm && seen.length == 1)

/-- walking the arguments left to right: a pair is `InvalidOpArg`, a running base above the budget is
`CostExceeded`; the result is the list of all sizes -/
def walk (cf : Nat) (nm : Bool) (budget : Nat) : (seen : List Nat) → List (Option Nat) → Except Err (List Nat)
  | seen, [] => .ok seen
  | _, none :: _ => .error (.InvalidOpArg "unknown op requires an atom")
  | seen, some s :: rest =>
    let seen' := seen ++ [s]
    if checkedAfter cf nm seen' && base cf nm seen' > budget then .error .CostExceeded
    else walk cf nm budget seen' rest

end Unknown

open Unknown in
/-- the documented rule; `.ok cost` means: result nil, that cost, allocator untouched -/
def unknownRule (op : Bytes) (newModel strict : Bool) (budget : Nat) (argSizes : List (Option Nat)) :
    Except Err Nat :=
  if strict then .error .Unimplemented
  else if reserved op then .error .Reserved
  else if op.length > 5 then .error .Invalid
  else
    let cf := costFunction op
    let sizes : Except Err (List Nat) := if cf == 0 then .ok [] else walk cf newModel budget [] argSizes
    match sizes with
    | .error e => .error e
    | .ok sizes =>
      let b := base cf newModel sizes
      if b > budget then .error .CostExceeded
      else if (multiplier op + 1) * b > 2 ^ 32 - 1 then .error .Invalid
      else .ok ((multiplier op + 1) * b)

end Clvm.Spec
