/-
The standard recursive ChiaLisp `sha256tree` program (C23), as an explicit tree.

The bytes are extracted from `/repo/tools/src/bin/sha256tree-benching.rs` by the translator
(`tools/extract.d/80_sha256tree_prog.py` → `Clvm.Gen.sha256treeProgHex`); `Clvm.Interp.ShaTree.prog_parses`
(`ClvmProofs/Lemmas/Interp/ShaTreeProg.lean`) ties the explicit term below to those bytes:
`node_from_bytes` of the extracted bytes is `prog`.

    (a (q . MAIN) (c (q . BODY) 1))
    MAIN = (a 2 (c 2 (c 3 ())))                       ; call BODY with environment (BODY T)
    BODY = (a (i (l 5) (q . PAIRCASE) (q . ATOMCASE)) 1)
    PAIRCASE = (sha256 (q . 2) (a 2 (c 2 (c 9 ()))) (a 2 (c 2 (c 13 ()))))
    ATOMCASE = (sha256 (q . 1) 5)
-/
import ClvmModel.Tree
import ClvmModel.Gen.Sha256treeProg

namespace Clvm.Spec.ShaTree
open Clvm

/-- a one-byte atom -/
def n (k : UInt8) : Tree := .atom [k]
def nilT : Tree := .atom []
/-- a proper list -/
def lst : List Tree → Tree
  | [] => nilT
  | x :: xs => .pair x (lst xs)
/-- `(q . x)` -/
def q (x : Tree) : Tree := .pair (n 1) x

/-- `(a 2 (c 2 (c PATH ())))`: call BODY (path 2) with environment `(BODY <PATH>)` -/
def recCall (path : UInt8) : Tree := lst [n 2, n 2, lst [n 4, n 2, lst [n 4, n path, nilT]]]

/-- `(sha256 (q . 1) 5)` -/
def atomCase : Tree := lst [n 11, q (n 1), n 5]
/-- `(sha256 (q . 2) (a 2 (c 2 (c 9 ()))) (a 2 (c 2 (c 13 ()))))` -/
def pairCase : Tree := lst [n 11, q (n 2), recCall 9, recCall 13]
/-- `(a (i (l 5) (q . PAIRCASE) (q . ATOMCASE)) 1)` -/
def body : Tree := lst [n 2, lst [n 3, lst [n 7, n 5], q pairCase, q atomCase], n 1]
/-- `(a 2 (c 2 (c 3 ())))` -/
def main : Tree := recCall 3
/-- the whole program -/
def prog : Tree := lst [n 2, q main, lst [n 4, q body, n 1]]

end Clvm.Spec.ShaTree
