/-
`Spec.CostDoc`: the NEW_COST_MODEL formulas **exactly as `/repo/docs/cost-model.md` states them**, for
the operators where the markdown and the code differ (finding G: add / subtract, multiply,
div / divmod / mod, modpow, logand / logior / logxor).  `Spec.Cost` (what the code, its comments and the
pinned v2 vectors do) is the specification the C10 theorems are proved against; this file exists
so that the deviation is *shown*: `Props/C10.lean` proves concrete witnesses `Spec.CostDoc ≠ charged
cost` and the region in which both readings agree.

Remark (not counted as a deviation): the markdown never mentions the allocation charge
`10·len(result)` (`MALLOC_COST_PER_BYTE`) that every operator creating an atom adds, in either cost
model; it is added here (`Cost.malloc res`) so that the comparison is about the formulas themselves.
The markdown's "magnitude" / `limbs` of an argument is `limbs (int a)`: "leading zero bytes in the
atom representation don't inflate the cost".
-/
import ClvmModel.Spec.Cost

namespace Clvm.Spec.CostDoc
open Clvm Clvm.Alloc Clvm.Interp Clvm.Spec.Cost

/-- magnitude of an argument: `arg.limbs` -/
def mag (a : Val) : Nat := limbs (int a)

/-- Σᵢ max(accumulatorᵢ.limbs, argᵢ.limbs) -/
def sumMaxMag (args : List Val) (accs : List Int) : Nat :=
  sum ((args.zip accs).map (fun p => max (limbs p.2) (mag p.1)))

/-- `cost = BASE_COST + sum over each argument: COST_PER_ARG + max(accumulator.limbs, arg.limbs) * COST_PER_BYTE` -/
def opAdd (args : List Val) (res : Val) : Nat :=
  ARITH_BASE + NEW_ARITH_PER_ARG * args.length + NEW_ARITH_PER_BYTE * sumMaxMag args (addAccs args) + malloc res

def opSubtract (args : List Val) (res : Val) : Nat :=
  ARITH_BASE + NEW_ARITH_PER_ARG * args.length + NEW_ARITH_PER_BYTE * sumMaxMag args (subAccs args) + malloc res

/-- the multiply steps with `l0` the accumulator magnitude and `l1` "the next argument's magnitude" -/
def mulSteps : (total : Int) → List Val → Nat
  | _, [] => 0
  | total, a :: rest => mulStep NEW_MUL_SQUARE_DIVIDER (limbs total) (mag a) + mulSteps (total * int a) rest

/-- `MUL_BASE_COST + first_arg.limbs * MUL_LINEAR_COST_PER_BYTE + Σ (MUL_COST_PER_OP + (l0 + l1) * LINEAR + l0*l1 / DIVIDER)` -/
def opMultiply (args : List Val) (res : Val) : Nat :=
  (match args with
   | [] => NEW_MUL_BASE
   | a0 :: rest => NEW_MUL_BASE + MUL_LINEAR_PER_BYTE * mag a0 + mulSteps (int a0) rest) + malloc res

/-- `DIV_BASE_COST + (a0 + a1) * DIV_LINEAR_COST + (a0 * a1) / DIV_SQUARE_DIVIDER`, `a0 a1` magnitudes -/
def divBase (args : List Val) : Nat :=
  newDiv (mag (args.getD 0 Val.nil)) (mag (args.getD 1 Val.nil))

def opDiv (args : List Val) (res : Val) : Nat := divBase args + malloc res
def opMod (args : List Val) (res : Val) : Nat := divBase args + malloc res
def opDivmod (args : List Val) (res : Val) : Nat :=
  divBase args + (match res with | .pair q r => malloc q + malloc r | .atom _ _ => 0)

/-- `MODPOW_BASE_COST + e * EXPONENT_MULTIPLIER * (m^2 + PER_ITERATION_COST) + b * m`, magnitudes -/
def opModpow (args : List Val) (res : Val) : Nat :=
  let b := mag (args.getD 0 Val.nil)
  let e := mag (args.getD 1 Val.nil)
  let m := mag (args.getD 2 Val.nil)
  MODPOW_BASE + NEW_MODPOW_EXPONENT_MULTIPLIER * e * (m * m + NEW_MODPOW_PER_ITERATION) + b * m + malloc res

/-- effective bytes of logand / logior / logxor: the first argument is charged its own `atom_len`;
a later one `max(atom_len, accumulator.limbs)` when accumulator and argument have different signs,
`atom_len` when the signs are the same -/
def logEffective : (isFirst : Bool) → List (Val × Int) → Nat
  | _, [] => 0
  | isFirst, (a, acc) :: rest =>
    (if !isFirst && decide ((acc < 0) ≠ (int a < 0)) then max (len a) (limbs acc) else len a)
      + logEffective false rest

/-- `BASE + n_args * PER_ARG + effective_bytes * PER_BYTE` -/
def opLog (f : Int → Int → Int) (init : Int) (args : List Val) (res : Val) : Nat :=
  LOG_BASE + LOG_PER_ARG * args.length + LOG_PER_BYTE * logEffective true (args.zip (logAccs f init args))
    + malloc res

end Clvm.Spec.CostDoc
