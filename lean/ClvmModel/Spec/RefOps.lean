/-
`Spec.Ref`, part 1: the operators of the historical reference implementation of CLVM — the Python
package `clvm` (0.9.x: `clvm/SExp.py`, `clvm/casts.py`, `clvm/costs.py`, `clvm/core_ops.py`,
`clvm/more_ops.py`, `clvm/operators.py`) — written in the reference's own style:

* values are plain trees (`SExp` = atom | pair); there are no representation tags, no allocator
  and no allocator limits;
* an operator is a function `args ↦ (cost, result)` of the *whole* argument list
  (`args_as_ints`, `args_as_int32`, `args_as_int_list`, `args_as_bools`, `list_len`, `as_iter`);
* costs are computed the way `more_ops.py` does it: per-argument terms are accumulated, the
  per-byte term is added once at the end, `malloc_cost` is applied to the finished result;
* an operator never looks at the budget: the reference checks `cost > max_cost` only in the main
  loop of `run_program`, after the operator has returned;
* there are no fast paths;
* the constants are the reference's own (`costs.py`), pinned here; they are compared with the
  constants extracted from the Rust sources by theorems (`ClvmProofs/Props/C01.lean`).

The `clvm` package cannot be installed in this sandbox; this file is a transcription from the
documented semantics and is cross-validated against `/repo/op-tests/*.txt` (vectors generated with
the Python implementation) by the `ref` stream of property C01.

Errors: the Python raises one exception type (`EvalError(message, sexp)`); `RefErr` is the family
of the message.  Generators (`as_iter`, `args_as_ints`, …) are modelled eagerly: every operator of
the reference consumes its argument iterator completely, and every error raised while iterating is
of class `arg`, so laziness is not observable at the level of classes.
-/
import ClvmModel.Tree
import ClvmModel.Hash.Sha256
import ClvmModel.Py.Casts

namespace Clvm.Ref
open Clvm

/-- message families of `EvalError` -/
inductive RefErr where
  /-- "cost exceeded" (raised by the main loop only) -/
  | cost
  /-- "path into atom" -/
  | path
  /-- "clvm raise" -/
  | raise
  /-- wrong number of arguments, a list where an atom is required, "first of non-cons",
  "rest of non-cons", "requires int32 args", "invalid indices for substr", "cost must be > 0",
  "in ((X)...) syntax X must be lone atom", a non-nil list terminator met by `as_iter` -/
  | arg
  /-- "div with 0", "divmod with 0" -/
  | div0
  /-- "shift too large" -/
  | shift
  /-- "reserved operator" -/
  | reserved
  /-- "invalid operator" -/
  | invalid
  /-- only raised by `Adapter.softforkGuard`: the guarded program did not cost what was declared -/
  | softfork
  /-- only raised by `Adapter.stackLimit` -/
  | stack
  /-- the run left the domain of property C01 (an operator that is not in the classic set) -/
  | outOfDomain
  /-- a Python `IndexError`/`AttributeError` that the reference cannot actually reach -/
  | internal
  deriving Repr, DecidableEq, Inhabited

def RefErr.name : RefErr → String
  | .cost => "cost" | .path => "path" | .raise => "raise" | .arg => "arg" | .div0 => "div0"
  | .shift => "shift" | .reserved => "reserved" | .invalid => "invalid" | .softfork => "softfork"
  | .stack => "stack" | .outOfDomain => "outOfDomain" | .internal => "internal"

abbrev Res := Except RefErr (Nat × Tree)

/-! ### costs.py (pinned) -/

def IF_COST : Nat := 33
def CONS_COST : Nat := 50
def FIRST_COST : Nat := 30
def REST_COST : Nat := 30
def LISTP_COST : Nat := 19
def MALLOC_COST_PER_BYTE : Nat := 10
def ARITH_BASE_COST : Nat := 99
def ARITH_COST_PER_BYTE : Nat := 3
def ARITH_COST_PER_ARG : Nat := 320
def LOG_BASE_COST : Nat := 100
def LOG_COST_PER_BYTE : Nat := 3
def LOG_COST_PER_ARG : Nat := 264
def GRS_BASE_COST : Nat := 117
def GRS_COST_PER_BYTE : Nat := 1
def EQ_BASE_COST : Nat := 117
def EQ_COST_PER_BYTE : Nat := 1
def GR_BASE_COST : Nat := 498
def GR_COST_PER_BYTE : Nat := 2
def DIVMOD_BASE_COST : Nat := 1116
def DIVMOD_COST_PER_BYTE : Nat := 6
def DIV_BASE_COST : Nat := 988
def DIV_COST_PER_BYTE : Nat := 4
def SHA256_BASE_COST : Nat := 87
def SHA256_COST_PER_ARG : Nat := 134
def SHA256_COST_PER_BYTE : Nat := 2
def MUL_BASE_COST : Nat := 92
def MUL_COST_PER_OP : Nat := 885
def MUL_LINEAR_COST_PER_BYTE : Nat := 6
def MUL_SQUARE_COST_PER_BYTE_DIVIDER : Nat := 128
def STRLEN_BASE_COST : Nat := 173
def STRLEN_COST_PER_BYTE : Nat := 1
def PATH_LOOKUP_BASE_COST : Nat := 40
def PATH_LOOKUP_COST_PER_LEG : Nat := 4
def PATH_LOOKUP_COST_PER_ZERO_BYTE : Nat := 4
def CONCAT_BASE_COST : Nat := 142
def CONCAT_COST_PER_ARG : Nat := 135
def CONCAT_COST_PER_BYTE : Nat := 3
def BOOL_BASE_COST : Nat := 200
def BOOL_COST_PER_ARG : Nat := 300
def ASHIFT_BASE_COST : Nat := 596
def ASHIFT_COST_PER_BYTE : Nat := 3
def LSHIFT_BASE_COST : Nat := 277
def LSHIFT_COST_PER_BYTE : Nat := 3
def LOGNOT_BASE_COST : Nat := 331
def LOGNOT_COST_PER_BYTE : Nat := 3
def APPLY_COST : Nat := 90
def QUOTE_COST : Nat := 20
/-- `op_substr`: `cost = 1` (a literal in `more_ops.py`) -/
def SUBSTR_COST : Nat := 1
/-- `eval_op`: `return 1` after pushing the operands (a literal in `run_program.py`) -/
def EVAL_OPERANDS_COST : Nat := 1

/-! ### casts.py

`clvm/casts.py` is the file the wheel ships as `clvm_rs/casts.py`; its Lean transcription (one
definition per Python function: `int.bit_length`, `int.from_bytes`, `int.to_bytes`, the stripping
loop, `int_from_bytes`, `int_to_bytes`) is `ClvmModel/Py/Casts.lean` and is used here as it is. -/

/-- `int.from_bytes(blob, "big", signed=False)` -/
abbrev unsignedFromBytes (blob : Bytes) : Nat := Py.Casts.fromBytesUnsigned blob
/-- `int_from_bytes` -/
abbrev intFromBytes (blob : Bytes) : Int := Py.Casts.intFromBytes blob
/-- `int_to_bytes` -/
abbrev intToBytes (v : Int) : Bytes := Py.Casts.intToBytes v
/-- `int.bit_length()` -/
abbrev bitLength (v : Int) : Nat := Py.Casts.bitLength v

/-- `limbs_for_int`: `(v.bit_length() + 7) >> 3` -/
def limbsForInt (v : Int) : Nat := (bitLength v + 7) >>> 3

/-! ### SExp.py -/

/-- `SExp.to(int)` -/
def ofInt (v : Int) : Tree := .atom (intToBytes v)
/-- `SExp.true` -/
def true_ : Tree := .atom [1]
/-- `SExp.false` / `SExp.null()` -/
def false_ : Tree := .atom []

/-- `nullp` -/
def nullp : Tree → Bool
  | .atom b => b.isEmpty
  | .pair _ _ => false

/-- `listp` -/
def listp : Tree → Bool
  | .pair _ _ => true
  | .atom _ => false

/-- `first` (raises "first of non-cons") -/
def first : Tree → Except RefErr Tree
  | .pair f _ => .ok f
  | .atom _ => .error .arg

/-- `rest` (raises "rest of non-cons") -/
def rest : Tree → Except RefErr Tree
  | .pair _ r => .ok r
  | .atom _ => .error .arg

/-- `list_len`: counts pairs along the spine; the terminator is not looked at -/
def listLen : Tree → Nat
  | .pair _ r => listLen r + 1
  | .atom _ => 0

/-- `list(v.as_iter())`: `while not v.nullp(): yield v.first(); v = v.rest()` — a non-nil atom
terminator makes `first` raise -/
def asIter : Tree → Except RefErr (List Tree)
  | .pair f r =>
    match asIter r with
    | .ok l => .ok (f :: l)
    | .error e => .error e
  | .atom b => if b.isEmpty then .ok [] else .error .arg

/-- `as_int` (only called on atoms) -/
def asInt (b : Bytes) : Int := intFromBytes b

/-! ### core_ops.py -/

def opIf (args : Tree) : Res :=
  if listLen args != 3 then .error .arg
  else
    match args with
    | .pair a0 (.pair a1 (.pair a2 _)) => if nullp a0 then .ok (IF_COST, a2) else .ok (IF_COST, a1)
    | _ => .error .internal

def opCons (args : Tree) : Res :=
  if listLen args != 2 then .error .arg
  else
    match args with
    | .pair a0 (.pair a1 _) => .ok (CONS_COST, .pair a0 a1)
    | _ => .error .internal

def opFirst (args : Tree) : Res :=
  if listLen args != 1 then .error .arg
  else
    match args with
    | .pair a0 _ =>
      match first a0 with
      | .ok r => .ok (FIRST_COST, r)
      | .error e => .error e
    | _ => .error .internal

def opRest (args : Tree) : Res :=
  if listLen args != 1 then .error .arg
  else
    match args with
    | .pair a0 _ =>
      match rest a0 with
      | .ok r => .ok (REST_COST, r)
      | .error e => .error e
    | _ => .error .internal

def opListp (args : Tree) : Res :=
  if listLen args != 1 then .error .arg
  else
    match args with
    | .pair a0 _ => .ok (LISTP_COST, if listp a0 then true_ else false_)
    | _ => .error .internal

/-- `op_raise`: always raises "clvm raise" -/
def opRaise (_ : Tree) : Res := .error .raise

def opEq (args : Tree) : Res :=
  if listLen args != 2 then .error .arg
  else
    match args with
    | .pair a0 (.pair a1 _) =>
      match a0, a1 with
      | .atom b0, .atom b1 =>
        let cost := EQ_BASE_COST
        let cost := cost + (b0.length + b1.length) * EQ_COST_PER_BYTE
        .ok (cost, if b0 == b1 then true_ else false_)
      | _, _ => .error .arg
    | _ => .error .internal

/-! ### more_ops.py: argument helpers -/

/-- `malloc_cost(cost, atom)` -/
def mallocCost (cost : Nat) (atom : Tree) : Res :=
  match atom with
  | .atom b => .ok (cost + b.length * MALLOC_COST_PER_BYTE, atom)
  | .pair _ _ => .error .internal

/-- every element must be an atom, else `e` (the shape of all `args_as_*` helpers) -/
def atomsOf : List Tree → Except RefErr (List Bytes)
  | [] => .ok []
  | .atom b :: l =>
    match atomsOf l with
    | .ok r => .ok (b :: r)
    | .error e => .error e
  | .pair _ _ :: _ => .error .arg

/-- `list(args_as_ints(op_name, args))`: `(arg.as_int(), len(arg.as_atom()))` for every argument -/
def argsAsInts (args : Tree) : Except RefErr (List (Int × Nat)) :=
  match asIter args with
  | .error e => .error e
  | .ok l =>
    match atomsOf l with
    | .error e => .error e
    | .ok bs => .ok (bs.map (fun b => (asInt b, b.length)))

/-- `args_as_int_list(op_name, args, count)` -/
def argsAsIntList (args : Tree) (count : Nat) : Except RefErr (List (Int × Nat)) :=
  match argsAsInts args with
  | .error e => .error e
  | .ok l => if l.length != count then .error .arg else .ok l

/-- `list(args_as_int32(op_name, args))` -/
def argsAsInt32 (args : Tree) : Except RefErr (List Int) :=
  match asIter args with
  | .error e => .error e
  | .ok l =>
    match atomsOf l with
    | .error e => .error e
    | .ok bs => if bs.any (fun b => b.length > 4) then .error .arg else .ok (bs.map asInt)

/-- `list(args_as_bools(op_name, args))`: an argument is false iff it is the empty atom
(`arg.as_atom()` of a pair is `None`, which is not `b""`) -/
def argsAsBools (args : Tree) : Except RefErr (List Bool) :=
  match asIter args with
  | .error e => .error e
  | .ok l => .ok (l.map (fun a => !nullp a))

/-! ### more_ops.py: operators -/

def opSha256 (args : Tree) : Res :=
  match asIter args with
  | .error e => .error e
  | .ok l =>
    match atomsOf l with
    | .error e => .error e
    | .ok bs =>
      let cost := SHA256_BASE_COST
      let argLen := bs.foldl (fun n b => n + b.length) 0
      let cost := bs.foldl (fun c _ => c + SHA256_COST_PER_ARG) cost
      let cost := cost + argLen * SHA256_COST_PER_BYTE
      mallocCost cost (.atom (Hash.sha256 (bs.foldl (fun acc b => acc ++ b) [])))

def opAdd (args : Tree) : Res :=
  match argsAsInts args with
  | .error e => .error e
  | .ok l =>
    let total := l.foldl (fun t (r, _) => t + r) (0 : Int)
    let argSize := l.foldl (fun s (_, n) => s + n) 0
    let cost := l.foldl (fun c _ => c + ARITH_COST_PER_ARG) ARITH_BASE_COST
    let cost := cost + argSize * ARITH_COST_PER_BYTE
    mallocCost cost (ofInt total)

def opSubtract (args : Tree) : Res :=
  let cost := ARITH_BASE_COST
  if nullp args then mallocCost cost (ofInt 0)
  else
    match argsAsInts args with
    | .error e => .error e
    | .ok l =>
      -- `sign = 1; for r, l in …: total += sign * r; sign = -1`
      let (total, _) := l.foldl (fun (t, sign) (r, _) => (t + sign * r, (-1 : Int))) ((0 : Int), (1 : Int))
      let argSize := l.foldl (fun s (_, n) => s + n) 0
      let cost := l.foldl (fun c _ => c + ARITH_COST_PER_ARG) cost
      let cost := cost + argSize * ARITH_COST_PER_BYTE
      mallocCost cost (ofInt total)

/-- the loop of `op_multiply` over the operands after the first -/
def mulLoop : List (Int × Nat) → (cost : Nat) → (v : Int) → (vs : Nat) → Nat × Int
  | [], cost, v, _ => (cost, v)
  | (o, rs) :: rest, cost, v, vs =>
    let cost := cost + MUL_COST_PER_OP
    let cost := cost + (rs + vs) * MUL_LINEAR_COST_PER_BYTE
    let cost := cost + (rs * vs) / MUL_SQUARE_COST_PER_BYTE_DIVIDER
    let v := v * o
    mulLoop rest cost v (limbsForInt v)

def opMultiply (args : Tree) : Res :=
  let cost := MUL_BASE_COST
  match argsAsInts args with
  | .error e => .error e
  | .ok [] => mallocCost cost (ofInt 1)
  | .ok ((v, vs) :: operands) =>
    let (cost, v) := mulLoop operands cost v vs
    mallocCost cost (ofInt v)

/-- Python `divmod(a, b)` for `b ≠ 0`: quotient rounded towards negative infinity, remainder with
the sign of the divisor — Lean core's `Int.fdiv` / `Int.fmod` ("F-rounding") -/
def pyDivmod (a b : Int) : Int × Int := (Int.fdiv a b, Int.fmod a b)

def opDivmod (args : Tree) : Res :=
  let cost := DIVMOD_BASE_COST
  match argsAsIntList args 2 with
  | .error e => .error e
  | .ok [(i0, l0), (i1, l1)] =>
    if i1 = 0 then .error .div0
    else
      let cost := cost + (l0 + l1) * DIVMOD_COST_PER_BYTE
      let (q, r) := pyDivmod i0 i1
      let q1 := intToBytes q
      let r1 := intToBytes r
      let cost := cost + (q1.length + r1.length) * MALLOC_COST_PER_BYTE
      .ok (cost, .pair (.atom q1) (.atom r1))
  | .ok _ => .error .internal

/-- `op_div` **as released in clvm 0.9.x** (the behaviour that was consensus until the 2.0 hard
fork): floor division, except that a quotient of `-1` with a non-zero remainder is reported as `0`
("this is to preserve a buggy behavior from the initial implementation of this operator").
`Adapter.floorDiv` replaces it. -/
def opDiv (args : Tree) : Res :=
  let cost := DIV_BASE_COST
  match argsAsIntList args 2 with
  | .error e => .error e
  | .ok [(i0, l0), (i1, l1)] =>
    if i1 = 0 then .error .div0
    else
      let cost := cost + (l0 + l1) * DIV_COST_PER_BYTE
      let (q, r) := pyDivmod i0 i1
      let q := if q = -1 ∧ r ≠ 0 then q + 1 else q
      mallocCost cost (ofInt q)
  | .ok _ => .error .internal

def opGr (args : Tree) : Res :=
  match argsAsIntList args 2 with
  | .error e => .error e
  | .ok [(i0, l0), (i1, l1)] =>
    let cost := GR_BASE_COST
    let cost := cost + (l0 + l1) * GR_COST_PER_BYTE
    .ok (cost, if i0 > i1 then true_ else false_)
  | .ok _ => .error .internal

/-- Python `b0 > b1` on `bytes`: lexicographic, a proper prefix is smaller -/
def bytesGt : Bytes → Bytes → Bool
  | [], _ => false
  | _ :: _, [] => true
  | x :: xs, y :: ys => if x.toNat == y.toNat then bytesGt xs ys else x.toNat > y.toNat

def opGrBytes (args : Tree) : Res :=
  match asIter args with
  | .error e => .error e
  | .ok [a0, a1] =>
    match a0, a1 with
    | .atom b0, .atom b1 =>
      let cost := GRS_BASE_COST
      let cost := cost + (b0.length + b1.length) * GRS_COST_PER_BYTE
      .ok (cost, if bytesGt b0 b1 then true_ else false_)
    | _, _ => .error .arg
  | .ok _ => .error .arg

def opStrlen (args : Tree) : Res :=
  if listLen args != 1 then .error .arg
  else
    match args with
    | .pair (.atom b) _ =>
      let size := b.length
      let cost := STRLEN_BASE_COST + size * STRLEN_COST_PER_BYTE
      mallocCost cost (ofInt size)
    | .pair (.pair _ _) _ => .error .arg
    | _ => .error .internal

def opSubstr (args : Tree) : Res :=
  let argCount := listLen args
  if argCount != 2 ∧ argCount != 3 then .error .arg
  else
    match args with
    | .pair (.pair _ _) _ => .error .arg
    | .pair (.atom s0) restArgs =>
      match argsAsInt32 restArgs with
      | .error e => .error e
      | .ok ints =>
        -- `i1, = …` / `i1, i2 = …` (a `ValueError` on a wrong count cannot happen: `restArgs` has
        -- `argCount - 1` elements when `as_iter` succeeds)
        let idx : Except RefErr (Int × Int) :=
          if argCount == 2 then
            match ints with
            | [i1] => .ok (i1, (s0.length : Int))
            | _ => .error .internal
          else
            match ints with
            | [i1, i2] => .ok (i1, i2)
            | _ => .error .internal
        match idx with
        | .error e => .error e
        | .ok (i1, i2) =>
          if i2 > (s0.length : Int) ∨ i2 < i1 ∨ i2 < 0 ∨ i1 < 0 then .error .arg
          else
            let s := (s0.drop i1.toNat).take (i2.toNat - i1.toNat)   -- `s0[i1:i2]`
            .ok (SUBSTR_COST, .atom s)
    | _ => .error .internal

def opConcat (args : Tree) : Res :=
  match asIter args with
  | .error e => .error e
  | .ok l =>
    match atomsOf l with
    | .error e => .error e
    | .ok bs =>
      let cost := bs.foldl (fun c _ => c + CONCAT_COST_PER_ARG) CONCAT_BASE_COST
      let r := bs.foldl (fun acc b => acc ++ b) []
      let cost := cost + r.length * CONCAT_COST_PER_BYTE
      mallocCost cost (.atom r)

/-- Python `i0 << i1` / `i0 >> -i1` on unbounded integers (`>>` rounds towards −∞) -/
def pyShift (i0 i1 : Int) : Int :=
  if i1 ≥ 0 then i0 * (2 : Int) ^ i1.toNat else i0 >>> (-i1).toNat

def opAsh (args : Tree) : Res :=
  match argsAsIntList args 2 with
  | .error e => .error e
  | .ok [(i0, l0), (i1, l1)] =>
    if l1 > 4 then .error .arg
    else if i1.natAbs > 65535 then .error .shift
    else
      let r := pyShift i0 i1
      let cost := ASHIFT_BASE_COST
      let cost := cost + (l0 + limbsForInt r) * ASHIFT_COST_PER_BYTE
      mallocCost cost (ofInt r)
  | .ok _ => .error .internal

def opLsh (args : Tree) : Res :=
  match argsAsIntList args 2 with
  | .error e => .error e
  | .ok [(_, l0), (i1, l1)] =>
    if l1 > 4 then .error .arg
    else if i1.natAbs > 65535 then .error .shift
    else
      -- "we actually want i0 to be an *unsigned* int"
      match args with
      | .pair (.atom a0) _ =>
        let i0 : Int := (unsignedFromBytes a0 : Int)
        let r := pyShift i0 i1
        let cost := LSHIFT_BASE_COST
        let cost := cost + (l0 + limbsForInt r) * LSHIFT_COST_PER_BYTE
        mallocCost cost (ofInt r)
      | _ => .error .internal
  | .ok _ => .error .internal

/-- Python `&`, `|`, `^` on unbounded two's-complement integers, defined bit by bit:
the operands are halved (floor) until both are `0` or `-1` (all-zeros / all-ones). -/
def pyBitop (f : Bool → Bool → Bool) (a b : Int) : Int :=
  if (a = 0 ∨ a = -1) ∧ (b = 0 ∨ b = -1) then
    (if f (decide (a < 0)) (decide (b < 0)) then -1 else 0)
  else
    2 * pyBitop f (a / 2) (b / 2) + (if f (decide (a % 2 = 1)) (decide (b % 2 = 1)) then 1 else 0)
termination_by a.natAbs + b.natAbs
decreasing_by omega

def pyAnd : Int → Int → Int := pyBitop (fun x y => x && y)
def pyOr : Int → Int → Int := pyBitop (fun x y => x || y)
def pyXor : Int → Int → Int := pyBitop (fun x y => x != y)

/-- `binop_reduction(op_name, initial_value, args, op_f)` -/
def binopReduction (initialValue : Int) (args : Tree) (opF : Int → Int → Int) : Res :=
  match argsAsInts args with
  | .error e => .error e
  | .ok l =>
    let total := l.foldl (fun t (r, _) => opF t r) initialValue
    let argSize := l.foldl (fun s (_, n) => s + n) 0
    let cost := l.foldl (fun c _ => c + LOG_COST_PER_ARG) LOG_BASE_COST
    let cost := cost + argSize * LOG_COST_PER_BYTE
    mallocCost cost (ofInt total)

def opLogand (args : Tree) : Res := binopReduction (-1) args pyAnd
def opLogior (args : Tree) : Res := binopReduction 0 args pyOr
def opLogxor (args : Tree) : Res := binopReduction 0 args pyXor

def opLognot (args : Tree) : Res :=
  match argsAsIntList args 1 with
  | .error e => .error e
  | .ok [(i0, l0)] =>
    let cost := LOGNOT_BASE_COST + l0 * LOGNOT_COST_PER_BYTE
    mallocCost cost (ofInt (-i0 - 1))     -- `~i0`
  | .ok _ => .error .internal

/-- `args_as_bool_list(op_name, args, count)` -/
def argsAsBoolList (args : Tree) (count : Nat) : Except RefErr (List Bool) :=
  match argsAsBools args with
  | .error e => .error e
  | .ok l => if l.length != count then .error .arg else .ok l

def opNot (args : Tree) : Res :=
  match argsAsBoolList args 1 with
  | .error e => .error e
  | .ok [i0] => .ok (BOOL_BASE_COST, if i0 then false_ else true_)
  | .ok _ => .error .internal

def opAny (args : Tree) : Res :=
  match argsAsBools args with
  | .error e => .error e
  | .ok items =>
    let cost := BOOL_BASE_COST + items.length * BOOL_COST_PER_ARG
    .ok (cost, if items.any id then true_ else false_)

def opAll (args : Tree) : Res :=
  match argsAsBools args with
  | .error e => .error e
  | .ok items =>
    let cost := BOOL_BASE_COST + items.length * BOOL_COST_PER_ARG
    .ok (cost, if items.all id then true_ else false_)

/-- `op_softfork` of the reference: checks the cost argument only and returns nil.
`Adapter.softforkGuard` replaces it. -/
def opSoftfork (args : Tree) : Res :=
  if listLen args < 1 then .error .arg
  else
    match args with
    | .pair (.pair _ _) _ => .error .arg
    | .pair (.atom a) _ =>
      let cost := asInt a
      if cost < 1 then .error .arg else .ok (cost.toNat, false_)
    | _ => .error .internal

/-! ### operators.py: `default_unknown_op` -/

/-- `list(args_len(op_name, args))` -/
def argsLen (args : Tree) : Except RefErr (List Nat) :=
  match asIter args with
  | .error e => .error e
  | .ok l =>
    match atomsOf l with
    | .error e => .error e
    | .ok bs => .ok (bs.map List.length)

/-- the `cost_function == 2` branch: "like op_multiply", with `vs += rs` as the size estimate -/
def unknownMulLoop : List Nat → (cost vs : Nat) → Nat
  | [], cost, _ => cost
  | rs :: rest, cost, vs =>
    let cost := cost + MUL_COST_PER_OP
    let cost := cost + (rs + vs) * MUL_LINEAR_COST_PER_BYTE
    let cost := cost + (rs * vs) / MUL_SQUARE_COST_PER_BYTE_DIVIDER
    unknownMulLoop rest cost (vs + rs)

/-- the `cost_function` branches of `default_unknown_op`: the cost before the multiplier is applied
(`0` = constant, `1` = like `op_add`, `2` = like `op_multiply`, `3` = like `op_concat`) -/
def unknownBaseCost (costFunction : Nat) (args : Tree) : Except RefErr Nat :=
  if costFunction == 0 then .ok 1
  else if costFunction == 1 then
    match argsLen args with
    | .error e => .error e
    | .ok lens =>
      let argSize := lens.foldl (· + ·) 0
      let cost := lens.foldl (fun c _ => c + ARITH_COST_PER_ARG) ARITH_BASE_COST
      .ok (cost + argSize * ARITH_COST_PER_BYTE)
  else if costFunction == 2 then
    match argsLen args with
    | .error e => .error e
    | .ok [] => .ok MUL_BASE_COST
    | .ok (vs :: operands) => .ok (unknownMulLoop operands MUL_BASE_COST vs)
  else
    match argsLen args with
    | .error e => .error e
    | .ok lens =>
      let cost := lens.foldl (fun c _ => c + CONCAT_COST_PER_ARG) CONCAT_BASE_COST
      let length := lens.foldl (· + ·) 0
      .ok (cost + length * CONCAT_COST_PER_BYTE)

/-- `cost_function = (op[-1] & 0b11000000) >> 6` -/
def unknownCostFunction (op : Bytes) : Nat :=
  let lastByte := (op.getLast?.map UInt8.toNat).getD 0    -- `op[-1]`, `op` is not empty here
  (lastByte &&& 0b11000000) >>> 6

/-- `cost_multiplier = int.from_bytes(op[:-1], "big", signed=False) + 1` -/
def unknownCostMultiplier (op : Bytes) : Nat := unsignedFromBytes (op.take (op.length - 1)) + 1

def defaultUnknownOp (op : Bytes) (args : Tree) : Res :=
  -- "any opcode starting with ffff is reserved (i.e. fatal error); opcodes are not allowed to be empty"
  if op.length == 0 || (op.take 2).map UInt8.toNat == [0xff, 0xff] then .error .reserved
  else
    let costFunction := unknownCostFunction op
    if op.length > 5 then .error .invalid
    else
      let costMultiplier := unknownCostMultiplier op
      match unknownBaseCost costFunction args with
      | .error e => .error e
      | .ok cost =>
        let cost := cost * costMultiplier
        if cost ≥ 2 ^ 32 then .error .invalid else .ok (cost, false_)

/-! ### operators.py: `KEYWORD_TO_ATOM`, `OPERATOR_LOOKUP` -/

/-- `OperatorDict.__call__(op, arguments)` for the classic keyword table
(`q a i c f r l x = >s sha256 substr strlen concat . + - * / divmod > ash lsh logand logior logxor
lognot . point_add pubkey_for_exp . not any all . softfork`; `q` and `a` have no `op_` function and
are handled by `run_program`).  The BLS operators 29/30 are outside property C01. -/
def operatorLookup (op : Bytes) (args : Tree) : Res :=
  match op.map UInt8.toNat with
  | [0x03] => opIf args
  | [0x04] => opCons args
  | [0x05] => opFirst args
  | [0x06] => opRest args
  | [0x07] => opListp args
  | [0x08] => opRaise args
  | [0x09] => opEq args
  | [0x0a] => opGrBytes args
  | [0x0b] => opSha256 args
  | [0x0c] => opSubstr args
  | [0x0d] => opStrlen args
  | [0x0e] => opConcat args
  | [0x10] => opAdd args
  | [0x11] => opSubtract args
  | [0x12] => opMultiply args
  | [0x13] => opDiv args
  | [0x14] => opDivmod args
  | [0x15] => opGr args
  | [0x16] => opAsh args
  | [0x17] => opLsh args
  | [0x18] => opLogand args
  | [0x19] => opLogior args
  | [0x1a] => opLogxor args
  | [0x1b] => opLognot args
  | [0x1d] => .error .outOfDomain      -- point_add
  | [0x1e] => .error .outOfDomain      -- pubkey_for_exp
  | [0x20] => opNot args
  | [0x21] => opAny args
  | [0x22] => opAll args
  | [0x24] => opSoftfork args
  | _ => defaultUnknownOp op args

end Clvm.Ref
