/-
`Spec.Cost`: the *documented* cost of every non-cryptographic operator as a formula over the
argument list — sums over argument sizes, accumulator magnitudes (`limbs`) and the result size —
for both cost models (`nm = false`: pre-hard-fork, `nm = true`: `NEW_COST_MODEL`).

Every constant in this file is a **pinned literal**, typed in from the documentation
(`/repo/docs/cost-model.md`) and the constant declarations / cost comments of
`src/core_ops.rs`, `src/more_ops.rs`, `src/op_utils.rs`, `src/traverse_path.rs`,
`src/run_program.rs`.  Nothing here refers to `Gen.*` (the constants regenerated from the sources on
every run): `ClvmProofs/Props/C10.lean` proves `Gen.X = Spec.Cost.X` for every constant used and
`cost charged by the model = formula below` for every operator, so a retuned constant or a changed
formula breaks a theorem.

Where `docs/cost-model.md` and the code (+ its own comments, + the pinned `*-v2.txt` vectors)
disagree, the formula follows code comment + vectors; each such place is marked `DOC≠CODE` with
both readings (DESIGN §6-G; they are documentation findings, listed in the C10 report).

Conventions: `len a` is the atom's length in bytes as stored (leading zero / sign-extension bytes
count), `int a` its two's-complement value, `limbs v` the number of bytes of `|v|`
(`Number::bits().div_ceil(8)`), `res` the value returned; `10 * len res` is the allocation charge
(`MALLOC_COST_PER_BYTE`) every operator that creates an atom adds for it.
-/
import ClvmModel.Interp.Val

namespace Clvm.Spec.Cost
open Clvm Clvm.Alloc Clvm.Interp

/-! ### sizes and values -/

/-- atom length in bytes (0 for a pair: no formula below is used with a pair where an atom is required) -/
def len : Val → Nat
  | .atom b _ => b.length
  | .pair _ _ => 0

/-- two's complement big-endian value of an atom -/
def int : Val → Int
  | .atom b _ => decodeInt b
  | .pair _ _ => 0

/-- unsigned big-endian value of an atom (`lsh`) -/
def uint : Val → Int
  | .atom b _ => (beNat b : Int)
  | .pair _ _ => 0

/-- number of base-256 digits of a natural number -/
def byteLen (n : Nat) : Nat := if n = 0 then 0 else byteLen (n / 256) + 1
termination_by n
decreasing_by omega

/-- `limbs`: magnitude bytes of an integer (`bits().div_ceil(8)`; 0 for 0) -/
def limbs (v : Int) : Nat := byteLen v.natAbs

def sum (l : List Nat) : Nat := l.foldr (· + ·) 0

/-- Σ len(argᵢ) -/
def sumLen (args : List Val) : Nat := sum (args.map len)

/-- the accumulator *before* each element is folded in: `[a, f a x₀, f (f a x₀) x₁, …]`
(one entry per element) -/
def partials (f : Int → Int → Int) (a : Int) : List Int → List Int
  | [] => []
  | x :: xs => a :: partials f (f a x) xs

/-- Σᵢ max(len(argᵢ), limbs(accᵢ)) for a given list of accumulator values -/
def sumMax (args : List Val) (accs : List Int) : Nat :=
  sum ((args.zip accs).map (fun p => max (len p.1) (limbs p.2)))

/-- the allocation charge for a result atom -/
def MALLOC_PER_BYTE : Nat := 10
def malloc (res : Val) : Nat := MALLOC_PER_BYTE * len res

/-! ### pinned constants (src/core_ops.rs, src/more_ops.rs) -/

def IF_COST : Nat := 33
def NEW_IF_COST : Nat := 330
def CONS_COST : Nat := 50
def FIRST_COST : Nat := 30
def REST_COST : Nat := 30
def LISTP_COST : Nat := 19
def NEW_LISTP_COST : Nat := 200
def EQ_BASE : Nat := 117
def EQ_PER_BYTE : Nat := 1

def ARITH_BASE : Nat := 99
def ARITH_PER_ARG : Nat := 320
def ARITH_PER_BYTE : Nat := 3
def NEW_ARITH_PER_ARG : Nat := 500
def NEW_ARITH_PER_BYTE : Nat := 4

def LOG_BASE : Nat := 100
def LOG_PER_ARG : Nat := 264
def LOG_PER_BYTE : Nat := 3
def LOGNOT_BASE : Nat := 331
def LOGNOT_PER_BYTE : Nat := 3

def MUL_BASE : Nat := 92
def MUL_PER_OP : Nat := 885
def MUL_LINEAR_PER_BYTE : Nat := 6
def MUL_SQUARE_DIVIDER : Nat := 128
def NEW_MUL_BASE : Nat := 2000
def NEW_MUL_SQUARE_DIVIDER : Nat := 16

def GR_BASE : Nat := 498
def GR_PER_BYTE : Nat := 2
def NEW_GR_BASE : Nat := 1000
def NEW_GR_PER_BYTE : Nat := 4
def GRS_BASE : Nat := 117
def GRS_PER_BYTE : Nat := 1

def STRLEN_BASE : Nat := 173
def STRLEN_PER_BYTE : Nat := 1
def CONCAT_BASE : Nat := 142
def CONCAT_PER_ARG : Nat := 135
def CONCAT_PER_BYTE : Nat := 3
def SUBSTR_COST : Nat := 1
def NEW_SUBSTR_COST : Nat := 2000

def DIVMOD_BASE : Nat := 1116
def DIVMOD_PER_BYTE : Nat := 6
def DIV_BASE : Nat := 988
def DIV_PER_BYTE : Nat := 4
def NEW_DIV_BASE : Nat := 1000
def NEW_DIV_LINEAR_PER_BYTE : Nat := 50
def NEW_DIV_SQUARE_DIVIDER : Nat := 10

def SHA256_BASE : Nat := 87
def SHA256_PER_ARG : Nat := 134
def SHA256_PER_BYTE : Nat := 2
def NEW_SHA256_BASE : Nat := 1000
def NEW_SHA256_PER_ARG : Nat := 160
def NEW_SHA256_PER_BYTE : Nat := 6

def ASHIFT_BASE : Nat := 596
def ASHIFT_PER_BYTE : Nat := 3
def LSHIFT_BASE : Nat := 277
def LSHIFT_PER_BYTE : Nat := 3

def BOOL_BASE : Nat := 200
def BOOL_PER_ARG : Nat := 300

def MODPOW_BASE : Nat := 17000
def MODPOW_PER_BYTE_BASE_VALUE : Nat := 38
def MODPOW_PER_BYTE_EXPONENT : Nat := 3
def MODPOW_PER_BYTE_MOD : Nat := 21
def NEW_MODPOW_PER_ITERATION : Nat := 4000
def NEW_MODPOW_EXPONENT_MULTIPLIER : Nat := 8

/-! ### pinned constants of the interpreter (src/run_program.rs, src/traverse_path.rs) -/

def QUOTE_COST : Nat := 20
def APPLY_COST : Nat := 90
def OP_COST : Nat := 1
def GUARD_COST : Nat := 140
def NEW_GUARD_COST : Nat := 500
def TRAVERSE_BASE : Nat := 40
def TRAVERSE_PER_ZERO_BYTE : Nat := 4
def TRAVERSE_PER_BIT : Nat := 4

/-- environment lookup: `40 + 4·(leading zero bytes of the path atom) + 4·(bits walked + 1)` -/
def path (leadingZeroBytes bitsWalked : Nat) : Nat :=
  TRAVERSE_BASE + TRAVERSE_PER_ZERO_BYTE * leadingZeroBytes + TRAVERSE_PER_BIT * (bitsWalked + 1)

/-! ### core operators: flat costs -/

def opIf (nm : Bool) (_args : List Val) (_res : Val) : Nat := if nm then NEW_IF_COST else IF_COST
def opCons (_nm : Bool) (_args : List Val) (_res : Val) : Nat := CONS_COST
def opFirst (_nm : Bool) (_args : List Val) (_res : Val) : Nat := FIRST_COST
def opRest (_nm : Bool) (_args : List Val) (_res : Val) : Nat := REST_COST
def opListp (nm : Bool) (_args : List Val) (_res : Val) : Nat := if nm then NEW_LISTP_COST else LISTP_COST
def opNot (_nm : Bool) (_args : List Val) (_res : Val) : Nat := BOOL_BASE
def opSubstr (nm : Bool) (_args : List Val) (_res : Val) : Nat := if nm then NEW_SUBSTR_COST else SUBSTR_COST

/-! ### linear in the argument sizes -/

/-- `=`: `117 + (len a + len b)` -/
def opEq (_nm : Bool) (args : List Val) (_res : Val) : Nat := EQ_BASE + EQ_PER_BYTE * sumLen args
/-- `>s`: `117 + (len a + len b)` -/
def opGrBytes (_nm : Bool) (args : List Val) (_res : Val) : Nat := GRS_BASE + GRS_PER_BYTE * sumLen args
/-- `>`: `498 + 2·(len a + len b)`; new model `1000 + 4·(len a + len b)` -/
def opGr (nm : Bool) (args : List Val) (_res : Val) : Nat :=
  if nm then NEW_GR_BASE + NEW_GR_PER_BYTE * sumLen args else GR_BASE + GR_PER_BYTE * sumLen args
/-- `strlen`: `173 + len a + 10·len(result)` -/
def opStrlen (_nm : Bool) (args : List Val) (res : Val) : Nat :=
  STRLEN_BASE + STRLEN_PER_BYTE * sumLen args + malloc res
/-- `lognot`: `331 + 3·len a + 10·len(result)` -/
def opLognot (_nm : Bool) (args : List Val) (res : Val) : Nat :=
  LOGNOT_BASE + LOGNOT_PER_BYTE * sumLen args + malloc res
/-- `any` / `all`: `200 + 300·n` -/
def opAny (_nm : Bool) (args : List Val) (_res : Val) : Nat := BOOL_BASE + BOOL_PER_ARG * args.length
def opAll (_nm : Bool) (args : List Val) (_res : Val) : Nat := BOOL_BASE + BOOL_PER_ARG * args.length
/-- `concat`: `142 + 135·n + 3·Σ len(argᵢ) + 10·len(result)` -/
def opConcat (_nm : Bool) (args : List Val) (res : Val) : Nat :=
  CONCAT_BASE + CONCAT_PER_ARG * args.length + CONCAT_PER_BYTE * sumLen args + malloc res
/-- `sha256`: `87 + 134·n + 2·Σ len(argᵢ) + 10·len(result)`; new model `1000 + 160·n + 6·Σ len + 10·len(result)`
(the result is 32 bytes) -/
def opSha256 (nm : Bool) (args : List Val) (res : Val) : Nat :=
  (if nm then NEW_SHA256_BASE + NEW_SHA256_PER_ARG * args.length + NEW_SHA256_PER_BYTE * sumLen args
   else SHA256_BASE + SHA256_PER_ARG * args.length + SHA256_PER_BYTE * sumLen args) + malloc res

/-! ### add, subtract -/

/-- the accumulator before each argument of `+`: `0, a₀, a₀+a₁, …` -/
def addAccs (args : List Val) : List Int := partials (· + ·) 0 (args.map int)

/-- the accumulator before each argument of `-`: `0, a₀, a₀−a₁, a₀−a₁−a₂, …` -/
def subAccs (args : List Val) : List Int :=
  match args.map int with
  | [] => []
  | x :: xs => 0 :: partials (· - ·) x xs

/-- `+`: `99 + 320·n + 3·Σ len(argᵢ) + 10·len(result)`;
new model: `99 + 500·n + 4·Σ max(len(argᵢ), limbs(partial sumᵢ₋₁)) + 10·len(result)`.
`DOC≠CODE`: docs/cost-model.md writes `max(accumulator.limbs, arg.limbs)` (magnitude of the
*argument*); the code, the comment above `op_add` and the v2 vectors use the raw atom length
`len(argᵢ)` (so leading zero bytes of an argument are charged). -/
def opAdd (nm : Bool) (args : List Val) (res : Val) : Nat :=
  (if nm then ARITH_BASE + NEW_ARITH_PER_ARG * args.length + NEW_ARITH_PER_BYTE * sumMax args (addAccs args)
   else ARITH_BASE + ARITH_PER_ARG * args.length + ARITH_PER_BYTE * sumLen args) + malloc res

/-- `-`: as `+`, the accumulator being `a₀ − a₁ − …` (same `DOC≠CODE` note) -/
def opSubtract (nm : Bool) (args : List Val) (res : Val) : Nat :=
  (if nm then ARITH_BASE + NEW_ARITH_PER_ARG * args.length + NEW_ARITH_PER_BYTE * sumMax args (subAccs args)
   else ARITH_BASE + ARITH_PER_ARG * args.length + ARITH_PER_BYTE * sumLen args) + malloc res

/-! ### multiply -/

/-- one multiplication step with accumulator size `l0` and argument size `l1` -/
def mulStep (divider l0 l1 : Nat) : Nat :=
  MUL_PER_OP + MUL_LINEAR_PER_BYTE * (l0 + l1) + (l0 * l1) / divider

/-- the steps after the first argument: the accumulator size is `l0` for the next argument and
`limbs` of the running product afterwards -/
def mulSteps (divider : Nat) : (l0 : Nat) → (total : Int) → List Val → Nat
  | _, _, [] => 0
  | l0, total, a :: rest =>
    mulStep divider l0 (len a) + mulSteps divider (limbs (total * int a)) (total * int a) rest

/-- `*`: `92 + Σ_{i≥1} (885 + 6·(Lᵢ + len(argᵢ)) + Lᵢ·len(argᵢ)/128) + 10·len(result)` where `L₁ = len(arg₀)` and
`Lᵢ = limbs(arg₀·…·argᵢ₋₁)` for `i ≥ 2`; new model: base 2000, `+ 6·len(arg₀)` for loading the first
argument, divider 16.
`DOC≠CODE`: docs/cost-model.md writes `first_arg.limbs` and "`l1` is the next argument's magnitude";
the code uses the raw atom lengths (`int_atom` length / `buf.len()`) for the first and for every
next argument; only the accumulator is measured with `limbs`. -/
def opMultiply (nm : Bool) (args : List Val) (res : Val) : Nat :=
  (match args with
   | [] => if nm then NEW_MUL_BASE else MUL_BASE
   | a0 :: rest =>
     if nm then NEW_MUL_BASE + MUL_LINEAR_PER_BYTE * len a0 + mulSteps NEW_MUL_SQUARE_DIVIDER (len a0) (int a0) rest
     else MUL_BASE + mulSteps MUL_SQUARE_DIVIDER (len a0) (int a0) rest) + malloc res

/-! ### div, divmod, mod, modpow -/

def sizes2 (args : List Val) : Nat × Nat := (len (args.getD 0 Val.nil), len (args.getD 1 Val.nil))

/-- new model, the whole division family: `1000 + 50·(l0 + l1) + l0·l1/10`.
`DOC≠CODE`: docs/cost-model.md calls `a0`, `a1` "magnitudes"; the code (and the comment above
`op_div`) uses the raw atom lengths. -/
def newDiv (l0 l1 : Nat) : Nat :=
  NEW_DIV_BASE + NEW_DIV_LINEAR_PER_BYTE * (l0 + l1) + (l0 * l1) / NEW_DIV_SQUARE_DIVIDER

/-- `/`: `988 + 4·(l0 + l1) + 10·len(result)` -/
def opDiv (nm : Bool) (args : List Val) (res : Val) : Nat :=
  let (l0, l1) := sizes2 args
  (if nm then newDiv l0 l1 else DIV_BASE + DIV_PER_BYTE * (l0 + l1)) + malloc res
/-- `%`: same as `/` -/
def opMod (nm : Bool) (args : List Val) (res : Val) : Nat := opDiv nm args res
/-- `divmod`: `1116 + 6·(l0 + l1) + 10·(len(quotient) + len(remainder))` -/
def opDivmod (nm : Bool) (args : List Val) (res : Val) : Nat :=
  let (l0, l1) := sizes2 args
  (if nm then newDiv l0 l1 else DIVMOD_BASE + DIVMOD_PER_BYTE * (l0 + l1)) +
    (match res with
     | .pair q r => malloc q + malloc r
     | .atom _ _ => 0)

/-- `modpow`: `17000 + 38·b + 3·e² + 21·m² + 10·len(result)`;
new model `17000 + 8·e·(m² + 4000) + b·m + 10·len(result)` (`b e m` atom lengths of base, exponent,
modulus; `DOC≠CODE`: the markdown says "magnitude"). -/
def opModpow (nm : Bool) (args : List Val) (res : Val) : Nat :=
  let b := len (args.getD 0 Val.nil)
  let e := len (args.getD 1 Val.nil)
  let m := len (args.getD 2 Val.nil)
  (if nm then MODPOW_BASE + NEW_MODPOW_EXPONENT_MULTIPLIER * e * (m * m + NEW_MODPOW_PER_ITERATION) + b * m
   else MODPOW_BASE + MODPOW_PER_BYTE_BASE_VALUE * b + MODPOW_PER_BYTE_EXPONENT * (e * e)
        + MODPOW_PER_BYTE_MOD * (m * m)) + malloc res

/-! ### shifts -/

/-- `ash`: `596 + 3·(len(a₀) + limbs(result)) + 10·len(result)` -/
def opAsh (_nm : Bool) (args : List Val) (res : Val) : Nat :=
  ASHIFT_BASE + ASHIFT_PER_BYTE * (len (args.getD 0 Val.nil) + limbs (int res)) + malloc res
/-- `lsh`: `277 + 3·(len(a₀) + limbs(result)) + 10·len(result)` -/
def opLsh (_nm : Bool) (args : List Val) (res : Val) : Nat :=
  LSHIFT_BASE + LSHIFT_PER_BYTE * (len (args.getD 0 Val.nil) + limbs (int res)) + malloc res

/-! ### logand, logior, logxor -/

/-- two's-complement bitwise operations on integers, specified through `Int.land`-style
case analysis is the model's business; the *cost* only needs the accumulator values, which are
passed in as the fold `f` -/
def logAccs (f : Int → Int → Int) (init : Int) (args : List Val) : List Int := partials f init (args.map int)

/-- `logand` / `logior` / `logxor`: `100 + 264·n + 3·Σ len(argᵢ) + 10·len(result)`;
new model: `100 + 264·n + 3·Σ max(len(argᵢ), limbs(accᵢ₋₁)) + 10·len(result)`, the accumulator starting
at the operator's neutral element (`-1` for `logand`: one limb; `0` otherwise).
`DOC≠CODE`: docs/cost-model.md says the `max` applies only when accumulator and argument have
different signs and that the first argument is always charged its own `atom_len`; the code, its
behaviour on the pinned v2 vectors (`logand 0x400000 0x01 => 0 | 646`) and `binop_reduction` charge
`max(len, acc.limbs)` for every argument — including the first one against the initial accumulator
(so `(logand 0)`, i.e. one empty atom, costs `100 + 264 + 3·max(0, limbs(-1)) = 367`, not 364). -/
def opLog (f : Int → Int → Int) (init : Int) (nm : Bool) (args : List Val) (res : Val) : Nat :=
  (if nm then LOG_BASE + LOG_PER_ARG * args.length + LOG_PER_BYTE * sumMax args (logAccs f init args)
   else LOG_BASE + LOG_PER_ARG * args.length + LOG_PER_BYTE * sumLen args) + malloc res

end Clvm.Spec.Cost
