/-
`Spec.CostCrypto`: the *documented* cost of every cryptographic operator as a closed formula over
the argument list — argument count, argument byte lengths — for both cost models
(`nm = false`: pre-hard-fork, `nm = true`: `NEW_COST_MODEL`).

Every constant in this file is a **pinned literal**, typed in from `/repo/docs/cost-model.md`
(§ "bls_pairing_identity / bls_verify", § "Operators with only constant changes") and the constant
declarations / cost comments of `src/bls_ops.rs`, `src/secp_ops.rs`, `src/keccak256_ops.rs`,
`src/more_ops.rs`, `src/op_utils.rs`.  Nothing here refers to `Gen.Crypto.*` (regenerated from the
sources on every run): `ClvmProofs/Lemmas/CryptoCost.lean` proves `Gen.Crypto.X = literal` for every
constant used (`crypto_constants_pinned`) and `cost charged by the model operator = formula below`
for every operator, so a retuned constant or a changed formula breaks a theorem.

Conventions: `len a` is the atom's length in bytes as stored; every operator that returns a new
atom adds the allocation charge `10 · (length of the result)` (`MALLOC_COST_PER_BYTE`): 48 bytes for
a G1 point, 96 for a G2 point, 32 for a digest.

The DST of `g1_map` / `g2_map`: an **absent** second argument means the 43-byte default DST is
hashed and charged (`dst = none` ↦ 43 bytes); a second argument that is **present and empty** is an
explicit DST of length 0 and is charged 0 bytes (`dst = some 0`).
-/
import ClvmModel.Tree

namespace Clvm.Spec.CostCrypto
open Clvm

/-! ### sizes -/

/-- the items of an argument list (whatever atom terminates it) -/
def argList : Tree → List Tree
  | .atom _ => []
  | .pair f r => f :: argList r

/-- atom length in bytes (0 for a pair: no formula below is used with a pair where an atom is required) -/
def len : Tree → Nat
  | .atom b => b.length
  | .pair _ _ => 0

def sum (l : List Nat) : Nat := l.foldr (· + ·) 0

/-- Σ len(argᵢ) -/
def sumLen (args : List Tree) : Nat := sum (args.map len)

/-- the allocation charge per byte of a result atom -/
def MALLOC_PER_BYTE : Nat := 10
/-- compressed sizes -/
def G1_SIZE : Nat := 48
def G2_SIZE : Nat := 96
def DIGEST_SIZE : Nat := 32
/-- length of the default DSTs `BLS_SIG_BLS12381G1_XMD:SHA-256_SSWU_RO_AUG_` / `…G2…` -/
def DEFAULT_DST_LEN : Nat := 43

/-! ### hash-to-curve: `base + msg_len * per_byte + dst_len * dst_per_byte` (+ malloc) -/

/-- `g1_map`; `dst = none`: no DST argument (default DST, 43 bytes); `dst = some n`: explicit DST of
`n` bytes (`some 0`: present and empty — charged 0 bytes) -/
def g1Map (nm : Bool) (msgLen : Nat) (dst : Option Nat) : Nat :=
  (if nm then 700000 else 195000) + msgLen * (if nm then 3 else 4)
    + (dst.getD 43) * (if nm then 2 else 4) + 48 * 10

/-- `g2_map` -/
def g2Map (nm : Bool) (msgLen : Nat) (dst : Option Nat) : Nat :=
  (if nm then 2700000 else 815000) + msgLen * (if nm then 3 else 4)
    + (dst.getD 43) * (if nm then 2 else 4) + 96 * 10

/-- the DST length as the formula sees it: absent / explicit -/
def dstOf : List Tree → Option Nat
  | [] => none
  | d :: _ => some (len d)

def opG1Map (nm : Bool) : List Tree → Nat
  | msg :: tl => g1Map nm (len msg) (dstOf tl)
  | [] => 0

def opG2Map (nm : Bool) : List Tree → Nat
  | msg :: tl => g2Map nm (len msg) (dstOf tl)
  | [] => 0

/-! ### point addition / subtraction: `base + n_args * per_arg` (+ malloc); same in both models -/

/-- `point_add` = `g1_add` (opcode 29) -/
def g1Add (n : Nat) : Nat := 101094 + n * 1343980 + 48 * 10
def g1Subtract (n : Nat) : Nat := 101094 + n * 1343980 + 48 * 10
def g2Add (n : Nat) : Nat := 80000 + n * 1950000 + 96 * 10
def g2Subtract (n : Nat) : Nat := 80000 + n * 1950000 + 96 * 10

def opG1Add (_nm : Bool) (args : List Tree) : Nat := g1Add args.length
def opG1Subtract (_nm : Bool) (args : List Tree) : Nat := g1Subtract args.length
def opG2Add (_nm : Bool) (args : List Tree) : Nat := g2Add args.length
def opG2Subtract (_nm : Bool) (args : List Tree) : Nat := g2Subtract args.length

/-! ### scalar multiplication: `base + scalar_len * per_byte` (+ malloc) -/

def g1Multiply (nm : Bool) (scalarLen : Nat) : Nat :=
  (if nm then 1900000 else 705500) + scalarLen * (if nm then 24 else 10) + 48 * 10
def g2Multiply (nm : Bool) (scalarLen : Nat) : Nat :=
  (if nm then 3000000 else 2100000) + scalarLen * (if nm then 23 else 5) + 96 * 10

def opG1Multiply (nm : Bool) : List Tree → Nat
  | [_, scalar] => g1Multiply nm (len scalar)
  | _ => 0
def opG2Multiply (nm : Bool) : List Tree → Nat
  | [_, scalar] => g2Multiply nm (len scalar)
  | _ => 0

/-! ### negation: flat (+ malloc, charged also when the argument itself is returned) -/

def g1Negate : Nat := 916 + 48 * 10
def g2Negate : Nat := 1204 + 96 * 10
def opG1Negate (_nm : Bool) (_args : List Tree) : Nat := g1Negate
def opG2Negate (_nm : Bool) (_args : List Tree) : Nat := g2Negate

/-! ### `pubkey_for_exp`: `base + len * per_byte` (+ malloc) -/

def pubkeyForExp (expLen : Nat) : Nat := 1325730 + expLen * 38 + 48 * 10
def opPubkeyForExp (_nm : Bool) : List Tree → Nat
  | [e] => pubkeyForExp (len e)
  | _ => 0

/-! ### `coinid`: flat cost (derived from the sha256 constants) + malloc of the 32-byte digest -/

def coinid (nm : Bool) : Nat := (if nm then 1759 else 480) + 32 * 10
def opCoinid (nm : Bool) (_args : List Tree) : Nat := coinid nm

/-! ### `keccak256`: `base + n_args * per_arg + total_bytes * per_byte` + malloc of the digest -/

def keccak256 (nm : Bool) (nArgs totalBytes : Nat) : Nat :=
  (if nm then 2350 else 50) + nArgs * (if nm then 100 else 160)
    + totalBytes * (if nm then 10 else 2) + 32 * 10
def opKeccak256 (nm : Bool) (args : List Tree) : Nat := keccak256 nm args.length (sumLen args)

/-! ### secp signature checks: flat, nothing allocated -/

def secp256k1Verify : Nat := 1300000
def secp256r1Verify : Nat := 1850000
def opSecp256k1Verify (_nm : Bool) (_args : List Tree) : Nat := secp256k1Verify
def opSecp256r1Verify (_nm : Bool) (_args : List Tree) : Nat := secp256r1Verify

/-! ### pairings: `BLS_PAIRING_BASE_COST + n_pairs * BLS_PAIRING_COST_PER_ARG`, nothing allocated -/

def pairingIdentity (nm : Bool) (nPairs : Nat) : Nat :=
  (if nm then 1000000 else 3000000) + nPairs * (if nm then 5000000 else 1200000)
/-- the argument list is `(g1 g2 g1 g2 …)` -/
def opPairingIdentity (nm : Bool) (args : List Tree) : Nat := pairingIdentity nm (args.length / 2)

/-- `bls_verify`: each `(pubkey, message)` pair additionally pays the per-byte costs of hashing the
message to G2 with the default 43-byte DST (the `g2_map` per-byte constants) -/
def blsVerify (nm : Bool) (msgLens : List Nat) : Nat :=
  (if nm then 1000000 else 3000000)
    + sum (msgLens.map (fun l =>
        (if nm then 5000000 else 1200000) + l * (if nm then 3 else 4) + 43 * (if nm then 2 else 4)))

/-- message lengths of `(pk₀ msg₀ pk₁ msg₁ …)` -/
def msgLens : List Tree → List Nat
  | _ :: msg :: rest => len msg :: msgLens rest
  | _ => []

/-- the argument list is `(signature pk₀ msg₀ pk₁ msg₁ …)` -/
def opBlsVerify (nm : Bool) : List Tree → Nat
  | _ :: rest => blsVerify nm (msgLens rest)
  | [] => 0

end Clvm.Spec.CostCrypto
