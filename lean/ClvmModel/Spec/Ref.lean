/-
`Spec.Ref`, part 2: `run_program` of the reference implementation (`clvm/run_program.py`, 0.9.x) as
the Python has it — one value stack, one stack of pending operations (`eval_op`, `apply_op`,
`cons_op`, `swap_op`), a main loop that adds the returned cost and checks `cost > max_cost` after
every operation — and the **named adapters**: the consensus changes made to the Chia network's CLVM
after the reference was written.  Property C01 compares `clvm_rs` with `Adapter.run`, i.e. the
reference with all adapters applied; `Ref.run` is the reference with none.

The machine is parameterised by a record of adapters (`Adapters`); `Adapters.none` switches every
one of them off and leaves exactly the Python.  Two things exist in the types only for the
adapters and are never used by `Ref.run`: the operation `Op.exitGuard` and the guard stack.
-/
import ClvmModel.Spec.RefOps

namespace Clvm.Ref
open Clvm

/-! ### `traverse_path` -/

/-- `msb_mask(byte)`: `byte |= byte >> 1; byte |= byte >> 2; byte |= byte >> 4; (byte + 1) >> 1` -/
def msbMask (byte : Nat) : Nat :=
  let byte := byte ||| (byte >>> 1)
  let byte := byte ||| (byte >>> 2)
  let byte := byte ||| (byte >>> 4)
  (byte + 1) >>> 1

/-- `while end_byte_cursor < len(b) and b[end_byte_cursor] == 0: end_byte_cursor += 1` -/
def endByteCursor : Bytes → Nat
  | [] => 0
  | x :: rest => if x.toNat == 0 then endByteCursor rest + 1 else 0

/-- the loop `while byte_cursor > end_byte_cursor or bitmask < end_bitmask:` of `traverse_path`.
`fuel` bounds the number of iterations (at most `8 * len(b)`); running out of it is reported as
`internal` and shown unreachable (`path_eq`). -/
def pathLoop (b : Bytes) (endByteCursor endBitmask : Nat) :
    (fuel : Nat) → (byteCursor bitmask : Nat) → (env : Tree) → (cost : Nat) → Res
  | 0, _, _, _, _ => .error .internal
  | fuel + 1, byteCursor, bitmask, env, cost =>
    if byteCursor > endByteCursor ∨ bitmask < endBitmask then
      match env with
      | .atom _ => .error .path                      -- `if env.pair is None: raise "path into atom"`
      | .pair l r =>
        match b[byteCursor]? with
        | none => .error .internal                    -- `b[byte_cursor]` is always in range
        | some byte =>
          let env := if byte.toNat &&& bitmask != 0 then r else l
          let cost := cost + PATH_LOOKUP_COST_PER_LEG
          let bitmask := bitmask <<< 1
          if bitmask == 0x100 then pathLoop b endByteCursor endBitmask fuel (byteCursor - 1) 0x01 env cost
          else pathLoop b endByteCursor endBitmask fuel byteCursor bitmask env cost
    else .ok (cost, env)

/-- `traverse_path(sexp, env)` for an atom `sexp` with bytes `b` -/
def traversePath (b : Bytes) (env : Tree) : Res :=
  let cost := PATH_LOOKUP_BASE_COST
  let cost := cost + PATH_LOOKUP_COST_PER_LEG
  if b.isEmpty then .ok (cost, false_)                -- `if sexp.nullp(): return cost, sexp.null()`
  else
    let ebc := endByteCursor b
    let cost := cost + ebc * PATH_LOOKUP_COST_PER_ZERO_BYTE
    if ebc == b.length then .ok (cost, false_)
    else
      match b[ebc]? with
      | none => .error .internal
      | some x =>
        let endBitmask := msbMask x.toNat
        pathLoop b ebc endBitmask (8 * b.length + 1) (b.length - 1) 0x01 env cost

/-! ### the machine -/

/-- the callables on the Python's `op_stack` (`exitGuard` is pushed by `Adapter.softforkGuard`
only) -/
inductive Op where
  | eval
  | apply
  | cons
  | swap
  | exitGuard
  deriving Repr, DecidableEq, Inhabited

/-- a softfork guard in progress (adapter state) -/
structure Guard where
  /-- the total cost the run must have reached when the guarded program has finished -/
  expectedCost : Nat
  /-- the extension number the guard was entered with -/
  extension : Nat
  deriving Repr, DecidableEq, Inhabited

structure St where
  opStack : List Op
  valueStack : List Tree
  /-- adapter state: empty in the reference -/
  guards : List Guard := []
  /-- adapter bookkeeping: `len(value_stack)`, maintained by every push and pop so that
  `Adapter.stackLimit` does not have to count (never read by the reference) -/
  depth : Nat := 0
  deriving Repr, Inhabited

/-- what `Adapter.softforkGuard` does at opcode 36 -/
structure SoftforkCfg where
  /-- cost of entering a guard -/
  guardCost : Nat
  /-- the extensions the implementation knows -/
  knownExtension : Nat → Bool

/-- the adapters, as data; every field is produced by the function of the same name in
`Clvm.Ref.Adapter` -/
structure Adapters where
  /-- `Adapter.floorDiv`, `Adapter.newOperators`: rewrites the operator table
  (`inGuard` = extension of the innermost guard in progress) -/
  lookup : (inGuard : Option Nat) → (Bytes → Tree → Res) → Bytes → Tree → Res := fun _ f => f
  /-- `Adapter.softforkGuard` -/
  softfork : Option SoftforkCfg := none
  /-- `Adapter.stackLimit` -/
  stackLimit : Option Nat := none
  /-- `Adapter.lenientOperandLists` (a *finding*, not a consensus change: see there) -/
  lenientLists : Bool := false
  /-- `Adapter.coreFragment`: a *domain restriction* used by machine-level theorems only (never by
  the streams): evaluating a `((X) …)` form ends the comparison (`outOfDomain`) -/
  noInnerForm : Bool := false
  /-- `Adapter.noGuards` / `Adapter.coreFragment`: a *domain restriction* used by machine-level
  theorems only: applying opcode 36 ends the comparison (`outOfDomain`) -/
  noSoftfork : Bool := false
  /-- `Adapter.guardsOf`: a *domain restriction* used by machine-level theorems only: entering a guard
  whose extension number is outside the predicate ends the comparison (`outOfDomain`) -/
  guardDomain : Nat → Bool := fun _ => true

/-- the Python, unchanged -/
def Adapters.none : Adapters := {}

/-- `value_stack.append(v)` (with `Adapter.stackLimit`: fails when the stack is full) -/
def St.push (ad : Adapters) (st : St) (v : Tree) : Except RefErr St :=
  match ad.stackLimit with
  | some lim => if st.depth ≥ lim then .error .stack
                else .ok { st with valueStack := v :: st.valueStack, depth := st.depth + 1 }
  | Option.none => .ok { st with valueStack := v :: st.valueStack, depth := st.depth + 1 }

/-- `swap_op` -/
def swapOp (st : St) : Except RefErr (Nat × St) :=
  match st.valueStack with
  | v2 :: v1 :: vs => .ok (0, { st with valueStack := v1 :: v2 :: vs })
  | _ => .error .internal

/-- `cons_op`: `v1 = pop(); v2 = pop(); push(v1.cons(v2))` -/
def consOp (st : St) : Except RefErr (Nat × St) :=
  match st.valueStack with
  | v1 :: v2 :: vs => .ok (0, { st with valueStack := .pair v1 v2 :: vs, depth := st.depth - 1 })
  | _ => .error .internal

/-- the loop `while not operand_list.nullp(): …` of `eval_op`: for every operand push
`(operand . args)` and the three operations that will evaluate it and cons it onto the argument list;
`operand_list.first()` raises on a non-nil atom terminator. -/
def pushOperands (ad : Adapters) (env : Tree) : Tree → St → Except RefErr St
  | .pair operand restOperands, st =>
    match st.push ad (.pair operand env) with
    | .error e => .error e
    | .ok st =>
      pushOperands ad env restOperands { st with opStack := .swap :: .eval :: .cons :: st.opStack }
  | .atom b, st => if b.isEmpty then .ok st else .error .arg

/-- `eval_op` -/
def evalOp (ad : Adapters) (st : St) : Except RefErr (Nat × St) :=
  match st.valueStack with
  | [] => .error .internal
  | .atom _ :: _ => .error .internal                 -- `pair.first()` of a non-pair: never pushed
  | .pair sexp args :: vs =>
    let st := { st with valueStack := vs, depth := st.depth - 1 }
    match sexp with
    | .atom b =>
      -- "sexp is an atom": a path into the environment
      match traversePath b args with
      | .error e => .error e
      | .ok (cost, r) =>
        match st.push ad r with
        | .error e => .error e
        | .ok st => .ok (cost, st)
    | .pair operator operandList =>
      match operator with
      | .pair newOperator mustBeNil =>
        if ad.noInnerForm then .error .outOfDomain else
        -- `if new_operator.pair or must_be_nil.atom != b"": raise "in ((X)...) syntax X must be lone atom"`
        let bad := listp newOperator ||
          (if ad.lenientLists then (match mustBeNil with | .pair _ _ => true | .atom _ => false)
           else !nullp mustBeNil)
        if bad then .error .arg
        else
          match st.push ad newOperator with
          | .error e => .error e
          | .ok st =>
            match st.push ad operandList with
            | .error e => .error e
            | .ok st => .ok (APPLY_COST, { st with opStack := .apply :: st.opStack })
      | .atom op =>
        if op.map UInt8.toNat == [0x01] then
          -- `op == operator_lookup.quote_atom`
          match st.push ad operandList with
          | .error e => .error e
          | .ok st => .ok (QUOTE_COST, st)
        else
          let st := { st with opStack := .apply :: st.opStack }
          match st.push ad operator with
          | .error e => .error e
          | .ok st =>
            match pushOperands ad args operandList st with
            | .error e => .error e
            | .ok st =>
              match st.push ad false_ with          -- `value_stack.append(operator.null())`
              | .error e => .error e
              | .ok st => .ok (EVAL_OPERANDS_COST, st)

/-- with `Adapter.lenientOperandLists` an operator sees its argument list up to the first atom,
whatever that atom is (only an unevaluated `((X) …)` operand list can end in a non-nil atom) -/
def truncateList : Tree → Tree
  | .pair f r => .pair f (truncateList r)
  | .atom _ => .atom []

/-- the atom is a negative integer -/
def topBitSet : Bytes → Bool
  | x :: _ => decide (x.toNat ≥ 0x80)
  | [] => false

def exceeds (c : Nat) : Option Nat → Bool
  | some r => decide (c > r)
  | Option.none => false

/-- the declared cost of a softfork: first argument, an unsigned integer of at most 8 bytes after
stripping leading zeros, not zero, not above the remaining budget (`none` = unlimited) -/
def softforkCost (operandList : Tree) (remaining : Option Nat) : Except RefErr Nat :=
  match operandList with
  | .atom _ => .error .arg
  | .pair (.pair _ _) _ => .error .arg
  | .pair (.atom c) _ =>
    if topBitSet c then .error .arg
    else if (c.dropWhile (fun x => x.toNat == 0)).length > 8 then .error .arg
    else
      let expected := unsignedFromBytes c
      if exceeds expected remaining then .error .cost
      else if expected == 0 then .error .cost
      else .ok expected

/-- `(softfork cost extension program env)` with a known extension (an unsigned integer of at most 4
bytes) enters a guard: extension number, program, environment -/
def softforkGuarded (cfg : SoftforkCfg) (operandList : Tree) : Option (Nat × Tree × Tree) :=
  match operandList with
  | .pair _ (.pair (.atom e) (.pair prog (.pair env (.atom _)))) =>
    if topBitSet e then Option.none
    else if (e.dropWhile (fun x => x.toNat == 0)).length > 4 then Option.none
    else
      let ext := unsignedFromBytes e
      if cfg.knownExtension ext then some (ext, prog, env) else Option.none
  | _ => Option.none

/-- what opcode 36 does under `Adapter.softforkGuard`; `remaining` is the budget left
(`none` = unlimited) and `currentCost` the cost accumulated so far -/
def softforkApply (ad : Adapters) (cfg : SoftforkCfg) (st : St) (operandList : Tree)
    (currentCost : Nat) (remaining : Option Nat) : Except RefErr (Nat × St) :=
  match softforkCost operandList remaining with
  | .error e => .error e
  | .ok expected =>
    -- any shape but a guard is the reference's behaviour: charge the declared cost, return nil
    match softforkGuarded cfg operandList with
    | Option.none =>
      match st.push ad false_ with
      | .error e => .error e
      | .ok st => .ok (expected, st)
    | some (ext, prog, env) =>
      if !ad.guardDomain ext then .error .outOfDomain
      else
        -- enter the guard and evaluate `program` right away (the first `eval_op` of the guarded
        -- program is part of this step, so no budget check separates them)
        let g : Guard := { expectedCost := currentCost + expected, extension := ext }
        let st := { st with opStack := .exitGuard :: st.opStack, guards := g :: st.guards,
                            valueStack := .pair prog env :: st.valueStack, depth := st.depth + 1 }
        match evalOp ad st with
        | .error e => .error e
        | .ok (c, st) => .ok (c + cfg.guardCost, st)

/-- `apply_op` -/
def applyOp (ad : Adapters) (st : St) (currentCost : Nat) (remaining : Option Nat) :
    Except RefErr (Nat × St) :=
  match st.valueStack with
  | operandList :: operator :: vs =>
    let st := { st with valueStack := vs, depth := st.depth - 2 }
    match operator with
    | .pair _ _ => .error .internal               -- `raise EvalError("internal error", operator)`
    | .atom op =>
      if op.map UInt8.toNat == [0x02] then
        -- `op == operator_lookup.apply_atom`
        if listLen operandList != 2 then .error .arg
        else
          match operandList with
          | .pair newProgram (.pair newArgs _) =>
            match st.push ad (.pair newProgram newArgs) with
            | .error e => .error e
            | .ok st => .ok (APPLY_COST, { st with opStack := .eval :: st.opStack })
          | _ => .error .internal
      else if ad.noSoftfork && op.map UInt8.toNat == [0x24] then .error .outOfDomain
      else
        match ad.softfork, op.map UInt8.toNat == [0x24] with
        | some cfg, true => softforkApply ad cfg st operandList currentCost remaining
        | _, _ =>
          let inGuard := st.guards.head?.map Guard.extension
          let operandList := if ad.lenientLists then truncateList operandList else operandList
          match ad.lookup inGuard operatorLookup op operandList with
          | .error e => .error e
          | .ok (additionalCost, r) =>
            match st.push ad r with
            | .error e => .error e
            | .ok st => .ok (additionalCost, st)
  | _ => .error .internal

/-- leaving a guard (`Adapter.softforkGuard`): the cost must be exactly the declared one; the
value the guarded program produced is replaced by nil -/
def exitGuardOp (st : St) (currentCost : Nat) : Except RefErr (Nat × St) :=
  match st.guards with
  | [] => .error .internal
  | g :: gs =>
    if currentCost != g.expectedCost then .error .softfork
    else
      match st.valueStack with
      | [] => .error .internal
      | _ :: vs => .ok (0, { st with valueStack := false_ :: vs, guards := gs })

/-- the budget in force: the declared cost of the innermost guard, else `max_cost`
(`none` = `max_cost` is `None` or `0`) -/
def effectiveMax (st : St) (maxCost : Option Nat) : Option Nat :=
  match st.guards with
  | g :: _ => some g.expectedCost
  | [] => maxCost

/-- the main loop:
`while op_stack: f = op_stack.pop(); cost += f(op_stack, value_stack); if max_cost and cost > max_cost: raise`.
Returns `none` when the fuel (number of iterations) runs out. -/
def runLoop (ad : Adapters) (maxCost : Option Nat) : Nat → St → (cost : Nat) → Option Res
  | 0, _, _ => Option.none
  | fuel + 1, st, cost =>
    match st.opStack with
    | [] =>
      match st.valueStack with
      | v :: _ => some (.ok (cost, v))              -- `return cost, value_stack[-1]`
      | [] => some (.error .internal)
    | f :: ops =>
      let st := { st with opStack := ops }
      let remaining := (effectiveMax st maxCost).map (· - cost)
      let r := match f with
        | .eval => evalOp ad st
        | .apply => applyOp ad st cost remaining
        | .cons => consOp st
        | .swap => swapOp st
        | .exitGuard => exitGuardOp st cost
      match r with
      | .error e => some (.error e)
      | .ok (c, st) =>
        let cost := cost + c
        match effectiveMax st maxCost with
        | some m => if cost > m then some (.error .cost) else runLoop ad maxCost fuel st cost
        | Option.none => runLoop ad maxCost fuel st cost

/-- `run_program(program, args, operator_lookup, max_cost)` with the given adapters -/
def runWith (ad : Adapters) (fuel : Nat) (program args : Tree) (maxCost : Option Nat) : Option Res :=
  let maxCost := match maxCost with
    | some 0 => Option.none               -- `if max_cost and …`: 0 is "no limit", like `None`
    | m => m
  runLoop ad maxCost fuel { opStack := [.eval], valueStack := [.pair program args], depth := 1 } 0

/-- **the reference**: the Python's `run_program` with `OPERATOR_LOOKUP`, no adapters -/
def run (fuel : Nat) (program args : Tree) (maxCost : Option Nat) : Option Res :=
  runWith Adapters.none fuel program args maxCost

/-! ### the adapters -/
namespace Adapter

/-- **`Adapter.floorDiv`** — consensus change: the Chia 2.0 hard fork (CHIP-0011, activated at
block height 5,496,000) fixed operator `/` (opcode 19) to round towards negative infinity for
*all* operands.

Reference behaviour taken: `op_div` of clvm 0.9.x as it was consensus at network launch — Python
`divmod` (floor) followed by "if q == -1 and r != 0: q += 1", so that e.g. `(/ -1 10)` and
`(/ 1 -10)` gave `0` while `(/ -11 10)` gave `-2`.  (From clvm 0.9.7/clvm_rs 0.1.15 on, mempool
mode additionally *rejected* negative operands — "div operator with negative operands is
deprecated" — a policy rule, not consensus; it is not part of the reference used here.)

What the adapter changes: the quotient is `Int.fdiv i0 i1` without the special case.  Cost,
argument checks and the division-by-zero error are untouched.  The two differ exactly when
`Int.fdiv i0 i1 = -1 ∧ Int.fmod i0 i1 ≠ 0` (theorem `floorDiv_region`). -/
def floorDiv (args : Tree) : Res :=
  let cost := DIV_BASE_COST
  match argsAsIntList args 2 with
  | .error e => .error e
  | .ok [(i0, l0), (i1, l1)] =>
    if i1 = 0 then .error .div0
    else
      let cost := cost + (l0 + l1) * DIV_COST_PER_BYTE
      let (q, _) := pyDivmod i0 i1
      mallocCost cost (ofInt q)
  | .ok _ => .error .internal

/-- **`Adapter.newOperators`** — consensus changes that *assigned* opcodes which the reference
treats as unknown no-ops (or implements with the Python BLS library): the BLS operators 29/30
(re-implemented) and 48–59, `modpow` 60, `%` 61 (CHIP-0011), `keccak256` 62 inside a softfork
guard with extension 1 (CHIP-0036), the four-byte opcodes `13d61f00` / `1c3a8f00`
(`secp256k1_verify` / `secp256r1_verify`, CHIP-0011; their unknown-operator cost was chosen to be
the cost of the new operators).  Property C01 is about the classic set, so the adapter does not
re-specify these operators: applying one of them makes the run leave the property's domain
(`RefErr.outOfDomain`; the comparison is skipped).  `assigned` is the list of opcodes the
implementation's dispatch table assigns outside a guard (generated from `chia_dialect.rs`). -/
def newOperators (assigned : List Bytes) (assignedInGuard : Nat → List Bytes)
    (inGuard : Option Nat) (lookup : Bytes → Tree → Res) (op : Bytes) (args : Tree) : Res :=
  if assigned.contains op then .error .outOfDomain
  else if (match inGuard with | some ext => (assignedInGuard ext).contains op | Option.none => false) == true then
    .error .outOfDomain
  else lookup op args

/-- the operator table with `floorDiv` and `newOperators` applied -/
def lookup (assigned : List Bytes) (assignedInGuard : Nat → List Bytes)
    (inGuard : Option Nat) (base : Bytes → Tree → Res) : Bytes → Tree → Res :=
  newOperators assigned assignedInGuard inGuard
    (fun op args => if op.map UInt8.toNat == [0x13] then floorDiv args else base op args)

/-- **`Adapter.softforkGuard`** — consensus change (CHIP-0011, same hard fork): opcode 36.
The reference's `op_softfork` reads the first argument as the cost, requires it to be ≥ 1, charges
it and returns nil — whatever the other arguments are.  Since the hard fork,
`(softfork cost extension program env)` with a *known* extension number evaluates `program` in
`env` under a guard: the guarded evaluation must cost exactly `cost` (including `guardCost`, the
price of entering the guard) or the run fails; its budget is `cost`; its value is discarded and the
result is nil.  Every other shape (wrong number of arguments, unknown extension, extension not a
32-bit unsigned integer) keeps the reference's behaviour.  The declared cost is now read as an
unsigned integer of at most 8 significant bytes (a negative or longer atom is an argument error),
`0` and a cost above the remaining budget fail immediately.
`guardCost` and the set of known extensions are the implementation's (`GUARD_COST`,
`softfork_extension`), passed in by the caller. -/
def softforkGuard (guardCost : Nat) (knownExtension : Nat → Bool) : SoftforkCfg :=
  { guardCost := guardCost, knownExtension := knownExtension }

/-- **`Adapter.stackLimit`** — implementation limit adopted as consensus: `clvm_rs` bounds the
value stack (and the environment stack, which is never deeper) to `STACK_SIZE_LIMIT` = 20,000,000
entries and fails the run with `ValueStackLimitReached` / `EnvironmentStackLimitReached`; the Python
list is unbounded.  The adapter makes `value_stack.append` fail when the stack already holds `limit`
values.  The Python keeps `(program . env)` on the value stack for one step where `clvm_rs` does
not, so the two depths differ by at most one *between* operations; the correspondence of the exact
threshold is not proved (a program needs an operand list of 20 million elements to get there). -/
def stackLimit (limit : Nat) : Option Nat := some limit

/-- **`Adapter.u64Budget`** — the implementation counts cost in a `u64`; `max_cost = 0` (and the
Python's `None`) mean "no limit", which for `clvm_rs` is `2^64 - 1`.  Consensus budgets are below
`2^34`. -/
def u64Budget (budget : Nat) : Option Nat := some (if budget == 0 then 2 ^ 64 - 1 else budget)

/-- **`Adapter.invalidNilTerminator`** — *no change in outcome*: for an operand list that is
evaluated, both implementations reject a non-nil terminator before evaluating any operand
(`operand_list.first()` raises "first of non-cons" in the Python; `clvm_rs` returns
`InvalidNilTerminator`).  The adapter is the identity on outcomes and only renames the class:
both are reported as `arg`. -/
def invalidNilTerminator (e : RefErr) : RefErr := e

/-- **`Adapter.lenientOperandLists`** — **a finding, not a consensus change** (kept switchable so
that the correspondence stream can say precisely where the implementations part).  In the
`((X) . operands)` form the operand list reaches the operator *unevaluated*.  The reference
(i) requires the inner list `(X)` to end in nil ("in ((X)...) syntax X must be lone atom") and
(ii) iterates operator arguments with `as_iter`, which raises on a non-nil terminator.
`clvm_rs` (i) reads `(X . anything)` with `get_args::<1>`, which stops at *any* atom, and
(ii) its operators walk the list with `Allocator::next`, which also stops at any atom.  So
`((16 . 5))` and `((16) 1 2 . 3)` evaluate to 0 resp. 3 in `clvm_rs` and fail in the reference.
With the flag set the adapted reference behaves like `clvm_rs`. -/
def lenientOperandLists : Bool := true

/-- **`Adapter.costCheckOrder`** — not a change of semantics but of *where the budget is looked at*:
`clvm_rs` operators give up with `CostExceeded` as soon as the cost accumulated inside the operator
exceeds the remaining budget; the reference finishes the operator — where it may still raise an
argument error — and compares afterwards.  Success, result and cost are unaffected (per-operator
theorems `ref_op_eq_*`, which hold for every budget); under a finite budget the *class* of a
failure can be `cost` on one side and the operator's own error on the other.  The adapter
canonicalises the class of a failed run by the class of the same run without a budget:
a run that fails at budget `B` either fails the same way without budget (then that class is
reported) or succeeds without budget (then the class must be `cost`).  Anything else is reported
verbatim as `<class at B>/<unbudgeted>` and cannot compare equal by accident. -/
def costCheckOrder (atBudget unbudgeted : Except String (Nat × Tree)) : Except String (Nat × Tree) :=
  match atBudget with
  | .ok r => .ok r
  | .error k =>
    match unbudgeted with
    | .ok _ => if k == "cost" then .error "cost" else .error (k ++ "/ok")
    | .error k' => if k == k' || k == "cost" then .error k' else .error (k ++ "/" ++ k')

/-- **`Adapter.coreFragment`** — not an adapter but a restriction of the *domain* of the machine-level
theorem `C01_main_core`: a run that evaluates a `((X) …)` form or applies opcode 36 leaves the
fragment (`RefErr.outOfDomain`).  Inside the fragment every operand list an operator sees has been
evaluated (so it ends in nil and the strict and the lenient reading coincide) and no softfork guard
is ever entered. -/
def coreFragment (ad : Adapters) : Adapters := { ad with noInnerForm := true, noSoftfork := true }

/-- **`Adapter.guardsOf`** — the domain restriction of `C01_main_guards`: softfork guards are inside
for the extension numbers satisfying `dom`; entering any other known extension's guard is outside. -/
def guardsOf (dom : Nat → Bool) (ad : Adapters) : Adapters := { ad with guardDomain := dom }

/-- **`Adapter.noGuards`** — the domain restriction of the former `C01_main_lenient` (now subsumed by
`C01_main_guards_partial`, which uses `guardsOf`): only opcode 36 (softfork guards) is outside; the
`((X) …)` form is inside. -/
def noGuards (ad : Adapters) : Adapters := { ad with noSoftfork := true }

/-- **`Adapter.restrictCalls`** — like `coreFragment` a restriction of the *domain* of a theorem, never
used by the streams: an operator call `(op, args)` for which `excl` holds ends the comparison
(`RefErr.outOfDomain`).  `C01_main_core` uses it for the region of finding B (an unknown operator whose
cost product `base · (multiplier + 1)` reaches `2^64`, where the pre-hard-fork `op_unknown` wraps). -/
def restrictCalls (excl : Bytes → Tree → Bool) (ad : Adapters) : Adapters :=
  { ad with lookup := fun g f op args => if excl op args then .error .outOfDomain else ad.lookup g f op args }

/-- all consensus adapters (`lenient` additionally switches the finding on) -/
def consensus (assigned : List Bytes) (assignedInGuard : Nat → List Bytes) (guardCost : Nat)
    (knownExtension : Nat → Bool) (stackLim : Nat) (lenient : Bool) : Adapters :=
  { lookup := lookup assigned assignedInGuard
    softfork := some (softforkGuard guardCost knownExtension)
    stackLimit := stackLimit stackLim
    lenientLists := lenient }

end Adapter
end Clvm.Ref
