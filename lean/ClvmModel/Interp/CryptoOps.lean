/-
Adapter: the cryptographic operators (`ClvmModel/Crypto`, tree-level, allocation-free) as
interpreter operators with allocator accounting.  Each of these Rust operators allocates at most
once, as its last action (`new_atom` / `new_g1` / `new_g2`); `OpRes.fresh` says whether it did.
`op_sha256_tree` is the transcription in `ClvmModel/TreeHash.lean`.
-/
import ClvmModel.Interp.Machine
import ClvmModel.Crypto.Dispatch
import ClvmModel.TreeHash

namespace Clvm.Interp
open Clvm

def liftCrypto (f : Crypto.OpFn) : OpFn := fun flags maxCost args c =>
  match f flags maxCost args.erase with
  | .error e => .error e
  | .ok r =>
    if r.fresh then
      match r.value with
      | .atom b =>
        match allocAtom c b with
        | .error e => .error e
        | .ok (v, c') => .ok (r.cost, v, c')
      | .pair _ _ => .error (.Panic "crypto operator allocated a pair")
    else .ok (r.cost, Val.ofTree r.value, c)

/-- a value as `Allocator::node` shows it (node identities are irrelevant for the operator) -/
def toNTree : Val → TreeHash.NTree
  | .atom b true => .u32 0 (Alloc.beNat b)
  | .atom b false => .buffer 0 b
  | .pair l r => .pair 0 (toNTree l) (toNTree r)

/-- `op_sha256_tree` with its final `new_atom` -/
def opSha256Tree : OpFn := fun flags maxCost args c =>
  match TreeHash.opSha256Tree (newModel flags) maxCost (toNTree args) with
  | .error e => .error e
  | .ok (cost, h) =>
    match allocAtom c h with
    | .error e => .error e
    | .ok (v, c') => .ok (cost, v, c')

/-- the operators `coreOpByName` does not have (`op_sha256` is the core transcription) -/
def cryptoExtra (name : String) : Option OpFn :=
  if name == "op_sha256" then none
  else if name == "op_sha256_tree" then some opSha256Tree
  else (Crypto.opByName name).map liftCrypto

end Clvm.Interp
