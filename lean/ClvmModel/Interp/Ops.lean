/-
Model of the non-cryptographic operators: `src/core_ops.rs` and `src/more_ops.rs`
(`op_sha256` is here too, on top of the Lean SHA-256).

Each Rust operator function is one Lean function `… : OpFn` following the Rust body's order of
argument checks, cost charges, `check_cost` calls and allocations.  `cfg.fastpath` selects the
default build (`true`) or the `no-fastpath` build (`false`); both branches are transcribed.
Big-integer arithmetic (`num-bigint` and `malachite`) is Lean's `Int`.  Costs are `Nat`: the `u64`
additions of the old cost model that are not `checked_*` in the source are assumed not to wrap
(an overflow needs operands of about a gigabyte; see DESIGN §6-F).
-/
import ClvmModel.Interp.OpUtils
import ClvmModel.Hash.Sha256
import ClvmModel.Gen.Treehash

namespace Clvm.Interp
open Clvm Clvm.Alloc

/-- build configuration -/
structure Cfg where
  /-- `cfg(not(feature = "no-fastpath"))` -/
  fastpath : Bool := true
  deriving Repr, DecidableEq, Inhabited

def newModel (flags : Flags) : Bool := hasFlag flags Gen.FLAG_NEW_COST_MODEL

/-! ### core_ops.rs -/

def opIf : OpFn := fun flags _ input c =>
  match getArgs3 input "i" with
  | .error e => .error e
  | .ok (cond, affirmative, negative) =>
    let chosen := if cond.nilp then negative else affirmative
    let cost := if newModel flags then Gen.NEW_IF_COST else Gen.IF_COST
    .ok (cost, chosen, c)

def opCons : OpFn := fun _ _ input c =>
  match getArgs2 input "c" with
  | .error e => .error e
  | .ok (n1, n2) =>
    match allocPair c n1 n2 with
    | .error e => .error e
    | .ok (r, c') => .ok (Gen.CONS_COST, r, c')

def opFirst : OpFn := fun _ _ input c =>
  match getArgs1 input "f" with
  | .error e => .error e
  | .ok n =>
    match first n with
    | .error e => .error e
    | .ok r => .ok (Gen.FIRST_COST, r, c)

def opRest : OpFn := fun _ _ input c =>
  match getArgs1 input "r" with
  | .error e => .error e
  | .ok n =>
    match rest n with
    | .error e => .error e
    | .ok r => .ok (Gen.REST_COST, r, c)

def opListp : OpFn := fun flags _ input c =>
  match getArgs1 input "l" with
  | .error e => .error e
  | .ok n =>
    let cost := if newModel flags then Gen.NEW_LISTP_COST else Gen.LISTP_COST
    .ok (cost, if n.isPair then Val.one else Val.nil, c)

def opRaise : OpFn := fun _ _ _ _ => .error .Raise

def opEq : OpFn := fun _ _ input c =>
  match getArgs2 input "=" with
  | .error e => .error e
  | .ok (s0, s1) =>
    match s0, s1 with
    | .pair _ _, _ => .error (.InvalidOpArg "= used on list")
    | _, .pair _ _ => .error (.InvalidOpArg "= used on list")
    | .atom b0 _, .atom b1 _ =>
      let eq := b0 == b1     -- `atom_eq` (byte equality for every pair of representations: C14)
      let cost := Gen.EQ_BASE_COST + (b0.length + b1.length) * Gen.EQ_COST_PER_BYTE
      .ok (cost, if eq then Val.one else Val.nil, c)

/-! ### more_ops.rs: unknown operators -/

/-- the per-argument loops of `op_unknown`, one per cost function -/
def unknownArith (nm : Bool) (maxCost : Nat) : List Val → (cost accSize : Nat) → Except Err Nat
  | [], cost, _ => .ok cost
  | arg :: rest, cost, accSize =>
    match atomLen arg "unknown op" with
    | .error e => .error e
    | .ok len =>
      let (cpa, cpb) := if nm then (Gen.NEW_ARITH_COST_PER_ARG, Gen.NEW_ARITH_COST_PER_BYTE)
                        else (Gen.ARITH_COST_PER_ARG, Gen.ARITH_COST_PER_BYTE)
      if nm then
        match ckAdd cost cpa with
        | .error e => .error e
        | .ok cost1 =>
          match ckMul (max accSize len) cpb with
          | .error e => .error e
          | .ok m =>
            match ckAdd cost1 m with
            | .error e => .error e
            | .ok cost2 =>
              match checkCost cost2 maxCost with
              | .error e => .error e
              | .ok () => unknownArith nm maxCost rest cost2 (max accSize len)
      else
        let cost2 := cost + cpa + len * cpb
        match checkCost cost2 maxCost with
        | .error e => .error e
        | .ok () => unknownArith nm maxCost rest cost2 accSize

def unknownMul (nm : Bool) (maxCost : Nat) (sqDiv : Nat) :
    List Val → (cost l0 : Nat) → (firstIter : Bool) → Except Err Nat
  | [], cost, _, _ => .ok cost
  | arg :: rest, cost, l0, firstIter =>
    match atomLen arg "unknown op" with
    | .error e => .error e
    | .ok len =>
      if firstIter then
        if nm then
          match ckMul len Gen.MUL_LINEAR_COST_PER_BYTE with
          | .error e => .error e
          | .ok m =>
            match ckAdd cost m with
            | .error e => .error e
            | .ok cost1 =>
              match checkCost cost1 maxCost with
              | .error e => .error e
              | .ok () => unknownMul nm maxCost sqDiv rest cost1 len false
        else unknownMul nm maxCost sqDiv rest cost len false
      else if nm then
        match ckAdd cost Gen.MUL_COST_PER_OP with
        | .error e => .error e
        | .ok cost1 =>
          match ckAdd l0 len with
          | .error e => .error e
          | .ok s =>
            match ckMul s Gen.MUL_LINEAR_COST_PER_BYTE with
            | .error e => .error e
            | .ok lin =>
              match ckAdd cost1 lin with
              | .error e => .error e
              | .ok cost2 =>
                match ckMul l0 len with
                | .error e => .error e
                | .ok sq =>
                  match ckAdd cost2 (sq / sqDiv) with
                  | .error e => .error e
                  | .ok cost3 =>
                    -- `l0 += len` (unchecked; cannot exceed u64 when the checked sum above did not)
                    match checkCost cost3 maxCost with
                    | .error e => .error e
                    | .ok () => unknownMul nm maxCost sqDiv rest cost3 (l0 + len) false
      else
        let cost3 := cost + Gen.MUL_COST_PER_OP + (l0 + len) * Gen.MUL_LINEAR_COST_PER_BYTE + (l0 * len) / sqDiv
        match checkCost cost3 maxCost with
        | .error e => .error e
        | .ok () => unknownMul nm maxCost sqDiv rest cost3 (l0 + len) false

def unknownConcat (maxCost : Nat) : List Val → (cost : Nat) → Except Err Nat
  | [], cost => .ok cost
  | arg :: rest, cost =>
    match atomLen arg "unknown op" with
    | .error e => .error e
    | .ok len =>
      let cost2 := cost + Gen.CONCAT_COST_PER_ARG + Gen.CONCAT_COST_PER_BYTE * len
      match checkCost cost2 maxCost with
      | .error e => .error e
      | .ok () => unknownConcat maxCost rest cost2

/-- `op_unknown(allocator, o, args, max_cost, flags)`; `op` are the operator atom's bytes.
The old cost model multiplies with `wrapping_mul` on `u64` (DESIGN §6-B). -/
def opUnknown (op : Bytes) : OpFn := fun flags maxCost args c =>
  let reserved := match op with
    | [] => true
    | b0 :: b1 :: _ => b0.toNat == 0xff && b1.toNat == 0xff
    | _ => false
  if reserved then .error .Reserved
  else
    let lastByte := (op.getLast?.map UInt8.toNat).getD 0
    let costFunction := (lastByte &&& 0xc0) >>> 6
    match u32FromU8 (op.take (op.length - 1)) with
    | none => .error .Invalid
    | some costMultiplier =>
      let nm := newModel flags
      let args := argList args
      let base : Except Err Nat :=
        match costFunction with
        | 0 => .ok 1
        | 1 => unknownArith nm maxCost args Gen.ARITH_BASE_COST 0
        | 2 => unknownMul nm maxCost
                 (if nm then Gen.NEW_MUL_SQUARE_COST_PER_BYTE_DIVIDER else Gen.MUL_SQUARE_COST_PER_BYTE_DIVIDER)
                 args (if nm then Gen.NEW_MUL_BASE_COST else Gen.MUL_BASE_COST) 0 true
        | 3 => unknownConcat maxCost args Gen.CONCAT_BASE_COST
        | _ => .ok 1
      match base with
      | .error e => .error e
      | .ok cost =>
        if cost == 0 then .error (.Panic "assert!(cost > 0)")
        else
          match checkCost cost maxCost with
          | .error e => .error e
          | .ok () =>
            let total : Except Err Nat :=
              if nm then ckMul cost (costMultiplier + 1)
              else .ok ((cost * (costMultiplier + 1)) % 2 ^ 64)
            match total with
            | .error e => .error e
            | .ok cost' =>
              if cost' > 2 ^ 32 - 1 then .error .Invalid
              else .ok (cost', Val.nil, c)

/-! ### more_ops.rs: sha256 -/

def bytesOfNats (l : List Nat) : Bytes := l.map UInt8.ofNat

def precomputedHash (i : Nat) : Bytes := bytesOfNats (Gen.thPrecomputedHashes.getD i [])

def sha256Loop (cpa cpb maxCost : Nat) : List Val → (cost : Nat) → (acc : Bytes) → Except Err (Nat × Bytes)
  | [], cost, acc => .ok (cost, acc)
  | arg :: rest, cost, acc =>
    let cost1 := cost + cpa
    match atomBytes arg "sha256" with
    | .error e => .error e
    | .ok blob =>
      let cost2 := cost1 + blob.length * cpb
      match checkCost cost2 maxCost with
      | .error e => .error e
      | .ok () => sha256Loop cpa cpb maxCost rest cost2 (acc ++ blob)

def opSha256 (cfg : Cfg) : OpFn := fun flags maxCost input c =>
  let (base, cpa, cpb) :=
    if newModel flags then (Gen.NEW_SHA256_BASE_COST, Gen.NEW_SHA256_COST_PER_ARG, Gen.NEW_SHA256_COST_PER_BYTE)
    else (Gen.SHA256_BASE_COST, Gen.SHA256_COST_PER_ARG, Gen.SHA256_COST_PER_BYTE)
  if input.isNilPtr then newAtomAndCost c base (Hash.sha256 [])
  else
    let fast : Option (Except Err (Nat × Val × Ctr)) :=
      if cfg.fastpath then
        match matchArgs 2 input with
        | some [v0, v1] =>
          if smallNumber v0 == some 1 then
            match smallNumber v1 with
            | some val =>
              if val < Gen.thPrecomputedHashes.length then
                let numBytes := if val > 0 then 2 else 1
                let cost := base + numBytes * cpb + 2 * cpa
                some (match checkCost cost maxCost with
                  | .error e => .error e
                  | .ok () => newAtomAndCost c cost (precomputedHash val))
              else none
            | none => none
          else none
        | _ => none
      else none
    match fast with
    | some r => r
    | none =>
      match sha256Loop cpa cpb maxCost (argList input) base [] with
      | .error e => .error e
      | .ok (cost, data) => newAtomAndCost c cost (Hash.sha256 data)

/-! ### more_ops.rs: add, subtract, multiply -/

def arithCosts (flags : Flags) : Nat × Nat × Nat :=
  if newModel flags then (Gen.ARITH_BASE_COST, Gen.NEW_ARITH_COST_PER_ARG, Gen.NEW_ARITH_COST_PER_BYTE)
  else (Gen.ARITH_BASE_COST, Gen.ARITH_COST_PER_ARG, Gen.ARITH_COST_PER_BYTE)

/-- the closure `fast_total` of `op_add`: `none` = fall back to the generic path -/
def addFast (nm : Bool) (cpa cpb maxCost : Nat) :
    List Val → (cost total : Nat) → Except Err (Option (Nat × Nat))
  | [], cost, total => .ok (some (cost, total))
  | arg :: rest, cost, total =>
    let cost1 := cost + cpa
    match node arg with
    | .u32 val =>
      let cost2 := if nm then cost1 + (max (natBE total).length (lenForValue val)) * cpb
                   else cost1 + lenForValue val * cpb
      match checkCost cost2 maxCost with
      | .error e => .error e
      | .ok () =>
        if total + val > U64_MAX then .ok none
        else addFast nm cpa cpb maxCost rest cost2 (total + val)
    | _ => .ok none

/-- generic loop of `op_add`; the old model's random split over two accumulators is a sum -/
def addGeneric (nm : Bool) (cpa cpb maxCost : Nat) :
    List Val → (cost : Nat) → (acc smallAcc : Int) → Except Err (Nat × Int)
  | [], cost, acc, smallAcc => .ok (cost, if nm then smallAcc else acc + smallAcc)
  | arg :: rest, cost, acc, smallAcc =>
    let cost1 := cost + cpa
    match node arg with
    | .buffer buf =>
      let cost2 := if nm then cost1 + (max (limbs smallAcc) buf.length) * cpb else cost1 + cpb * buf.length
      match checkCost cost2 maxCost with
      | .error e => .error e
      | .ok () =>
        let val := decodeInt buf
        if nm then addGeneric nm cpa cpb maxCost rest cost2 acc (smallAcc + val)
        else addGeneric nm cpa cpb maxCost rest cost2 (acc + val) smallAcc
    | .u32 val =>
      let cost2 := if nm then cost1 + (max (limbs smallAcc) (lenForValue val)) * cpb
                   else cost1 + lenForValue val * cpb
      match checkCost cost2 maxCost with
      | .error e => .error e
      | .ok () => addGeneric nm cpa cpb maxCost rest cost2 acc (smallAcc + val)
    | .pair _ _ => .error (.InvalidOpArg "Requires Int Argument: +")

def opAdd (cfg : Cfg) : OpFn := fun flags maxCost input c =>
  let nm := newModel flags
  let (base, cpa, cpb) := arithCosts flags
  let args := argList input
  let fast : Except Err (Option (Nat × Nat)) :=
    if cfg.fastpath then addFast nm cpa cpb maxCost args base 0 else .ok none
  match fast with
  | .error e => .error e
  | .ok (some (cost, total)) =>
    match allocAtom c (u64Bytes total) with    -- `new_u64`
    | .error e => .error e
    | .ok (v, c') => .ok (mallocCost cost v, v, c')
  | .ok none =>
    match addGeneric nm cpa cpb maxCost args base 0 0 with
    | .error e => .error e
    | .ok (cost, total) =>
      match allocNumber c total with
      | .error e => .error e
      | .ok (v, c') => .ok (mallocCost cost v, v, c')

/-- `i64::limbs` -/
def limbsI64 (v : Int) : Nat := (natBE v.natAbs).length

def I64_MIN : Int := -(2 : Int) ^ 63
def I64_MAX : Int := (2 : Int) ^ 63 - 1

/-- `fast_total` of `op_subtract` -/
def subFast (nm : Bool) (cpa cpb maxCost : Nat) :
    List Val → (cost : Nat) → (total : Int) → (isFirst : Bool) → Except Err (Option (Nat × Int))
  | [], cost, total, _ => .ok (some (cost, total))
  | arg :: rest, cost, total, isFirst =>
    let cost1 := cost + cpa
    match node arg with
    | .u32 val =>
      let cost2 := if nm then cost1 + (max (limbsI64 total) (lenForValue val)) * cpb
                   else cost1 + lenForValue val * cpb
      match checkCost cost2 maxCost with
      | .error e => .error e
      | .ok () =>
        if isFirst then subFast nm cpa cpb maxCost rest cost2 (val : Int) false
        else
          let nt := total - (val : Int)
          if nt < I64_MIN ∨ nt > I64_MAX then .ok none
          else subFast nm cpa cpb maxCost rest cost2 nt false
    | _ => .ok none

/-- generic loop of `op_subtract` (note the extra `check_cost` right after the per-argument charge) -/
def subGeneric (nm : Bool) (cpa cpb maxCost : Nat) :
    List Val → (cost : Nat) → (acc smallAcc : Int) → (isFirst : Bool) → Except Err (Nat × Int)
  | [], cost, acc, smallAcc, _ => .ok (cost, if nm then smallAcc else acc + smallAcc)
  | arg :: rest, cost, acc, smallAcc, isFirst =>
    let cost1 := cost + cpa
    match checkCost cost1 maxCost with
    | .error e => .error e
    | .ok () =>
      let sgn : Int := if isFirst then 1 else -1
      match node arg with
      | .buffer buf =>
        let cost2 := if nm then cost1 + (max (limbs smallAcc) buf.length) * cpb else cost1 + buf.length * cpb
        match checkCost cost2 maxCost with
        | .error e => .error e
        | .ok () =>
          let val := decodeInt buf
          if nm then subGeneric nm cpa cpb maxCost rest cost2 acc (smallAcc + sgn * val) false
          else subGeneric nm cpa cpb maxCost rest cost2 (acc + sgn * val) smallAcc false
      | .u32 val =>
        let cost2 := if nm then cost1 + (max (limbs smallAcc) (lenForValue val)) * cpb
                     else cost1 + lenForValue val * cpb
        match checkCost cost2 maxCost with
        | .error e => .error e
        | .ok () => subGeneric nm cpa cpb maxCost rest cost2 acc (smallAcc + sgn * (val : Int)) false
      | .pair _ _ => .error (.InvalidOpArg "Requires Int Argument: -")

/-- `new_i64` -/
def i64Bytes (v : Int) : Bytes := if v ≥ 0 then u64Bytes v.toNat else i64NegBytes v

def opSubtract (cfg : Cfg) : OpFn := fun flags maxCost input c =>
  let nm := newModel flags
  let (base, cpa, cpb) := arithCosts flags
  let args := argList input
  let fast : Except Err (Option (Nat × Int)) :=
    if cfg.fastpath then subFast nm cpa cpb maxCost args base 0 true else .ok none
  match fast with
  | .error e => .error e
  | .ok (some (cost, total)) =>
    match allocAtom c (i64Bytes total) with
    | .error e => .error e
    | .ok (v, c') => .ok (mallocCost cost v, v, c')
  | .ok none =>
    match subGeneric nm cpa cpb maxCost args base 0 0 true with
    | .error e => .error e
    | .ok (cost, total) =>
      match allocNumber c total with
      | .error e => .error e
      | .ok (v, c') => .ok (mallocCost cost v, v, c')

/-- the loop of `op_multiply` after the first argument -/
def mulLoop (cfg : Cfg) (flags : Flags) (maxCost sqDiv : Nat) :
    List Val → (cost : Nat) → (total : Int) → (l0 : Nat) → Except Err (Nat × Int)
  | [], cost, total, _ => .ok (cost, total)
  | arg :: rest, cost, total, l0 =>
    let nm := newModel flags
    let limits := hasFlag flags Gen.FLAG_LIMITS && !nm
    let cost1 := cost + Gen.MUL_COST_PER_OP
    let step : Except Err (Nat × Int) :=
      if cfg.fastpath then
        match node arg with
        | .buffer buf =>
          let l1 := buf.length
          if limits && l1 > 256 then .error (.InvalidOpArg "*")
          else
            let cost2 := cost1 + (l0 + l1) * Gen.MUL_LINEAR_COST_PER_BYTE + (l0 * l1) / sqDiv
            match checkCost cost2 maxCost with
            | .error e => .error e
            | .ok () => .ok (cost2, total * decodeInt buf)
        | .u32 val =>
          let l1 := lenForValue val
          let cost2 := cost1 + (l0 + l1) * Gen.MUL_LINEAR_COST_PER_BYTE + (l0 * l1) / sqDiv
          match checkCost cost2 maxCost with
          | .error e => .error e
          | .ok () => .ok (cost2, total * (val : Int))
        | .pair _ _ => .error (.InvalidOpArg "Requires Int Argument: *")
      else
        match intAtom arg "*" with
        | .error e => .error e
        | .ok (n1, l1) =>
          if limits && l1 > 256 then .error (.InvalidOpArg "*")
          else
            let cost2 := cost1 + (l0 + l1) * Gen.MUL_LINEAR_COST_PER_BYTE + (l0 * l1) / sqDiv
            match checkCost cost2 maxCost with
            | .error e => .error e
            | .ok () => .ok (cost2, total * n1)
    match step with
    | .error e => .error e
    | .ok (cost2, total') =>
      let l0' := limbs total'
      if limits && l0' > 1024 then .error (.InvalidOpArg "*")
      else mulLoop cfg flags maxCost sqDiv rest cost2 total' l0'

def opMultiply (cfg : Cfg) : OpFn := fun flags maxCost input c =>
  let nm := newModel flags
  let cost0 := if nm then Gen.NEW_MUL_BASE_COST else Gen.MUL_BASE_COST
  let sqDiv := if nm then Gen.NEW_MUL_SQUARE_COST_PER_BYTE_DIVIDER else Gen.MUL_SQUARE_COST_PER_BYTE_DIVIDER
  let r : Except Err (Nat × Int) :=
    match argList input with
    | [] => .ok (cost0, 1)
    | arg :: rest =>
      match intAtom arg "*" with
      | .error e => .error e
      | .ok (total, l0) =>
        if hasFlag flags Gen.FLAG_LIMITS && !nm && l0 > 256 then .error (.InvalidOpArg "*")
        else
          let cost1 : Except Err Nat :=
            if nm then
              let c1 := cost0 + l0 * Gen.MUL_LINEAR_COST_PER_BYTE
              match checkCost c1 maxCost with
              | .error e => .error e
              | .ok () => .ok c1
            else .ok cost0
          match cost1 with
          | .error e => .error e
          | .ok c1 => mulLoop cfg flags maxCost sqDiv rest c1 total l0
  match r with
  | .error e => .error e
  | .ok (cost, total) =>
    match allocNumber c total with
    | .error e => .error e
    | .ok (v, c') => .ok (mallocCost cost v, v, c')

/-! ### more_ops.rs: div, divmod, mod, modpow (num-bigint and malachite variants) -/

/-- `compute_new_div_cost` -/
def computeNewDivCost (a0Len a1Len : Nat) : Except Err Nat :=
  let cost := Gen.NEW_DIV_BASE_COST + (a0Len + a1Len) * Gen.NEW_DIV_LINEAR_COST_PER_BYTE
  match ckMul a0Len a1Len with
  | .error e => .error e
  | .ok sq => .ok (cost + sq / Gen.NEW_DIV_SQUARE_COST_PER_BYTE_DIVIDER)

/-- argument decoding, operand-size limits, cost and zero check shared *textually* by
`op_div`, `op_divmod`, `op_mod` and their malachite twins; `intA` is `int_atom` or
`malachite_int_atom`, `(oldBase, oldPerByte)` the old-model constants of the operator. -/
def divPrologue (intA : Val → String → Except Err (Int × Nat)) (name errName : String)
    (oldBase oldPerByte : Nat) (flags : Flags) (maxCost : Nat) (input : Val) :
    Except Err (Int × Int × Nat) :=
  match getArgs2 input name with
  | .error e => .error e
  | .ok (v0, v1) =>
    match intA v0 name with
    | .error e => .error e
    | .ok (a0, a0Len) =>
      match intA v1 name with
      | .error e => .error e
      | .ok (a1, a1Len) =>
        let nm := newModel flags
        if hasFlag flags Gen.FLAG_DISABLE_OP && !nm && a0Len > 2048 then .error (.InvalidOpArg errName)
        else if hasFlag flags Gen.FLAG_LIMITS && !nm && (a0Len > 256 || a1Len > 1024) then
          .error (.InvalidOpArg errName)
        else
          let cost : Except Err Nat :=
            if nm then computeNewDivCost a0Len a1Len else .ok (oldBase + (a0Len + a1Len) * oldPerByte)
          match cost with
          | .error e => .error e
          | .ok cost =>
            match checkCost cost maxCost with
            | .error e => .error e
            | .ok () =>
              if a1 == 0 then .error .DivisionByZero
              else .ok (a0, a1, cost)

def opDivWith (intA : Val → String → Except Err (Int × Nat)) : OpFn := fun flags maxCost input c =>
  match divPrologue intA "/" "div" Gen.DIV_BASE_COST Gen.DIV_COST_PER_BYTE flags maxCost input with
  | .error e => .error e
  | .ok (a0, a1, cost) =>
    match allocNumber c (Int.fdiv a0 a1) with
    | .error e => .error e
    | .ok (q, c') => .ok (mallocCost cost q, q, c')

def opDivmodWith (intA : Val → String → Except Err (Int × Nat)) : OpFn := fun flags maxCost input c =>
  match divPrologue intA "divmod" "divmod" Gen.DIVMOD_BASE_COST Gen.DIVMOD_COST_PER_BYTE flags maxCost input with
  | .error e => .error e
  | .ok (a0, a1, cost) =>
    match allocNumber c (Int.fdiv a0 a1) with
    | .error e => .error e
    | .ok (q1, c1) =>
      match allocNumber c1 (Int.fmod a0 a1) with
      | .error e => .error e
      | .ok (r1, c2) =>
        let cm := (mallocCost 0 q1 + mallocCost 0 r1)
        match allocPair c2 q1 r1 with
        | .error e => .error e
        | .ok (r, c3) => .ok (cost + cm, r, c3)

def opModWith (intA : Val → String → Except Err (Int × Nat)) : OpFn := fun flags maxCost input c =>
  match divPrologue intA "mod" "mod" Gen.DIV_BASE_COST Gen.DIV_COST_PER_BYTE flags maxCost input with
  | .error e => .error e
  | .ok (a0, a1, cost) =>
    match allocNumber c (Int.fmod a0 a1) with
    | .error e => .error e
    | .ok (q, c') => .ok (mallocCost cost q, q, c')

def opDiv : OpFn := fun flags maxCost input c =>
  if hasFlag flags Gen.FLAG_MALACHITE then opDivWith malachiteIntAtom flags maxCost input c
  else opDivWith intAtom flags maxCost input c

def opDivmod : OpFn := fun flags maxCost input c =>
  if hasFlag flags Gen.FLAG_MALACHITE then opDivmodWith malachiteIntAtom flags maxCost input c
  else opDivmodWith intAtom flags maxCost input c

def opMod : OpFn := fun flags maxCost input c =>
  if hasFlag flags Gen.FLAG_MALACHITE then opModWith malachiteIntAtom flags maxCost input c
  else opModWith intAtom flags maxCost input c

/-- `compute_modpow_cost` -/
def computeModpowCost (bsize esize msize : Nat) (nm : Bool) : Except Err Nat :=
  if nm then
    match ckMul esize Gen.NEW_MODPOW_EXPONENT_MULTIPLIER with
    | .error e => .error e
    | .ok e8 =>
      match ckMul msize msize with
      | .error e => .error e
      | .ok mm =>
        match ckAdd mm Gen.NEW_MODPOW_PER_ITERATION_COST with
        | .error e => .error e
        | .ok it =>
          match ckMul e8 it with
          | .error e => .error e
          | .ok t =>
            match ckAdd Gen.MODPOW_BASE_COST t with
            | .error e => .error e
            | .ok cost =>
              match ckMul bsize msize with
              | .error e => .error e
              | .ok bm => ckAdd cost bm
  else
    .ok (Gen.MODPOW_BASE_COST + bsize * Gen.MODPOW_COST_PER_BYTE_BASE_VALUE
      + (esize * esize) * Gen.MODPOW_COST_PER_BYTE_EXPONENT + (msize * msize) * Gen.MODPOW_COST_PER_BYTE_MOD)

/-- square-and-multiply `b^e mod m` on naturals (`m > 0`), fuel = bit length of `e` -/
def powModNat (b e m : Nat) : Nat → Nat
  | 0 => 1 % m
  | fuel + 1 =>
    if e == 0 then 1 % m
    else
      let h := powModNat b (e / 2) m fuel
      let sq := (h * h) % m
      if e % 2 == 1 then (sq * (b % m)) % m else sq

/-- `BigInt::modpow`: `base^exponent mod modulus`, rounded like `mod_floor`
(result in `[0, m)` for `m > 0`, in `(m, 0]` for `m < 0`); `exponent ≥ 0`, `modulus ≠ 0` -/
def modpowInt (base : Int) (exponent : Nat) (modulus : Int) : Int :=
  let m := modulus.natAbs
  let b := (base % (m : Int)).toNat          -- in [0, m)
  let r := powModNat b exponent m (Nat.log2 exponent + 1)
  if modulus > 0 then (r : Int)
  else if r == 0 then 0 else (r : Int) + modulus

def opModpowWith (intA : Val → String → Except Err (Int × Nat)) : OpFn := fun flags maxCost input c =>
  let nm := newModel flags
  match getArgs3 input "modpow" with
  | .error e => .error e
  | .ok (base, exponent, modulus) =>
    match intA base "modpow" with
    | .error e => .error e
    | .ok (base, bsize) =>
      match intA exponent "modpow" with
      | .error e => .error e
      | .ok (exponent, esize) =>
        match intA modulus "modpow" with
        | .error e => .error e
        | .ok (modulus, msize) =>
          match computeModpowCost bsize esize msize nm with
          | .error e => .error e
          | .ok cost =>
            match checkCost cost maxCost with
            | .error e => .error e
            | .ok () =>
              if hasFlag flags Gen.FLAG_LIMITS && !nm && (bsize > 256 || esize > 256 || msize > 256) then
                .error (.InvalidOpArg "modpow")
              else if exponent < 0 then .error (.InvalidOpArg "ModPow with Negative Exponent")
              else if modulus == 0 then .error .DivisionByZero
              else
                match allocNumber c (modpowInt base exponent.toNat modulus) with
                | .error e => .error e
                | .ok (v, c') => .ok (mallocCost cost v, v, c')

def opModpow : OpFn := fun flags maxCost input c =>
  if hasFlag flags Gen.FLAG_MALACHITE then opModpowWith malachiteIntAtom flags maxCost input c
  else opModpowWith intAtom flags maxCost input c

/-! ### more_ops.rs: comparisons, strings -/

def opGr (cfg : Cfg) : OpFn := fun flags _ input c =>
  match getArgs2 input ">" with
  | .error e => .error e
  | .ok (v0, v1) =>
    let (base, cpb) := if newModel flags then (Gen.NEW_GR_BASE_COST, Gen.NEW_GR_COST_PER_BYTE)
                       else (Gen.GR_BASE_COST, Gen.GR_COST_PER_BYTE)
    let fast : Option (Nat × Val × Ctr) :=
      if cfg.fastpath then
        match smallNumber v0, smallNumber v1 with
        | some lhs, some rhs =>
          some (base + (lenForValue lhs + lenForValue rhs) * cpb, if lhs > rhs then Val.one else Val.nil, c)
        | _, _ => none
      else none
    match fast with
    | some r => .ok r
    | none =>
      match intAtom v0 ">" with
      | .error e => .error e
      | .ok (n0, l0) =>
        match intAtom v1 ">" with
        | .error e => .error e
        | .ok (n1, l1) =>
          .ok (base + (l0 + l1) * cpb, if n0 > n1 then Val.one else Val.nil, c)

/-- lexicographic `&[u8] > &[u8]` -/
def bytesGt : Bytes → Bytes → Bool
  | [], _ => false
  | _ :: _, [] => true
  | x :: xs, y :: ys => if x.toNat > y.toNat then true else if x.toNat < y.toNat then false else bytesGt xs ys

def opGrBytes : OpFn := fun _ _ input c =>
  match getArgs2 input ">s" with
  | .error e => .error e
  | .ok (n0, n1) =>
    match atomBytes n0 ">s" with
    | .error e => .error e
    | .ok v0 =>
      match atomBytes n1 ">s" with
      | .error e => .error e
      | .ok v1 =>
        let cost := Gen.GRS_BASE_COST + (v0.length + v1.length) * Gen.GRS_COST_PER_BYTE
        .ok (cost, if bytesGt v0 v1 then Val.one else Val.nil, c)

def opStrlen : OpFn := fun _ _ input c =>
  match getArgs1 input "strlen" with
  | .error e => .error e
  | .ok n =>
    match atomLen n "strlen" with
    | .error e => .error e
    | .ok size =>
      match allocNumber c (size : Int) with
      | .error e => .error e
      | .ok (sizeNode, c') =>
        let cost := Gen.STRLEN_BASE_COST + size * Gen.STRLEN_COST_PER_BYTE
        .ok (mallocCost cost sizeNode, sizeNode, c')

/-- `Allocator::new_substr(node, start, end)` (bounds already validated by `op_substr`):
a view of a heap atom shares its bytes; a sub-string of an inline atom is a new inline atom when
canonical, and otherwise — as the code is written — new heap bytes appended *without* a heap-limit
check (DESIGN §6-C). -/
def newSubstr (c : Ctr) (node : Val) (s e : Nat) : Except Err (Val × Ctr) :=
  match c.checkAtomLimit with
  | .error err => .error err
  | .ok () =>
    match node with
    | .pair _ _ => .error (.InternalError "substr expected atom, got pair")
    | .atom b false =>
      if s > b.length then .error (.InvalidAllocArg "substr start out of bounds")
      else if e > b.length then .error (.InvalidAllocArg "substr end out of bounds")
      else if e < s then .error (.InvalidAllocArg "substr invalid bounds")
      else .ok (.atom ((b.drop s).take (e - s)) false, { c with atoms := c.atoms + 1 })
    | .atom b true =>
      let len := lenForValue (beNat b)
      if s > len then .error (.InvalidAllocArg "substr start out of bounds")
      else if e > len then .error (.InvalidAllocArg "substr end out of bounds")
      else if e < s then .error (.InvalidAllocArg "substr invalid bounds")
      else
        let sub := (b.drop s).take (e - s)
        match fitsInSmallAtom sub with
        | some _ => .ok (.atom sub true, { c with atoms := c.atoms + 1 })
        | none => .ok (.atom sub false, { c with atoms := c.atoms + 1, heap := c.heap + sub.length })

def opSubstr : OpFn := fun flags _ input c =>
  let nm := newModel flags
  match getVarargs 3 input "substr" with
  | .error e => .error e
  | .ok l =>
    let argc := l.length
    if argc < 2 ∨ argc > 3 then .error (.InvalidOpArg s!"Substring takes exactly 2 or 3 arguments, got {argc}")
    else
      let a0 := l.getD 0 Val.nil
      let startN := l.getD 1 Val.nil
      let endN := l.getD 2 Val.nil
      match atomLen a0 "substr" with
      | .error e => .error e
      | .ok size =>
        match i32Atom startN "substr" with
        | .error e => .error e
        | .ok start =>
          let endR : Except Err Int := if argc == 3 then i32Atom endN "substr" else .ok (size : Int)  -- `size as i32`
          match endR with
          | .error e => .error e
          | .ok end_ =>
            if end_ < 0 ∨ start < 0 ∨ end_.toNat > size ∨ end_ < start then
              .error (.InvalidOpArg "Invalid Indices for Substring")
            else
              match newSubstr c a0 start.toNat end_.toNat with
              | .error e => .error e
              | .ok (r, c') => .ok (if nm then Gen.NEW_SUBSTR_COST else 1, r, c')

def concatLoop (maxCost : Nat) : List Val → (cost totalSize : Nat) → (terms : List Val) →
    Except Err (Nat × Nat × List Val)
  | [], cost, totalSize, terms => .ok (cost, totalSize, terms.reverse)
  | arg :: rest, cost, totalSize, terms =>
    match arg with
    | .pair _ _ => .error (.InvalidOpArg "concat on list")
    | .atom b _ =>
      let len := b.length
      let cost2 := cost + Gen.CONCAT_COST_PER_ARG + len * (Gen.CONCAT_COST_PER_BYTE + Gen.MALLOC_COST_PER_BYTE)
      match checkCost cost2 maxCost with
      | .error e => .error e
      | .ok () =>
        if len > 0 then concatLoop maxCost rest cost2 (totalSize + len) (arg :: terms)
        else concatLoop maxCost rest cost2 totalSize terms

/-- `Allocator::new_concat(new_size, nodes)` (the caller passes the exact size and atoms only, so
the `InternalError` branches are unreachable; they are kept as outcomes) -/
def newConcat (c : Ctr) (newSize : Nat) (nodes : List Val) : Except Err (Val × Ctr) :=
  match c.checkAtomLimit with
  | .error e => .error e
  | .ok () =>
    if c.heap + newSize > c.heapLimit then .error .OutOfMemory
    else
      match nodes with
      | [] =>
        if newSize != 0 then .error (.InternalError "concat passed invalid new_size")
        else .ok (Val.nil, { c with atoms := c.atoms + 1 })
      | [n] =>
        match n with
        | .pair _ _ => .error (.Panic "expected atom, got pair")
        | .atom b _ =>
          if b.length != newSize then .error (.InternalError "concat passed invalid new_size")
          else .ok (n, { c with atoms := c.atoms + 1, heap := c.heap + newSize })
      | _ =>
        let bytes : Except Err Bytes := nodes.foldl (fun acc n =>
          match acc, n with
          | .error e, _ => .error e
          | .ok _, .pair _ _ => .error (.InternalError "concat expected atom, got pair")
          | .ok a, .atom b _ => .ok (a ++ b)) (.ok [])
        match bytes with
        | .error e => .error e
        | .ok bs =>
          if bs.length != newSize then .error (.InternalError "concat passed invalid new_size")
          else .ok (.atom bs false, { c with atoms := c.atoms + 1, heap := c.heap + newSize })

def opConcat : OpFn := fun _ maxCost input c =>
  match concatLoop maxCost (argList input) Gen.CONCAT_BASE_COST 0 [] with
  | .error e => .error e
  | .ok (cost, totalSize, terms) =>
    match newConcat c totalSize terms with
    | .error e => .error e
    | .ok (v, c') => .ok (cost, v, c')

/-! ### more_ops.rs: shifts and bitwise operators -/

/-- `i0 << a1` / `i0 >> -a1` on a `BigInt` (arithmetic shift: floor division) -/
def shiftInt (i0 : Int) (a1 : Int) : Int :=
  if a1 > 0 then i0 * (2 : Int) ^ a1.toNat else Int.fdiv i0 ((2 : Int) ^ (-a1).toNat)

def opAsh : OpFn := fun _ _ input c =>
  match getArgs2 input "ash" with
  | .error e => .error e
  | .ok (n0, n1) =>
    match intAtom n0 "ash" with
    | .error e => .error e
    | .ok (i0, l0) =>
      match i32Atom n1 "ash" with
      | .error e => .error e
      | .ok a1 =>
        if a1 < -65535 ∨ a1 > 65535 then .error .ShiftTooLarge
        else
          let v := shiftInt i0 a1
          let l1 := limbs v
          match allocNumber c v with
          | .error e => .error e
          | .ok (r, c') =>
            let cost := Gen.ASHIFT_BASE_COST + (l0 + l1) * Gen.ASHIFT_COST_PER_BYTE
            .ok (mallocCost cost r, r, c')

def opLsh : OpFn := fun _ _ input c =>
  match getArgs2 input "lsh" with
  | .error e => .error e
  | .ok (n0, n1) =>
    match atomBytes n0 "lsh" with
    | .error e => .error e
    | .ok b0 =>
      match i32Atom n1 "lsh" with
      | .error e => .error e
      | .ok a1 =>
        if a1 < -65535 ∨ a1 > 65535 then .error .ShiftTooLarge
        else
          let i0 : Int := (beNat b0 : Int)      -- `BigUint::from_bytes_be`
          let l0 := b0.length
          let v := shiftInt i0 a1
          let l1 := limbs v
          match allocNumber c v with
          | .error e => .error e
          | .ok (r, c') =>
            let cost := Gen.LSHIFT_BASE_COST + (l0 + l1) * Gen.LSHIFT_COST_PER_BYTE
            .ok (mallocCost cost r, r, c')

/-- `x & !y` on naturals -/
def natAndNot (x y : Nat) : Nat := Nat.bitwise (fun a b => a && !b) x y

/-- two's-complement bitwise operations on `Int` (as `BigInt`'s `BitAnd`/`BitOr`/`BitXor`) -/
def intAnd : Int → Int → Int
  | .ofNat m, .ofNat n => .ofNat (m &&& n)
  | .ofNat m, .negSucc n => .ofNat (natAndNot m n)
  | .negSucc m, .ofNat n => .ofNat (natAndNot n m)
  | .negSucc m, .negSucc n => .negSucc (m ||| n)

def intOr : Int → Int → Int
  | .ofNat m, .ofNat n => .ofNat (m ||| n)
  | .ofNat m, .negSucc n => .negSucc (natAndNot n m)
  | .negSucc m, .ofNat n => .negSucc (natAndNot m n)
  | .negSucc m, .negSucc n => .negSucc (m &&& n)

def intXor : Int → Int → Int
  | .ofNat m, .ofNat n => .ofNat (m ^^^ n)
  | .ofNat m, .negSucc n => .negSucc (m ^^^ n)
  | .negSucc m, .ofNat n => .negSucc (m ^^^ n)
  | .negSucc m, .negSucc n => .ofNat (m ^^^ n)

/-- `binop_reduction`: the old model folds non-negative arguments into `pos_acc` and negative
ones into `neg_acc` and combines them at the end -/
def binopLoop (opName : String) (nm : Bool) (f : Int → Int → Int) (maxCost : Nat) :
    List Val → (cost : Nat) → (posAcc negAcc : Int) → Except Err (Nat × Int)
  | [], cost, posAcc, negAcc => .ok (cost, if nm then posAcc else f posAcc negAcc)
  | arg :: rest, cost, posAcc, negAcc =>
    match intAtom arg opName with
    | .error e => .error e
    | .ok (n0, len) =>
      let cost1 := if nm then cost + (max len (limbs posAcc)) * Gen.LOG_COST_PER_BYTE
                   else cost + len * Gen.LOG_COST_PER_BYTE
      let (posAcc', negAcc') :=
        if nm then (f posAcc n0, negAcc)
        else if n0 < 0 then (posAcc, f negAcc n0) else (f posAcc n0, negAcc)
      let cost2 := cost1 + Gen.LOG_COST_PER_ARG
      match checkCost cost2 maxCost with
      | .error e => .error e
      | .ok () => binopLoop opName nm f maxCost rest cost2 posAcc' negAcc'

def binopReduction (opName : String) (init : Int) (f : Int → Int → Int) : OpFn := fun flags maxCost input c =>
  match binopLoop opName (newModel flags) f maxCost (argList input) Gen.LOG_BASE_COST init init with
  | .error e => .error e
  | .ok (cost, total) =>
    match allocNumber c total with
    | .error e => .error e
    | .ok (v, c') => .ok (mallocCost cost v, v, c')

def opLogand : OpFn := binopReduction "logand" (-1) intAnd
def opLogior : OpFn := binopReduction "logior" 0 intOr
def opLogxor : OpFn := binopReduction "logxor" 0 intXor

def opLognot : OpFn := fun _ _ input c =>
  match getArgs1 input "lognot" with
  | .error e => .error e
  | .ok n =>
    match intAtom n "lognot" with
    | .error e => .error e
    | .ok (v, len) =>
      let cost := Gen.LOGNOT_BASE_COST + len * Gen.LOGNOT_COST_PER_BYTE
      match allocNumber c (-v - 1) with
      | .error e => .error e
      | .ok (r, c') => .ok (mallocCost cost r, r, c')

/-! ### more_ops.rs: boolean operators -/

def opNot : OpFn := fun _ _ input c =>
  match getArgs1 input "not" with
  | .error e => .error e
  | .ok n => .ok (Gen.BOOL_BASE_COST, if n.nilp then Val.one else Val.nil, c)

def boolLoop (maxCost : Nat) (isAny : Bool) : List Val → (cost : Nat) → (acc : Bool) → Except Err (Nat × Bool)
  | [], cost, acc => .ok (cost, acc)
  | arg :: rest, cost, acc =>
    let cost1 := cost + Gen.BOOL_COST_PER_ARG
    match checkCost cost1 maxCost with
    | .error e => .error e
    | .ok () =>
      boolLoop maxCost isAny rest cost1 (if isAny then acc || !arg.nilp else acc && !arg.nilp)

def opAny : OpFn := fun _ maxCost input c =>
  match boolLoop maxCost true (argList input) Gen.BOOL_BASE_COST false with
  | .error e => .error e
  | .ok (cost, r) => .ok (cost, if r then Val.one else Val.nil, c)

def opAll : OpFn := fun _ maxCost input c =>
  match boolLoop maxCost false (argList input) Gen.BOOL_BASE_COST true with
  | .error e => .error e
  | .ok (cost, r) => .ok (cost, if r then Val.one else Val.nil, c)

end Clvm.Interp
