/-
Model of `src/traverse_path.rs`, `src/dialect.rs`, `src/chia_dialect.rs`, `src/runtime_dialect.rs`
and `src/run_program.rs` (`RunProgramContext`): a small-step machine with the same stacks,
the same order of pushes, charges, checks and allocations, and every `InternalError` / `expect`
site as an explicit outcome.

Heap reclamation (`Operation::RestoreAllocator` + `maybe_restore_with_node`) is modelled at this
level as what the specification says it is: unobservable (the checkpoint is popped, the value and
the counters are kept).  The pointer-level behaviour of `maybe_restore_with_node` is the allocator
model's (`ClvmModel/Alloc.lean`) and C04's concern.
-/
import ClvmModel.Interp.Ops

namespace Clvm.Interp
open Clvm Clvm.Alloc

/-! ### traverse_path.rs -/

/-- `first_non_zero` -/
def firstNonZero : Bytes → Nat
  | [] => 0
  | b :: rest => if b.toNat == 0 then 1 + firstNonZero rest else 0

/-- `msb_mask` -/
def msbMask (byte : Nat) : Nat :=
  if byte ≥ 0x80 then 0x80 else if byte ≥ 0x40 then 0x40 else if byte ≥ 0x20 then 0x20
  else if byte ≥ 0x10 then 0x10 else if byte ≥ 0x08 then 0x08 else if byte ≥ 0x04 then 0x04
  else if byte ≥ 0x02 then 0x02 else if byte ≥ 0x01 then 0x01 else 0

/-- the bits tested by the loop of `traverse_path`, in the order tested: bytes from the last one
down to the first non-zero one, each least-significant bit first, stopping below `last_bitmask` -/
def bitsBelow (byte : Nat) (mask : Nat) : List Bool :=
  (List.range 8).filterMap (fun i => if 2 ^ i < mask then some (byte &&& 2 ^ i != 0) else none)

def pathBits (nodeIndex : Bytes) : List Bool :=
  let k := firstNonZero nodeIndex
  match nodeIndex.drop k with
  | [] => []
  | b0 :: rest =>
    (rest.reverse.flatMap (fun b => (List.range 8).map (fun i => b.toNat &&& 2 ^ i != 0)))
      ++ bitsBelow b0.toNat (msbMask b0.toNat)

def walk : List Bool → Val → (cost : Nat) → Except Err (Nat × Val)
  | [], v, cost => .ok (cost, v)
  | bit :: bits, v, cost =>
    match v with
    | .atom _ _ => .error .PathIntoAtom
    | .pair l r => walk bits (if bit then r else l) (cost + Gen.TRAVERSE_COST_PER_BIT)

/-- `traverse_path(allocator, node_index, args)` -/
def traversePath (nodeIndex : Bytes) (args : Val) : Except Err (Nat × Val) :=
  let k := firstNonZero nodeIndex
  let cost := Gen.TRAVERSE_BASE_COST + k * Gen.TRAVERSE_COST_PER_ZERO_BYTE + Gen.TRAVERSE_COST_PER_BIT
  if k ≥ nodeIndex.length then .ok (cost, Val.nil)
  else walk (pathBits nodeIndex) args cost

/-- loop of `traverse_path_fast` -/
def walkFast : Nat → Nat → Val → (numBits : Nat) → Except Err (Nat × Val)
  | 0, _, _, _ => .error (.Panic "fuel")
  | fuel + 1, nodeIndex, v, numBits =>
    if nodeIndex == 1 then .ok (numBits, v)
    else
      match v with
      | .atom _ _ => .error .PathIntoAtom
      | .pair l r => walkFast fuel (nodeIndex / 2) (if nodeIndex % 2 == 1 then r else l) (numBits + 1)

/-- `traverse_path_fast(allocator, node_index, args)` (`node_index : u32`) -/
def traversePathFast (nodeIndex : Nat) (args : Val) : Except Err (Nat × Val) :=
  if nodeIndex == 0 then .ok (Gen.TRAVERSE_BASE_COST + Gen.TRAVERSE_COST_PER_BIT, Val.nil)
  else
    match walkFast 33 nodeIndex args 0 with
    | .error e => .error e
    | .ok (numBits, v) =>
      let cost := Gen.TRAVERSE_BASE_COST + Gen.TRAVERSE_COST_PER_BIT + numBits * Gen.TRAVERSE_COST_PER_BIT
      let cost := if numBits == 7 || numBits == 15 || numBits == 23 || numBits == 31
                  then cost + Gen.TRAVERSE_COST_PER_ZERO_BYTE else cost
      .ok (cost, v)

/-! ### dialects -/

inductive OperatorSet where
  | Default
  | Bls
  | Keccak
  | PreHardFork
  deriving Repr, DecidableEq, Inhabited

structure Dialect where
  flags : Flags
  quoteKw : Nat
  applyKw : Nat
  softforkKw : Nat
  softforkExtension : Nat → OperatorSet
  gcCandidate : Val → Bool
  /-- `op(allocator, o, argument_list, max_cost, extension)`; `none` = an operator this model does
  not implement (the driver then answers `unsupported` and the case is skipped) -/
  op : Val → Val → Nat → OperatorSet → Ctr → Option (Except Err (Nat × Val × Ctr))
  allowUnknownOps : Bool

/-- operator functions by their Rust name; crypto operators are supplied separately -/
def coreOpByName (cfg : Cfg) : String → Option OpFn
  | "op_if" => some opIf
  | "op_cons" => some opCons
  | "op_first" => some opFirst
  | "op_rest" => some opRest
  | "op_listp" => some opListp
  | "op_raise" => some opRaise
  | "op_eq" => some opEq
  | "op_gr_bytes" => some opGrBytes
  | "op_sha256" => some (opSha256 cfg)
  | "op_substr" => some opSubstr
  | "op_strlen" => some opStrlen
  | "op_concat" => some opConcat
  | "op_add" => some (opAdd cfg)
  | "op_subtract" => some (opSubtract cfg)
  | "op_multiply" => some (opMultiply cfg)
  | "op_div" => some opDiv
  | "op_divmod" => some opDivmod
  | "op_gr" => some (opGr cfg)
  | "op_ash" => some opAsh
  | "op_lsh" => some opLsh
  | "op_logand" => some opLogand
  | "op_logior" => some opLogior
  | "op_logxor" => some opLogxor
  | "op_lognot" => some opLognot
  | "op_not" => some opNot
  | "op_any" => some opAny
  | "op_all" => some opAll
  | "op_modpow" => some opModpow
  | "op_mod" => some opMod
  | _ => none

/-- `unknown_operator` (chia_dialect.rs) -/
def unknownOperator (opBytes : Bytes) (args : Val) (flags : Flags) (maxCost : Nat) (c : Ctr) :
    Except Err (Nat × Val × Ctr) :=
  if hasFlag flags Gen.FLAG_NO_UNKNOWN_OPS then .error .Unimplemented
  else opUnknown opBytes flags maxCost args c

def lookupOp (table : List (Nat × String × Nat)) (op : Nat) : Option (String × Nat) :=
  (table.find? (fun e => e.1 == op)).map (fun e => e.2)

/-- `ChiaDialect::op`; `extra` supplies operator functions the core table does not have
(the cryptographic operators). -/
def chiaOp (cfg : Cfg) (extra : String → Option OpFn) (dflags : Flags) (o : Val) (args : Val) (maxCost : Nat)
    (ext : OperatorSet) (c : Ctr) : Option (Except Err (Nat × Val × Ctr)) :=
  let flags := dflags ||| (match ext with
    | .Default => 0
    | .Bls => 0
    | .Keccak => Gen.FLAG_ENABLE_KECCAK_OPS_OUTSIDE_GUARD
    | .PreHardFork => Gen.FLAG_ENABLE_KECCAK_OPS_OUTSIDE_GUARD)
  match o with
  | .pair _ _ => some (.error (.Panic "atom_len on pair"))
  | .atom ob _ =>
    let call (name : String) : Option (Except Err (Nat × Val × Ctr)) :=
      match coreOpByName cfg name with
      | some f => some (f flags maxCost args c)
      | none =>
        match extra name with
        | some f => some (f flags maxCost args c)
        | none => none
    if ob.length == 4 then
      match Gen.chiaOp4Table.find? (fun e => e.1 == beNat ob) with
      | some (_, name) => call name
      | none => some (unknownOperator ob args flags maxCost c)
    else if ob.length != 1 then some (unknownOperator ob args flags maxCost c)
    else
      match smallNumber o with
      | none => some (unknownOperator ob args flags maxCost c)
      | some op =>
        match lookupOp Gen.chiaOpTable op with
        | some (name, req) =>
          if req != 0 && !hasFlag flags req then some (unknownOperator ob args flags maxCost c)
          else if name == "op_modpow" && hasFlag flags Gen.FLAG_DISABLE_OP && !newModel flags then
            some (.error .Unimplemented)
          else call name
        | none => some (unknownOperator ob args flags maxCost c)

/-- `ChiaDialect::new(flags)` -/
def chiaDialect (cfg : Cfg) (extra : String → Option OpFn) (flags0 : Flags) : Dialect :=
  let flags := if hasFlag flags0 Gen.FLAG_NEW_COST_MODEL && hasFlag flags0 Gen.FLAG_LIMITS
    then flags0 - Gen.FLAG_LIMITS     -- `flags.remove(ClvmFlags::LIMITS)`
    else flags0
  { flags := flags
    quoteKw := Gen.chia_quote_kw
    applyKw := Gen.chia_apply_kw
    softforkKw := Gen.chia_softfork_kw
    softforkExtension := fun ext =>
      if hasFlag flags Gen.FLAG_NEW_COST_MODEL then
        (if ext == 0 || ext == 1 then .PreHardFork else .Default)
      else (if ext == 0 then .Bls else if ext == 1 then .Keccak else .Default)
    gcCandidate := fun op =>
      if !hasFlag flags Gen.FLAG_ENABLE_GC then false
      else match node op with
        | .u32 v => Gen.gcCandidates.contains v
        | _ => false
    op := chiaOp cfg extra flags
    allowUnknownOps := !hasFlag flags Gen.FLAG_NO_UNKNOWN_OPS }

/-- `RuntimeDialect::new(op_map, quote_kw, apply_kw, flags)`: `opMap` is the operator-name table
(name ↦ opcode bytes); only one-byte opcodes are installed (`f_lookup_for_hashmap`), and an unknown
name is an `assert!` failure at construction. -/
def runtimeDialect (cfg : Cfg) (extra : String → Option OpFn) (opMap : List (String × Bytes))
    (quoteKw applyKw : Nat) (flags : Flags) : Dialect :=
  let fLookup (b : Nat) : Option String :=
    (opMap.find? (fun e => e.2.length == 1 && beNat e.2 == b)).bind
      (fun e => (Gen.fTableNames.find? (fun n => n.1 == e.1)).map (fun n => n.2))
  { flags := flags
    quoteKw := quoteKw
    applyKw := applyKw
    softforkKw := 36
    softforkExtension := fun _ => .Default
    gcCandidate := fun _ => false
    op := fun o args maxCost _ c =>
      match o with
      | .pair _ _ => some (.error (.Panic "expected atom, got pair"))
      | .atom b _ =>
        let known : Option String := if b.length == 1 then fLookup (beNat b) else none
        match known with
        | some name =>
          (match coreOpByName cfg name with
           | some f => some (f flags maxCost args c)
           | none => (extra name).map (fun f => f flags maxCost args c))
        | none =>
          if hasFlag flags Gen.FLAG_NO_UNKNOWN_OPS then some (.error .Unimplemented)
          else some (opUnknown b flags maxCost args c)
    allowUnknownOps := !hasFlag flags Gen.FLAG_NO_UNKNOWN_OPS }

/-! ### run_program.rs -/

inductive Operation where
  | Apply
  | Cons
  | ExitGuard
  | SwapEval
  | RestoreAllocator
  deriving Repr, DecidableEq, Inhabited

structure SoftforkGuard where
  expectedCost : Nat
  /-- `allocator_state: Checkpoint` — what `restore_checkpoint` resets the counters to -/
  allocatorState : Ctr
  operatorSet : OperatorSet
  deriving Repr, Inhabited

def SoftforkGuard.costExempt (g : SoftforkGuard) : Bool := g.operatorSet == .PreHardFork

structure MState where
  valStack : List Val := []
  valLen : Nat := 0
  envStack : List Val := []
  envLen : Nat := 0
  opStack : List Operation := []
  softforkStack : List SoftforkGuard := []
  /-- number of pending transparent checkpoints (`allocator_stack.len()`) -/
  allocatorStack : Nat := 0
  ctr : Ctr
  deriving Inhabited

/-- the machine can stop for an operator the model does not implement -/
inductive Stop where
  | err (e : Err)
  | unsupported
  deriving Repr, Inhabited

abbrev M := Except Stop

def liftE {α} : Except Err α → M α
  | .ok a => .ok a
  | .error e => .error (.err e)

namespace MState

/-- `pop` -/
def pop (s : MState) : M (Val × MState) :=
  match s.valStack with
  | [] => .error (.err (.InternalError "value stack empty"))
  | v :: vs => .ok (v, { s with valStack := vs, valLen := s.valLen - 1 })

/-- `push` -/
def push (s : MState) (v : Val) : M MState :=
  if s.valLen == Gen.STACK_SIZE_LIMIT then .error (.err .ValueStackLimitReached)
  else .ok { s with valStack := v :: s.valStack, valLen := s.valLen + 1 }

/-- `push_env` -/
def pushEnv (s : MState) (v : Val) : M MState :=
  if s.envLen == Gen.STACK_SIZE_LIMIT then .error (.err .EnvironmentStackLimitReached)
  else .ok { s with envStack := v :: s.envStack, envLen := s.envLen + 1 }

def pushOp (s : MState) (o : Operation) : MState := { s with opStack := o :: s.opStack }

end MState

/-- `cons_op` -/
def consOp (s : MState) : M (Nat × MState) := do
  let (v1, s) ← s.pop
  let (v2, s) ← s.pop
  let (p, c) ← liftE (allocPair s.ctr v1 v2)
  let s ← { s with ctr := c }.push p
  pure (0, s)

/-- the `while let SExp::Pair(first, rest) = sexp(operands)` loop of `eval_op_atom` -/
def pushOperands : Val → MState → M (Val × MState)
  | .pair f r, s => do
    let s ← (s.pushOp .SwapEval).push f
    pushOperands r s
  | v, s => pure (v, s)

/-- `eval_op_atom` -/
def evalOpAtom (d : Dialect) (s : MState) (operatorNode operandList env : Val) : M (Nat × MState) :=
  if smallNumber operatorNode == some d.quoteKw then do
    let s ← s.push operandList
    pure (Gen.QUOTE_COST, s)
  else do
    let s := if d.gcCandidate operatorNode
      then ({ s with allocatorStack := s.allocatorStack + 1 }.pushOp .RestoreAllocator) else s
    let s ← s.pushEnv env
    let s := s.pushOp .Apply
    let s ← s.push operatorNode
    let (term, s) ← pushOperands operandList s
    match term with
    | .atom b _ =>
      if b.length != 0 then .error (.err .InvalidNilTerminator)
      else do
        let s ← s.push Val.nil
        pure (Gen.OP_COST, s)
    | .pair _ _ => .error (.err (.Panic "unreachable"))

/-- `eval_pair` -/
def evalPair (cfg : Cfg) (d : Dialect) (s : MState) (program env : Val) : M (Nat × MState) :=
  match program with
  | .atom b inl => do
    let r ← liftE (
      if cfg.fastpath then
        match node (.atom b inl) with
        | .buffer buf => traversePath buf env
        | .u32 val => traversePathFast val env
        | .pair _ _ => .error (.InvalidOpArg "expected atom, got pair")
      else traversePath b env)
    let s ← s.push r.2
    pure (r.1, s)
  | .pair opNode opList =>
    match opNode with
    | .pair newOperator _ => do
      let inner ← liftE (getArgs1 opNode "in the ((X)...) syntax, the inner list")
      if inner.isPair then .error (.err (.InvalidOpArg "in ((X)...) syntax X must be lone atom"))
      else do
        let s ← s.pushEnv env
        let s ← s.push newOperator
        let s ← s.push opList
        pure (Gen.APPLY_COST, s.pushOp .Apply)
    | .atom _ _ => evalOpAtom d s opNode opList env

/-- `swap_eval_op` -/
def swapEvalOp (cfg : Cfg) (d : Dialect) (s : MState) : M (Nat × MState) := do
  let (v2, s) ← s.pop
  let (program, s) ← s.pop
  match s.envStack with
  | [] => .error (.err (.InternalError "environment stack empty"))
  | env :: _ => do
    let s ← s.push v2
    evalPair cfg d (s.pushOp .Cons) program env

/-- `parse_softfork_arguments` -/
def parseSoftforkArguments (d : Dialect) (args : Val) : Except Err (OperatorSet × Val × Val) :=
  match getArgs4 args "softfork" with
  | .error e => .error e
  | .ok (_, extension, program, env) =>
    match uintAtom 4 extension "softfork" d.flags with
    | .error e => .error e
    | .ok ext =>
      let e := d.softforkExtension ext
      if e == .Default then .error .UnknownSoftforkExtension else .ok (e, program, env)

/-- `apply_op(current_cost, max_cost)` -/
def applyOp (cfg : Cfg) (d : Dialect) (s : MState) (currentCost maxCost : Nat) : M (Nat × MState) := do
  let (operandList, s) ← s.pop
  let (operator, s) ← s.pop
  match s.envStack with
  | [] => .error (.err (.InternalError "environment stack empty"))
  | _ :: envs =>
    let s := { s with envStack := envs, envLen := s.envLen - 1 }
    let opAtom := smallNumber operator
    if opAtom == some d.applyKw then do
      let (newOperator, env) ← liftE (getArgs2 operandList "apply")
      let (c, s) ← evalPair cfg d s newOperator env
      pure (c + Gen.APPLY_COST, s)
    else if opAtom == some d.softforkKw then do
      let f ← liftE (first operandList)
      let expectedCost ← liftE (uintAtom 8 f "softfork" d.flags)
      if expectedCost > maxCost then .error (.err .CostExceeded)
      else if expectedCost == 0 then .error (.err .CostExceeded)
      else
        match parseSoftforkArguments d operandList with
        | .error err =>
          if d.allowUnknownOps then do
            let s ← s.push Val.nil
            pure (expectedCost, s)
          else .error (.err err)
        | .ok (ext, prg, env) =>
          if hasFlag d.flags Gen.FLAG_LIMIT_SOFTFORK && s.softforkStack.length ≥ Gen.softforkNestingLimit then
            .error (.err .SoftforkStackDepthExceeded)
          else do
            let expected :=
              if ext == .PreHardFork then
                match s.softforkStack with
                | sf :: _ => sf.expectedCost
                | [] => currentCost + maxCost
              else currentCost + expectedCost
            let g : SoftforkGuard := { expectedCost := expected, allocatorState := s.ctr, operatorSet := ext }
            let s := { s with softforkStack := g :: s.softforkStack }.pushOp .ExitGuard
            let guardCost := if hasFlag d.flags Gen.FLAG_NEW_COST_MODEL then Gen.NEW_GUARD_COST else Gen.GUARD_COST
            let (c, s) ← evalPair cfg d s prg env
            pure (c + guardCost, s)
    else
      let currentExtensions := match s.softforkStack with
        | sf :: _ => sf.operatorSet
        | [] => .Default
      match d.op operator operandList maxCost currentExtensions s.ctr with
      | none => .error .unsupported
      | some (.error e) => .error (.err e)
      | some (.ok (cost, v, c)) => do
        let s ← { s with ctr := c }.push v
        pure (cost, s)

/-- `exit_guard(current_cost)` -/
def exitGuard (s : MState) (currentCost : Nat) : M (Nat × MState) :=
  match s.softforkStack with
  | [] => .error (.err (.Panic "internal error. exiting a softfork that's already been popped"))
  | guard :: rest =>
    let s := { s with softforkStack := rest }
    if !guard.costExempt && currentCost != guard.expectedCost then .error (.err .SoftforkCostMismatch)
    else
      -- `restore_checkpoint`: counts go back to their values at guard entry
      let s := { s with ctr := { guard.allocatorState with heapLimit := s.ctr.heapLimit } }
      match s.valStack with
      | [] => .error (.err (.Panic "internal error, softfork program did not push value onto stack"))
      | _ :: vs => do
        let s ← { s with valStack := vs, valLen := s.valLen - 1 }.push Val.nil
        pure (0, s)

/-- the main loop of `run_program`; `none` = the model ran out of fuel -/
def runLoop (cfg : Cfg) (d : Dialect) (maxCost : Nat) : Nat → MState → (cost : Nat) → Option (M (Nat × MState))
  | 0, _, _ => none
  | fuel + 1, s, cost =>
    let effectiveMaxCost := match s.softforkStack with
      | sf :: _ => sf.expectedCost
      | [] => maxCost
    if cost > effectiveMaxCost then some (.error (.err .CostExceeded))
    else
      match s.opStack with
      | [] => some (.ok (cost, s))
      | op :: ops =>
        let s := { s with opStack := ops }
        let r : M (Nat × MState) :=
          match op with
          | .Apply => applyOp cfg d s cost (effectiveMaxCost - cost)
          | .ExitGuard => exitGuard s cost
          | .Cons => consOp s
          | .SwapEval => swapEvalOp cfg d s
          | .RestoreAllocator =>
            if s.allocatorStack == 0 then .error (.err (.InternalError "allocator checkpoint stack empty"))
            else if s.valStack.isEmpty then .error (.err (.InternalError "value stack empty"))
            else .ok (0, { s with allocatorStack := s.allocatorStack - 1 })
        match r with
        | .error e => some (.error e)
        | .ok (c, s') => runLoop cfg d maxCost fuel s' (cost + c)

/-- outcome of `run_program` together with the allocator counters afterwards -/
structure RunResult where
  result : Except Err (Nat × Val)
  ctr : Ctr

/-- `run_program(allocator, dialect, program, env, max_cost)`; `none` = out of fuel or an
unsupported operator.  On failure the counters are those at the point of failure. -/
def runProgram (cfg : Cfg) (d : Dialect) (fuel : Nat) (c0 : Ctr) (program env : Val) (maxCost0 : Nat) :
    Option (Except Err (Nat × Val × Ctr)) :=
  let maxCost := if maxCost0 == 0 then U64_MAX else maxCost0
  match c0.addGhostAtom 1 with
  | .error e => some (.error e)
  | .ok c =>
    let s : MState := { ctr := c }
    match evalPair cfg d s program env with
    | .error (.err e) => some (.error e)
    | .error .unsupported => none
    | .ok (cost, s) =>
      match runLoop cfg d maxCost fuel s cost with
      | none => none
      | some (.error (.err e)) => some (.error e)
      | some (.error .unsupported) => none
      | some (.ok (cost, s)) =>
        match s.pop with
        | .error (.err e) => some (.error e)
        | .error .unsupported => none
        | .ok (v, s) => some (.ok (cost, v, s.ctr))

end Clvm.Interp
