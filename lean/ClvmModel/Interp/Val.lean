/-
Interpreter layer: values with a representation tag, allocator counters, flags.

`Val` is `Tree` plus one bit per atom: `inl = true` means the node is an *inline small atom*
(`ObjectType::SmallAtom`), `false` a heap atom (`ObjectType::Bytes`: own bytes, a substring view,
or a multi-term concatenation).  The tag is what `Allocator::node` (`NodeVisitor::U32` vs
`Buffer`) exposes; `Val.erase` forgets it.  Tags are created by the allocator's own rules:
`new_atom`/`new_number`/… ⇒ inline iff `fits_in_small_atom`; `new_substr` of a heap atom and
`new_concat` of ≥ 2 terms ⇒ heap even when the bytes are a small canonical integer.
-/
import ClvmModel.Tree
import ClvmModel.Alloc.IntEnc
import ClvmModel.Gen.Allocator
import ClvmModel.Gen.Dialect

namespace Clvm.Interp
open Clvm Clvm.Alloc

inductive Val where
  | atom (b : Bytes) (inl : Bool)
  | pair (l r : Val)
  deriving Repr, DecidableEq, Inhabited

namespace Val

/-- `Allocator::nil()` / `NodePtr::NIL`: the inline small atom 0 -/
def nil : Val := .atom [] true
/-- `Allocator::one()` -/
def one : Val := .atom [1] true

def erase : Val → Tree
  | .atom b _ => .atom b
  | .pair l r => .pair l.erase r.erase

/-- the tag `new_atom` gives to these bytes -/
def newAtomTag (b : Bytes) : Bool := (fitsInSmallAtom b).isSome

/-- result of `new_atom(b)` -/
def mkAtom (b : Bytes) : Val := .atom b (newAtomTag b)

/-- a tree whose atoms were all created with `new_atom` (e.g. by `node_from_bytes`) -/
def ofTree : Tree → Val
  | .atom b => mkAtom b
  | .pair l r => .pair (ofTree l) (ofTree r)

/-- explicit tags, one letter per atom in pre-order (`S` inline as `new_atom` would choose when
possible, `H` heap, anything else / exhausted = whatever `new_atom` chooses); returns the rest -/
def ofTreeTagged : Tree → List Char → Val × List Char
  | .atom b, tags =>
    match tags with
    | 'H' :: ts => if b.length ≥ 1 then (.atom b false, ts) else (mkAtom b, ts)
    | 'E' :: ts => (.atom b false, ts)  -- a substring view of any length, including the empty one
    | _ :: ts => (mkAtom b, ts)
    | [] => (mkAtom b, [])
  | .pair l r, tags =>
    let (l', t1) := ofTreeTagged l tags
    let (r', t2) := ofTreeTagged r t1
    (.pair l' r', t2)

/-- representation invariant: an inline small atom holds the canonical bytes of a value < 2^26
(the only way the allocator creates one) -/
def wf : Val → Bool
  | .atom b true => (fitsInSmallAtom b).isSome
  | .atom _ false => true
  | .pair l r => l.wf && r.wf

/-- `SExp::Pair` -/
def isPair : Val → Bool
  | .pair _ _ => true
  | _ => false

/-- `Allocator::next` -/
def next : Val → Option (Val × Val)
  | .pair l r => some (l, r)
  | _ => none

/-- `op_utils::nilp` -/
def nilp : Val → Bool
  | .atom b _ => b.isEmpty
  | _ => false

/-- `input == NodePtr::NIL` (pointer equality with the inline zero atom) -/
def isNilPtr : Val → Bool
  | .atom b true => b.isEmpty
  | _ => false

end Val

/-- `Allocator::node`: what a visitor sees -/
inductive View where
  | u32 (v : Nat)
  | buffer (b : Bytes)
  | pair (l r : Val)

def node : Val → View
  | .atom b true => .u32 (beNat b)
  | .atom b false => .buffer b
  | .pair l r => .pair l r

/-- `Allocator::small_number` -/
def smallNumber : Val → Option Nat
  | .atom b true => some (beNat b)
  | .atom b false => fitsInSmallAtom b
  | .pair _ _ => none

/-! ### flags -/

abbrev Flags := Nat

def hasFlag (flags : Flags) (bit : Nat) : Bool := flags &&& bit != 0

/-! ### allocator counters (`atom_count`, `pair_count`, `heap_size`, heap limit) -/

structure Ctr where
  atoms : Nat
  pairs : Nat
  heap : Nat
  heapLimit : Nat
  deriving Repr, DecidableEq, Inhabited

namespace Ctr

/-- `Allocator::new_limited(limit)` -/
def new (limit : Nat) : Ctr :=
  { atoms := Gen.initGhostAtoms, pairs := Gen.initGhostPairs, heap := Gen.initGhostHeap, heapLimit := limit }

/-- `check_atom_limit` -/
def checkAtomLimit (c : Ctr) : Except Err Unit :=
  if c.atoms == Gen.maxNumAtoms then .error .TooManyAtoms else .ok ()

/-- accounting of `new_atom` / `new_small_number` / `new_number` … for `len` bytes:
heap check first, then the atom limit -/
def newAtom (c : Ctr) (len : Nat) : Except Err Ctr :=
  if c.heap + len > c.heapLimit then .error .OutOfMemory
  else match c.checkAtomLimit with
    | .error e => .error e
    | .ok () => .ok { c with atoms := c.atoms + 1, heap := c.heap + len }

/-- `new_pair` -/
def newPair (c : Ctr) : Except Err Ctr :=
  if c.pairs ≥ Gen.maxNumPairs then .error .TooManyPairs
  else .ok { c with pairs := c.pairs + 1 }

/-- `add_ghost_atom(n)` -/
def addGhostAtom (c : Ctr) (n : Nat) : Except Err Ctr :=
  if Gen.maxNumAtoms - c.atoms < n then .error .TooManyAtoms
  else .ok { c with atoms := c.atoms + n }

end Ctr

/-- allocate `new_atom(b)`: the value and the updated counters -/
def allocAtom (c : Ctr) (b : Bytes) : Except Err (Val × Ctr) :=
  match c.newAtom b.length with
  | .error e => .error e
  | .ok c' => .ok (Val.mkAtom b, c')

/-- `new_number(v)` (also `new_malachite_number`): small values take the `new_small_number` path,
which has the same checks and accounting as `new_atom` of the minimal encoding -/
def allocNumber (c : Ctr) (v : Int) : Except Err (Val × Ctr) := allocAtom c (encodeInt v)

/-- `new_pair(l, r)` -/
def allocPair (c : Ctr) (l r : Val) : Except Err (Val × Ctr) :=
  match c.newPair with
  | .error e => .error e
  | .ok c' => .ok (.pair l r, c')

end Clvm.Interp
