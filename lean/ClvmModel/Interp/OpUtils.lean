/-
Model of `src/op_utils.rs` and `src/cost.rs`.
-/
import ClvmModel.Interp.Val
import ClvmModel.Gen.Costs

namespace Clvm.Interp
open Clvm Clvm.Alloc

/-- an operator: flags, remaining budget, argument list, allocator counters ↦
(cost, result, counters) — `fn(&mut Allocator, NodePtr, Cost, ClvmFlags) -> Response` -/
abbrev OpFn := Flags → Nat → Val → Ctr → Except Err (Nat × Val × Ctr)

def U64_MAX : Nat := 2 ^ 64 - 1

/-- `check_cost` -/
def checkCost (cost maxCost : Nat) : Except Err Unit :=
  if cost > maxCost then .error .CostExceeded else .ok ()

/-- `checked_add(..).ok_or(CostExceeded)` on `u64` -/
def ckAdd (a b : Nat) : Except Err Nat :=
  if a + b > U64_MAX then .error .CostExceeded else .ok (a + b)

/-- `checked_mul(..).ok_or(CostExceeded)` on `u64` -/
def ckMul (a b : Nat) : Except Err Nat :=
  if a * b > U64_MAX then .error .CostExceeded else .ok (a * b)

/-- the argument nodes visited by `while let Some((first, rest)) = a.next(next)` -/
def argList : Val → List Val
  | .pair f r => f :: argList r
  | _ => []

/-- `match_args::<N>` -/
def matchArgs (n : Nat) (args : Val) : Option (List Val) :=
  let l := argList args
  if l.length == n then some l else none

/-- `get_args::<N>` -/
def getArgs (n : Nat) (args : Val) (name : String) : Except Err (List Val) :=
  match matchArgs n args with
  | some l => .ok l
  | none => .error (.InvalidOpArg s!"{name} takes exactly {n} argument(s)")

def getArgs1 (args : Val) (name : String) : Except Err Val :=
  match getArgs 1 args name with
  | .ok [a] => .ok a
  | .ok _ => .error (.Panic "get_args arity")
  | .error e => .error e

def getArgs2 (args : Val) (name : String) : Except Err (Val × Val) :=
  match getArgs 2 args name with
  | .ok [a, b] => .ok (a, b)
  | .ok _ => .error (.Panic "get_args arity")
  | .error e => .error e

def getArgs3 (args : Val) (name : String) : Except Err (Val × Val × Val) :=
  match getArgs 3 args name with
  | .ok [a, b, c] => .ok (a, b, c)
  | .ok _ => .error (.Panic "get_args arity")
  | .error e => .error e

def getArgs4 (args : Val) (name : String) : Except Err (Val × Val × Val × Val) :=
  match getArgs 4 args name with
  | .ok [a, b, c, d] => .ok (a, b, c, d)
  | .ok _ => .error (.Panic "get_args arity")
  | .error e => .error e

/-- `get_varargs::<N>`: the arguments (at most `n`) and their number -/
def getVarargs (n : Nat) (args : Val) (name : String) : Except Err (List Val) :=
  let l := argList args
  if l.length > n then .error (.InvalidOpArg s!"{name} takes no more than {n} arguments")
  else .ok l

/-- `op_utils::atom_len` -/
def atomLen (v : Val) (opName : String) : Except Err Nat :=
  match v with
  | .atom b _ => .ok b.length
  | .pair _ _ => .error (.InvalidOpArg s!"{opName} requires an atom")

/-- `op_utils::atom` (the bytes of an atom; `Atom::U32` denotes the same bytes) -/
def atomBytes (v : Val) (opName : String) : Except Err Bytes :=
  match v with
  | .atom b _ => .ok b
  | .pair _ _ => .error (.InvalidOpArg s!"{opName} used on list")

/-- `int_atom`: `(a.number(args), a.atom_len(args))` -/
def intAtom (v : Val) (opName : String) : Except Err (Int × Nat) :=
  match v with
  | .atom b true => .ok ((beNat b : Int), lenForValue (beNat b))
  | .atom b false => .ok (decodeInt b, b.length)
  | .pair _ _ => .error (.InvalidOpArg s!"Requires Int Argument: {opName}")

/-- `malachite_int_atom` -/
def malachiteIntAtom (v : Val) (opName : String) : Except Err (Int × Nat) :=
  match node v with
  | .buffer buf => .ok (decodeInt buf, buf.length)
  | .u32 val => .ok ((val : Int), lenForValue val)
  | .pair _ _ => .error (.InvalidOpArg s!"Requires Int Argument: {opName}")

/-- `while !buf.is_empty() && buf[0] == 0 { buf = &buf[1..] }` -/
def stripZeros : Bytes → Bytes
  | [] => []
  | x :: rest => if x.toNat == 0 then stripZeros rest else x :: rest

/-- `uint_atom::<SIZE>` -/
def uintAtom (size : Nat) (v : Val) (opName : String) (flags : Flags) : Except Err Nat :=
  match node v with
  | .buffer bytes =>
    match bytes with
    | [] => .ok 0
    | b0 :: rest =>
      if b0.toNat &&& 0x80 != 0 then .error (.InvalidOpArg s!"{opName} requires positive int arg")
      else
        let stripped : Except Err Bytes :=
          if hasFlag flags Gen.FLAG_CANONICAL_INTS then
            if b0.toNat == 0 then
              match rest with
              | [] => .error (.InvalidOpArg s!"{opName} requires u{size * 8} arg with no leading zeros")
              | b1 :: _ =>
                if b1.toNat &&& 0x80 == 0 then
                  .error (.InvalidOpArg s!"{opName} requires u{size * 8} arg with no leading zeros")
                else .ok rest
            else .ok bytes
          else .ok (stripZeros bytes)
        match stripped with
        | .error e => .error e
        | .ok buf =>
          if buf.length > size then
            .error (.InvalidOpArg s!"{opName} requires u{size * 8} arg (with no leading zeros)")
          else .ok (beNat buf)
  | .u32 val => .ok val
  | .pair _ _ => .error (.InvalidOpArg s!"Requires Int Argument: {opName}")

/-- `u32_from_u8_impl(buf, signed)` as an unsigned 32-bit pattern -/
def u32FromU8Impl (buf : Bytes) (signed : Bool) : Option Nat :=
  match buf with
  | [] => some 0
  | b0 :: _ =>
    if buf.length > 4 then none
    else
      let signExtend := b0.toNat &&& 0x80 != 0
      if signed && signExtend then some (2 ^ 32 - 256 ^ buf.length + beNat buf)
      else some (beNat buf)

/-- `u32_from_u8` -/
def u32FromU8 (buf : Bytes) : Option Nat := u32FromU8Impl buf false

/-- `i32_from_u8`: `v as i32` -/
def i32FromU8 (buf : Bytes) : Option Int :=
  (u32FromU8Impl buf true).map (fun v => if v ≥ 2 ^ 31 then (v : Int) - 2 ^ 32 else (v : Int))

/-- `i32_atom` -/
def i32Atom (v : Val) (opName : String) : Except Err Int :=
  match node v with
  | .buffer buf =>
    match i32FromU8 buf with
    | some x => .ok x
    | none => .error (.InvalidOpArg s!"{opName} requires int32 args (with no leading zeros)")
  | .u32 val => .ok (val : Int)    -- `val as i32`, val < 2^26
  | .pair _ _ => .error (.InvalidOpArg s!"{opName} requires int32 args (with no leading zeros)")

/-- `new_atom_and_cost` -/
def newAtomAndCost (c : Ctr) (cost : Nat) (buf : Bytes) : Except Err (Nat × Val × Ctr) :=
  match allocAtom c buf with
  | .error e => .error e
  | .ok (v, c') => .ok (cost + buf.length * Gen.MALLOC_COST_PER_BYTE, v, c')

/-- `malloc_cost(a, cost, ptr)`: `cost + atom_len(ptr) * MALLOC_COST_PER_BYTE` -/
def mallocCost (cost : Nat) (v : Val) : Nat :=
  match v with
  | .atom b _ => cost + b.length * Gen.MALLOC_COST_PER_BYTE
  | .pair _ _ => cost   -- `atom_len` panics on a pair; never called on one

/-- `op_utils::first` -/
def first (v : Val) : Except Err Val :=
  match v with
  | .pair f _ => .ok f
  | _ => .error (.InvalidOpArg "first of non-cons")

/-- `op_utils::rest` -/
def rest (v : Val) : Except Err Val :=
  match v with
  | .pair _ r => .ok r
  | _ => .error (.InvalidOpArg "rest of non-cons")

/-- magnitude bytes of a `Number`: `bits().div_ceil(8)` -/
def limbs (v : Int) : Nat := (natBE v.natAbs).length

end Clvm.Interp
