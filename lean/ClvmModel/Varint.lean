/-
Model of `src/serde_2026/varint.rs` (`write_varint`, `varint_size`, `read_varint`).

Transcription rules: the `for leading_ones in 0..8` loops are structural
recursion over the candidate list `[0,…,7]`; `i64`/`u64` values are `Int`/`Nat`
(all intermediate values are < 2^63 for inputs the Rust code does not panic on,
so no wrap-around is involved); `as u8` is `% 256`; the panic of `write_varint`
/`varint_size` on out-of-range values is the explicit outcome `none`.
-/
import ClvmModel.Basic

namespace Clvm.Varint

/-- `total_value_bits = 7 + 7 * leading_ones` -/
def totalBits (k : Nat) : Nat := 7 + 7 * k

/-- `value >= min_value && value <= max_value` for `leading_ones = k`. -/
def fits (k : Nat) (v : Int) : Bool :=
  decide (-(2 : Int) ^ (totalBits k - 1) ≤ v) && decide (v ≤ (2 : Int) ^ (totalBits k - 1) - 1)

/-- the loop `for leading_ones in k..k+n` of `varint_size` / `write_varint`:
the first candidate for which the value fits (`none`: loop fell through). -/
def firstFitFrom (v : Int) (k : Nat) : Nat → Option Nat
  | 0 => none
  | n + 1 => if fits k v then some k else firstFitFrom v (k + 1) n

/-- `for leading_ones in 0..8` -/
def firstFit (v : Int) : Option Nat := firstFitFrom v 0 8

/-- `varint_size`; `none` is the Rust panic. -/
def varintSize (v : Int) : Option Nat := (firstFit v).map (· + 1)

/-- `((1u8 << k) - 1) << (8 - k)` for `k > 0`, else `0`. -/
def prefixByte (k : Nat) : Nat :=
  if k > 0 then ((1 <<< k) - 1) <<< (8 - k) else 0

/-- the `for i in (0..leading_ones).rev()` loop: bytes `(u >> 8i) as u8` for i = k-1 … 0 -/
def tailBytes (u : Nat) : Nat → Bytes
  | 0 => []
  | i + 1 => UInt8.ofNat ((u >>> (i * 8)) % 256) :: tailBytes u i

/-- two's complement of `v` on `totalBits k` bits (as computed on `i64`). -/
def toUnsigned (k : Nat) (v : Int) : Nat :=
  if v < 0 then (v + (2 : Int) ^ totalBits k).toNat else v.toNat

/-- bytes written for the `total_value_bits`-bit pattern `u` with `k` leading ones. -/
def encodeRaw (k : Nat) (u : Nat) : Bytes :=
  let highBits := (u >>> (k * 8)) % 256
  UInt8.ofNat ((prefixByte k ||| highBits) % 256) :: tailBytes u k

/-- body of the loop of `write_varint` once `leading_ones = k` is chosen. -/
def encodeWith (k : Nat) (v : Int) : Bytes := encodeRaw k (toUnsigned k v)

/-- `write_varint`; `none` is the Rust panic ("Value too large to encode"). -/
def writeVarint (v : Int) : Option Bytes :=
  (firstFit v).map (fun k => encodeWith k v)

/-- `(!first_byte).leading_zeros()` on a `u8`. -/
def leadingOnes (b : Nat) : Nat :=
  if b < 0x80 then 0 else if b < 0xC0 then 1 else if b < 0xE0 then 2 else if b < 0xF0 then 3
  else if b < 0xF8 then 4 else if b < 0xFC then 5 else if b < 0xFE then 6 else if b < 0xFF then 7
  else 8

/-- `for &byte in extra { u = (u << 8) | byte }` -/
def foldBytes (u : Nat) : Bytes → Nat
  | [] => u
  | b :: bs => foldBytes ((u <<< 8) ||| b.toNat) bs

/-- first half of `read_varint`: prefix length `k`, the raw `total_value_bits`-bit
pattern, and the unread remainder. -/
def readRaw (inp : Bytes) : Except Err (Nat × Nat × Bytes) :=
  match inp with
  | [] => .error .SerializationError
  | first :: rest =>
    let k := leadingOnes first.toNat
    if k ≥ 8 then .error .SerializationError
    else
      let bitsInFirst := 7 - k
      let mask := (1 <<< bitsInFirst) - 1
      let u0 := first.toNat &&& mask
      if rest.length < k then .error .SerializationError
      else .ok (k, foldBytes u0 (rest.take k), rest.drop k)

/-- "Convert from two's complement to signed". -/
def fromUnsigned (k : Nat) (u : Nat) : Int :=
  let signBit := 1 <<< (totalBits k - 1)
  if u ≥ signBit then (u : Int) - (2 : Int) ^ totalBits k else (u : Int)

/-- `read_varint(r, strict)` on a cursor positioned at the start of `inp`; returns
the value and the unread remainder. -/
def readVarint (strict : Bool) (inp : Bytes) : Except Err (Int × Bytes) :=
  match readRaw inp with
  | .error e => .error e
  | .ok (k, u, rest) =>
    let value := fromUnsigned k u
    if strict && varintSize value != some (k + 1) then .error .SerializationError
    else .ok (value, rest)

end Clvm.Varint
