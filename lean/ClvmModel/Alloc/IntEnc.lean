/-
Layer 0 for the allocator: byte strings ↔ integers.

* `decodeInt` / `encodeInt` are the *specification* (two's complement, big endian, minimal).
* `fitsInSmallAtomE`, `lenForValue`, `u64Start`, `i64Start`, `toSignedBytesBE`, `stripLeadingZeros`
  are *transcriptions* of `src/allocator.rs` (`fits_in_small_atom`, `len_for_value`, the ladders
  of `new_u64` / `new_i64`, the loop of `new_number`) and of num-bigint 0.4.6
  `bigint/convert.rs` (`to_signed_bytes_be`, `twos_complement`).  That they agree with the
  specification is proved in `ClvmProofs/Lemmas/AllocInt.lean` (property C14).
-/
import ClvmModel.Basic
import ClvmModel.Gen.Allocator

namespace Clvm.Alloc
open Clvm

/-! ### specification -/

/-- big-endian unsigned value of a byte string -/
def beNat (b : Bytes) : Nat := b.foldl (fun a x => a * 256 + x.toNat) 0

/-- `number_from_u8` / `BigInt::from_signed_bytes_be`: empty ↦ 0, otherwise two's complement. -/
def decodeInt (b : Bytes) : Int :=
  match b with
  | [] => 0
  | x :: _ => if 128 ≤ x.toNat then (beNat b : Int) - (256 : Int) ^ b.length else (beNat b : Int)

/-- shortest *non-empty* two's complement big-endian encoding -/
def encodeNE (v : Int) : Bytes :=
  if -128 ≤ v ∧ v < 128 then [UInt8.ofNat (v % 256).toNat]
  else encodeNE (v / 256) ++ [UInt8.ofNat (v % 256).toNat]
termination_by v.natAbs
decreasing_by omega

/-- the minimal two's complement big-endian encoding (`0 ↦ []`) -/
def encodeInt (v : Int) : Bytes := if v = 0 then [] else encodeNE v

/-- no redundant leading `00` / `ff` byte, and zero is the empty string -/
def canonical : Bytes → Bool
  | [] => true
  | [x] => x.toNat != 0
  | x :: y :: _ => !(x.toNat == 0 && y.toNat < 128) && !(x.toNat == 255 && 128 ≤ y.toNat)

/-! ### `fits_in_small_atom`, `len_for_value` -/

/-- the loop `ret <<= 8; ret |= b` (on values that fit: no bits are lost) -/
def shiftOrFold (b : Bytes) : Nat := b.foldl (fun a x => (a <<< 8) ||| x.toNat) 0

/-- `fits_in_small_atom`, literal: `v[1]` on a one-byte slice would be an index panic. -/
def fitsInSmallAtomE (v : Bytes) : Except Err (Option Nat) :=
  match v with
  | [] => .ok (some (shiftOrFold v))
  | v0 :: rest =>
    if v.length > 4 then .ok none
    else if v.length == 1 && v0.toNat == 0 then .ok none
    else if v0.toNat &&& 0x80 != 0 then .ok none
    else
      -- `v[0] == 0 && (v[1] & 0x80) == 0`
      let c4 : Except Err Bool :=
        if v0.toNat == 0 then
          match rest with
          | v1 :: _ => .ok (v1.toNat &&& 0x80 == 0)
          | [] => .error (.Panic "index out of bounds: v[1]")
        else .ok false
      match c4 with
      | .error e => .error e
      | .ok true => .ok none
      | .ok false =>
        if v.length == 4 && v0.toNat > 0x03 then .ok none
        else .ok (some (shiftOrFold v))

/-- total version (equal to `fitsInSmallAtomE` by `fitsInSmallAtomE_eq`) -/
def fitsInSmallAtom (v : Bytes) : Option Nat :=
  match fitsInSmallAtomE v with
  | .ok r => r
  | .error _ => none

/-- generic `if val < t₀ {k} else if val < t₁ {k+1} … else {k+n}` -/
def ladderUp (val : Nat) : List Nat → Nat → Nat
  | [], k => k
  | t :: ts, k => if val < t then k else ladderUp val ts (k + 1)

/-- generic `if val < t₀ {k} else if val < t₁ {k-1} … else {k-n}` -/
def ladderDown (val : Nat) : List Nat → Nat → Nat
  | [], k => k
  | t :: ts, k => if val < t then k else ladderDown val ts (k - 1)

/-- `if val >= -t₀ {k} else if val >= -t₁ {k-1} …` -/
def ladderDownNeg (val : Int) : List Nat → Nat → Nat
  | [], k => k
  | t :: ts, k => if val ≥ -(t : Int) then k else ladderDownNeg val ts (k - 1)

/-- `len_for_value` -/
def lenForValue (val : Nat) : Nat :=
  if val == 0 then 0 else ladderUp val Gen.lenForValueThresholds 1

/-- `n.to_be_bytes()` for a `k`-byte unsigned integer -/
def toBE : Nat → Nat → Bytes
  | 0, _ => []
  | k + 1, n => UInt8.ofNat (n / 256 ^ k % 256) :: toBE k n

/-- the bytes denoted by an inline small atom: `&val.to_be_bytes()[4 - len..]` -/
def smallBytes (val : Nat) : Bytes := (toBE 4 val).drop (4 - lenForValue val)

/-! ### `new_u64`, `new_i64` -/

/-- the `start` ladder of `new_u64` -/
def u64Start (val : Nat) : Nat :=
  if val == 0 then 9 else ladderDown val Gen.newU64Thresholds 8

/-- `buf[1..].copy_from_slice(&val.to_be_bytes()); &buf[start..]` -/
def u64Bytes (val : Nat) : Bytes := ((0 : UInt8) :: toBE 8 val).drop (u64Start val)

/-- the `start` ladder of `new_i64` for negative values -/
def i64Start (val : Int) : Nat := ladderDownNeg val Gen.newI64Thresholds 7

/-- `&val.to_be_bytes()[start..]` for a negative `i64` -/
def i64NegBytes (val : Int) : Bytes := (toBE 8 (val + (2 : Int) ^ 64).toNat).drop (i64Start val)

/-! ### num-bigint `to_signed_bytes_be` and the stripping loop of `new_number` -/

/-- minimal big-endian magnitude (`[]` for 0) -/
def natBE (n : Nat) : Bytes :=
  if n = 0 then [] else natBE (n / 256) ++ [UInt8.ofNat (n % 256)]
termination_by n
decreasing_by omega

/-- `BigUint::to_bytes_be` (`[0]` for zero) -/
def bigUintToBytesBE (n : Nat) : Bytes := if n = 0 then [0] else natBE n

/-- `twos_complement` over the digits starting from the least significant one -/
def twosComplementLE : Bytes → Bool → Bytes
  | [], _ => []
  | d :: ds, carry =>
    let d1 : Nat := 255 - d.toNat
    if carry then
      let d2 := (d1 + 1) % 256
      UInt8.ofNat d2 :: twosComplementLE ds (d2 == 0)
    else UInt8.ofNat d1 :: twosComplementLE ds false

/-- `twos_complement_be` -/
def twosComplementBE (b : Bytes) : Bytes := (twosComplementLE b.reverse true).reverse

/-- `BigInt::to_signed_bytes_be` (num-bigint 0.4.6, `bigint/convert.rs`) -/
def toSignedBytesBE (v : Int) : Bytes :=
  let bytes := bigUintToBytesBE v.natAbs
  let firstByte : Nat := match bytes with | [] => 0 | x :: _ => x.toNat
  let minus := decide (v < 0)
  let bytes :=
    if firstByte > 0x7f && !(firstByte == 0x80 && (bytes.drop 1).all (fun x => x.toNat == 0) && minus)
    then (0 : UInt8) :: bytes else bytes
  if minus then twosComplementBE bytes else bytes

/-- `while !slice.is_empty() && slice[0] == 0 { if slice.len() > 1 && slice[1] & 0x80 == 0x80 {break}; slice = &slice[1..] }` -/
def stripLeadingZeros : Bytes → Bytes
  | [] => []
  | x :: rest =>
    if x.toNat == 0 then
      match rest with
      | y :: _ => if y.toNat &&& 0x80 == 0x80 then x :: rest else stripLeadingZeros rest
      | [] => stripLeadingZeros rest
    else x :: rest

/-- `v.to_u32()` is `Some(val)` with `val <= NODE_PTR_IDX_MASK` -/
def numberIsSmall (v : Int) : Bool :=
  decide (0 ≤ v) && decide (v.toNat < 2 ^ 32) && decide (v.toNat ≤ 2 ^ Gen.nodePtrIdxBits - 1)

end Clvm.Alloc
