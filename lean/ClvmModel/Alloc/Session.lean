/-
Denotation of nodes (`treeOf`) and *histories* of allocator operations.

A `Session` is an allocator together with the list of results of the operations executed so
far (one slot per operation: a node, a checkpoint, a transparent checkpoint, or nothing) and a
validity flag per slot, maintained exactly as a careful client of the API (and the harness)
does it: a restore to the checkpoint in slot `k` invalidates every later slot.  Operands of
operations are slot indices.  `Session.step` is what the `ALLOC` protocol line executes and what
the history theorems of C12–C14 quantify over.
-/
import ClvmModel.Alloc

namespace Clvm.Alloc
open Clvm

/-! ### denotation -/

/-- bytes of heap atom `i` (specification side: `[]` for a dangling index) -/
def atomBytes (a : Alloc) (i : Nat) : Bytes :=
  match a.atoms[i]? with
  | some (s, e) => (a.u8.drop s).take (e - s)
  | none => []

def treeAux (a : Alloc) : Nat → Ptr → Tree
  | _, .small v => .atom (smallBytes v)
  | _, .bytes i => .atom (atomBytes a i)
  | 0, .pair _ => .atom []
  | n + 1, .pair i =>
    match a.pairs[i]? with
    | none => .atom []
    | some (l, r) => .pair (treeAux a n l) (treeAux a n r)

/-- recursion budget that suffices when children are older than their parent -/
def ptrFuel : Ptr → Nat
  | .pair i => i + 1
  | _ => 0

/-- the tree a node denotes -/
def treeOf (a : Alloc) (p : Ptr) : Tree := treeAux a (ptrFuel p) p

/-! ### histories -/

inductive Op where
  | atom (b : Bytes)
  | small (v : Nat)
  | u64 (v : Nat)
  | i64 (v : Int)
  | num (v : Int)
  | pair (x y : Nat)
  | sub (x s e : Nat)
  | cat (n : Nat) (xs : List Nat)
  | gatom (n : Nat)
  | gpair (n : Nat)
  | rgpair (n : Nat)
  | cp
  | tcp
  | rst (k : Nat)
  | trst (k : Nat)
  | mrst (k x : Nat)
  deriving Repr, DecidableEq

inductive SlotVal where
  | node (p : Ptr)
  | cp (c : Checkpoint)
  | tcp (c : TCheckpoint)
  | unit
  deriving Repr, DecidableEq

structure Slot where
  val : SlotVal
  valid : Bool
  deriving Repr, DecidableEq

structure Session where
  a : Alloc
  slots : List Slot
  deriving Repr, DecidableEq

/-- per-operation outcome reported on the protocol line -/
inductive Tag where
  | ok
  | aborted
  | noReplace
  | replace
  | err (e : Err)
  | skip
  deriving Repr, DecidableEq

def Session.init (a : Alloc) : Session := { a := a, slots := [] }

def Session.getNode (s : Session) (i : Nat) : Option Ptr :=
  match s.slots[i]? with
  | some ⟨.node p, true⟩ => some p
  | _ => none

def Session.getNodes (s : Session) : List Nat → Option (List Ptr)
  | [] => some []
  | i :: is =>
    match s.getNode i, s.getNodes is with
    | some p, some ps => some (p :: ps)
    | _, _ => none

def Session.getCp (s : Session) (i : Nat) : Option Checkpoint :=
  match s.slots[i]? with
  | some ⟨.cp c, true⟩ => some c
  | _ => none

def Session.getTcp (s : Session) (i : Nat) : Option TCheckpoint :=
  match s.slots[i]? with
  | some ⟨.tcp c, true⟩ => some c
  | _ => none

/-- slots after `k` become invalid -/
def invalidateAfter (slots : List Slot) (k : Nat) : List Slot :=
  slots.mapIdx (fun i sl => if k < i then { sl with valid := false } else sl)

def Session.push (s : Session) (a : Alloc) (v : SlotVal) (valid : Bool) : Session :=
  { a := a, slots := s.slots ++ [⟨v, valid⟩] }

def Session.skip (s : Session) : Except Err (Session × Tag) := .ok (s.push s.a .unit false, .skip)

/-- common tail: a panic aborts the history, any other error leaves a dead slot -/
def Session.finish {R : Type} (s : Session) (out : Out R) (k : R → Alloc → Session × Tag) :
    Except Err (Session × Tag) :=
  match out with
  | (.error (.Panic m), _) => .error (.Panic m)
  | (.error e, a') => .ok (s.push a' .unit false, .err e)
  | (.ok r, a') => .ok (k r a')

def Session.step (s : Session) (op : Op) : Except Err (Session × Tag) :=
  match op with
  | .atom b => s.finish (newAtom s.a b) (fun p a' => (s.push a' (.node p) true, .ok))
  | .small v => s.finish (newSmallNumber s.a v) (fun p a' => (s.push a' (.node p) true, .ok))
  | .u64 v => s.finish (newU64 s.a v) (fun p a' => (s.push a' (.node p) true, .ok))
  | .i64 v => s.finish (newI64 s.a v) (fun p a' => (s.push a' (.node p) true, .ok))
  | .num v => s.finish (newNumber s.a v) (fun p a' => (s.push a' (.node p) true, .ok))
  | .pair x y =>
    match s.getNode x, s.getNode y with
    | some p, some q => s.finish (newPair s.a p q) (fun r a' => (s.push a' (.node r) true, .ok))
    | _, _ => s.skip
  | .sub x st e =>
    match s.getNode x with
    | some p => s.finish (newSubstr s.a p st e) (fun r a' => (s.push a' (.node r) true, .ok))
    | none => s.skip
  | .cat n xs =>
    match s.getNodes xs with
    | some ps => s.finish (newConcat s.a n ps) (fun r a' => (s.push a' (.node r) true, .ok))
    | none => s.skip
  | .gatom n => s.finish (addGhostAtom s.a n) (fun _ a' => (s.push a' .unit false, .ok))
  | .gpair n => s.finish (addGhostPair s.a n) (fun _ a' => (s.push a' .unit false, .ok))
  | .rgpair n => s.finish (removeGhostPair s.a n) (fun _ a' => (s.push a' .unit false, .ok))
  | .cp => .ok (s.push s.a (.cp (checkpoint s.a)) true, .ok)
  | .tcp => .ok (s.push s.a (.tcp (transparentCheckpoint s.a)) true, .ok)
  | .rst k =>
    match s.getCp k with
    | some c =>
      s.finish (restoreCheckpoint s.a c)
        (fun _ a' => ({ a := a', slots := invalidateAfter s.slots k ++ [⟨.unit, false⟩] }, .ok))
    | none => s.skip
  | .trst k =>
    match s.getTcp k with
    | some c =>
      s.finish (restoreTransparentCheckpoint s.a c)
        (fun _ a' => ({ a := a', slots := invalidateAfter s.slots k ++ [⟨.unit, false⟩] }, .ok))
    | none => s.skip
  | .mrst k x =>
    match s.getTcp k, s.getNode x with
    | some c, some p =>
      s.finish (maybeRestoreWithNode s.a c p)
        (fun r a' =>
          match r with
          | .aborted => (s.push a' .unit false, .aborted)
          | .noReplace =>
            -- the preserved node is older than the checkpoint: re-publish it in this slot
            ({ a := a', slots := invalidateAfter s.slots k ++ [⟨.node p, true⟩] }, .noReplace)
          | .replace q =>
            ({ a := a', slots := invalidateAfter s.slots k ++ [⟨.node q, true⟩] }, .replace))
    | _, _ => s.skip

/-- run a history; a panic aborts it -/
def Session.run (s : Session) : List Op → Except Err (Session × List (Tag × Nat × Nat × Nat))
  | [] => .ok (s, [])
  | op :: ops =>
    match s.step op with
    | .error e => .error e
    | .ok (s', t) =>
      match Session.run s' ops with
      | .error e => .error e
      | .ok (s'', ts) => .ok (s'', (t, atomCount s'.a, pairCount s'.a, heapSize s'.a) :: ts)

end Clvm.Alloc
