/-
`RefAlloc` — the abstract reference allocator of property C12: every atom is a separately
stored byte string, i.e. nodes are *values* (`Clvm.Tree`), and the only state is the three
counters, which evolve by the rule of the statement:

* each new atom counts once, each new pair once;
* new bytes count toward the heap — except for substrings, which share their parent's bytes;
* an operation fails with the limit error exactly when completing it would exceed the cap
  (heap limit checked before the atom cap for `new_atom`, after it for `new_concat`, as observable);
* a full restore resets the counters to the checkpoint, a transparent (or value-preserving)
  restore leaves them unchanged.

`abs : Alloc → RefAlloc` forgets the representation (ghost counters, heap layout, inline atoms).
-/
import ClvmModel.Alloc.Session

namespace Clvm.Alloc
open Clvm

structure RefAlloc where
  atomCount : Nat
  pairCount : Nat
  heapSize : Nat
  heapLimit : Nat
  deriving Repr, DecidableEq

def abs (a : Alloc) : RefAlloc :=
  { atomCount := atomCount a, pairCount := pairCount a, heapSize := heapSize a, heapLimit := a.heapLimit }

namespace RefAlloc

def new (limit : Nat) : RefAlloc :=
  { atomCount := Gen.initGhostAtoms, pairCount := Gen.initGhostPairs, heapSize := Gen.initGhostHeap, heapLimit := limit }

def newAtom (r : RefAlloc) (b : Bytes) : Except Err (Tree × RefAlloc) :=
  if r.heapSize + b.length > r.heapLimit then .error .OutOfMemory
  else if r.atomCount + 1 > Gen.maxNumAtoms then .error .TooManyAtoms
  else .ok (.atom b, { r with atomCount := r.atomCount + 1, heapSize := r.heapSize + b.length })

/-- integers are stored in their minimal two's complement encoding -/
def newInt (r : RefAlloc) (v : Int) : Except Err (Tree × RefAlloc) := r.newAtom (encodeInt v)

def newPair (r : RefAlloc) (first rest : Tree) : Except Err (Tree × RefAlloc) :=
  if r.pairCount + 1 > Gen.maxNumPairs then .error .TooManyPairs
  else .ok (.pair first rest, { r with pairCount := r.pairCount + 1 })

def addGhostAtom (r : RefAlloc) (n : Nat) : Except Err RefAlloc :=
  if r.atomCount + n > Gen.maxNumAtoms then .error .TooManyAtoms
  else .ok { r with atomCount := r.atomCount + n }

def addGhostPair (r : RefAlloc) (n : Nat) : Except Err RefAlloc :=
  if r.pairCount + n > Gen.maxNumPairs then .error .TooManyPairs
  else .ok { r with pairCount := r.pairCount + n }

def removeGhostPair (r : RefAlloc) (n : Nat) : RefAlloc := { r with pairCount := r.pairCount - n }

/-- a substring shares its parent's bytes: one atom, no heap -/
def newSubstr (r : RefAlloc) (t : Tree) (start stop : Nat) : Except Err (Tree × RefAlloc) :=
  if r.atomCount + 1 > Gen.maxNumAtoms then .error .TooManyAtoms
  else
    match t with
    | .pair _ _ => .error (.InternalError "substr expected atom, got pair")
    | .atom b =>
      if start > b.length ∨ stop > b.length ∨ stop < start then .error (.InvalidAllocArg "substr bounds")
      else .ok (.atom ((b.drop start).take (stop - start)), { r with atomCount := r.atomCount + 1 })

def atomsOf : List Tree → Option (List Bytes)
  | [] => some []
  | .atom b :: ts => (atomsOf ts).map (b :: ·)
  | .pair _ _ :: _ => none

def newConcat (r : RefAlloc) (newSize : Nat) (ts : List Tree) : Except Err (Tree × RefAlloc) :=
  if r.atomCount + 1 > Gen.maxNumAtoms then .error .TooManyAtoms
  else if r.heapSize + newSize > r.heapLimit then .error .OutOfMemory
  else
    match atomsOf ts with
    | none => .error (.InternalError "concat expected atom, got pair")
    | some bs =>
      if bs.flatten.length ≠ newSize then .error (.InternalError "concat passed invalid new_size")
      else .ok (.atom bs.flatten, { r with atomCount := r.atomCount + 1, heapSize := r.heapSize + newSize })

/-- a checkpoint of the reference is the counters -/
def restore (_ : RefAlloc) (cp : RefAlloc) : RefAlloc := cp

def restoreTransparent (r : RefAlloc) : RefAlloc := r

/-- one more atom of `n` bytes -/
def bump (r : RefAlloc) (atoms heap : Nat) : RefAlloc :=
  { r with atomCount := r.atomCount + atoms, heapSize := r.heapSize + heap }

/-- **the accounting rule of C12 as a function of the operation**: the counters after an
operation of a history, given whether it succeeded (`t`).  Failed, skipped and aborted operations
change nothing; a full restore resets to the counts recorded in the checkpoint; transparent and
value-preserving restores change nothing. -/
def after (r : RefAlloc) (s : Session) (op : Op) (t : Tag) : RefAlloc :=
  match t with
  | .err _ => r
  | .skip => r
  | .aborted => r
  | _ =>
    match op with
    | .atom b => r.bump 1 b.length
    | .small v => r.bump 1 (encodeInt (v : Int)).length
    | .u64 v => r.bump 1 (encodeInt (v : Int)).length
    | .i64 v => r.bump 1 (encodeInt v).length
    | .num v => r.bump 1 (encodeInt v).length
    | .pair _ _ => { r with pairCount := r.pairCount + 1 }
    | .sub _ _ _ => r.bump 1 0
    | .cat n _ => r.bump 1 n
    | .gatom n => r.bump n 0
    | .gpair n => { r with pairCount := r.pairCount + n }
    | .rgpair n => { r with pairCount := r.pairCount - n }
    | .cp => r
    | .tcp => r
    | .trst _ => r
    | .mrst _ _ => r
    | .rst k =>
      match s.getCp k with
      | some c =>
        { r with atomCount := c.inner.atoms + c.ghostAtoms, pairCount := c.inner.pairs + c.ghostPairs,
                 heapSize := c.inner.u8s + c.ghostHeap }
      | none => r

end RefAlloc
end Clvm.Alloc
