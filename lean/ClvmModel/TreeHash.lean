/-
Tree hash: the recursive specification and a separate transcription of every implementation.

* `treeHash`                      the definition: sha256(1 ‖ atom), sha256(2 ‖ left ‖ right)
* `src/treehash.rs`               `tree_hash_atom`, `tree_hash_pair`, `tree_hash_costed`
* `src/sha_tree_op.rs`            `op_sha256_tree` (+ `match_args::<1>` / `get_args` of op_utils.rs)
* `src/serde/object_cache.rs`     `ObjectCache::{calculate, get_or_calculate}`, `treehash`
* `src/serde/intern.rs`           `intern_tree_limited`, `InternedTree::tree_hash`
* `src/serde/tools.rs`            `hash_atom`, `hash_pair`, `tree_hash_from_stream`
* `src/serde/de_tree.rs`          `parse_triples` (+ `tree_hash_for_byte`, `skip_or_sha_bytes`, `sha_blobs`)
* `wheel/python/clvm_rs/tree_hash.py`   `Treehasher.sha256_treehash`

Modelling decisions
* An allocator node is an `NTree`: what `Allocator::node` shows (`Buffer`, `U32`, `Pair`) plus the
  node's identity `id` (the `NodePtr`; the key of every `HashMap<NodePtr, _>` and of the Python
  `_cached_sha256_treehash` attribute).  Shared sub-trees are sub-terms with equal `id`.
  Nothing in this file assumes that ids are consistent; the theorems state that hypothesis.
* `Sha256::update` calls are modelled by concatenation of the updates (streaming = hashing the
  concatenation; trusted, exercised by the `HASH` stream).
* Rust `Vec` stacks are lists with the top at the head.  `unwrap`/index/`assert!` failures are
  `Err.Panic`.  Loops whose termination depends on cache contents carry explicit fuel; running out
  of fuel is `Err.Panic "fuel"` and is proved unreachable.
* `decode_size` / `decode_size_with_offset` is the shared Rust function: the stream variants call the
  shared model `Clvm.Serde.Classic.decodeSize(WithOffset)`; `len_for_value`, `Atom::as_ref` on an
  inline atom and `fits_in_small_atom` are `Clvm.Alloc.lenForValue/toBE/fitsInSmallAtom`.
* Not modelled: failure of `Allocator::new_atom/new_pair` (allocator limits) at the end of
  `tree_hash_costed` and inside `intern_tree_limited` — the result is reported as the 32 bytes.
-/
import ClvmModel.Tree
import ClvmModel.Hash.Sha256
import ClvmModel.Gen.Treehash
import ClvmModel.Serde.Classic
import ClvmModel.Alloc.IntEnc

namespace Clvm.TreeHash
open Clvm.Hash

/-! ### specification -/

/-- The tree hash: `sha256(1 ‖ atom)` for atoms, `sha256(2 ‖ hash left ‖ hash right)` for pairs. -/
def treeHash : Tree → Bytes
  | .atom b => sha256 (1 :: b)
  | .pair l r => sha256 (2 :: (treeHash l ++ treeHash r))

/-! ### allocator nodes as the hashers see them -/

/-- A node of an `Allocator`, as `Allocator::node` shows it, with its identity. -/
inductive NTree where
  /-- `NodeVisitor::Buffer(bytes)` — an `ObjectType::Bytes` atom -/
  | buffer (id : Nat) (b : Bytes)
  /-- `NodeVisitor::U32(val)` — an inline `ObjectType::SmallAtom` -/
  | u32 (id : Nat) (val : Nat)
  /-- `NodeVisitor::Pair(left, right)` -/
  | pair (id : Nat) (l r : NTree)
  deriving Repr, Inhabited

namespace NTree

def id : NTree → Nat
  | .buffer i _ => i
  | .u32 i _ => i
  | .pair i _ _ => i

/-- the abstract value a node denotes -/
def erase : NTree → Tree
  | .buffer _ b => .atom b
  | .u32 _ v => .atom (Alloc.smallBytes v)
  | .pair _ l r => .pair l.erase r.erase

def size : NTree → Nat
  | .pair _ l r => l.size + r.size + 1
  | _ => 1

theorem size_pos (t : NTree) : 0 < t.size := by cases t <;> simp [size]

/-- every inline atom holds a value an inline atom can hold (`NODE_PTR_IDX_BITS` = 26 bits; the
models only need `< 2^31`, where `len_for_value` stays ≤ 4). -/
def Valid : NTree → Prop
  | .buffer _ _ => True
  | .u32 _ v => v < 2 ^ 31
  | .pair _ l r => l.Valid ∧ r.Valid

end NTree

/-- `Allocator::atom(node).as_ref()` -/
def allocAtom : NTree → Except Err Bytes
  | .buffer _ b => .ok b
  | .u32 _ val =>
    let len := Alloc.lenForValue val
    if len > 4 then .error (.Panic "slice index: bytes[4 - len..]")
    else .ok ((Alloc.toBE 4 val).drop (4 - len))
  | .pair _ _ _ => .error (.Panic "expected atom, got pair")

/-- `Allocator::atom_len(node)` -/
def allocAtomLen : NTree → Except Err Nat
  | .buffer _ b => .ok b.length
  | .u32 _ val => .ok (Alloc.lenForValue val)
  | .pair _ _ _ => .error (.Panic "expected atom, got pair")

/-! ### `src/treehash.rs` -/

/-- `tree_hash_atom` -/
def treeHashAtom (bytes : Bytes) : Bytes := sha256 ([1] ++ bytes)

/-- `tree_hash_pair` -/
def treeHashPair (first rest : Bytes) : Bytes := sha256 ([2] ++ first ++ rest)

/-- `PRECOMPUTED_HASHES` of more_ops.rs (extracted) -/
def precomputed : List Bytes := Gen.thPrecomputedHashes.map (·.map UInt8.ofNat)

inductive TreeOp where
  | sexp (n : NTree)
  | cons

def TreeOp.measure : TreeOp → Nat
  | .sexp n => 2 * n.size
  | .cons => 1

def opsMeasure (ops : List TreeOp) : Nat := (ops.map TreeOp.measure).sum

/-- `check_cost` -/
def checkCost (cost maxCost : Nat) : Except Err Unit :=
  if cost > maxCost then .error .CostExceeded else .ok ()

/-- the `while let Some(op) = ops.pop()` loop of `tree_hash_costed` -/
def costedLoop (cpb costRemaining : Nat) (ops : List TreeOp) (hashes : List Bytes) (cost : Nat) :
    Except Err (List Bytes × Nat) :=
  match ops with
  | [] => .ok (hashes, cost)
  | .sexp node :: ops =>
    match node with
    | .buffer _ bytes =>
      let cost := cost + (bytes.length + 1) * cpb
      match checkCost cost costRemaining with
      | .error e => .error e
      | .ok () => costedLoop cpb costRemaining ops (treeHashAtom bytes :: hashes) cost
    | .u32 i val =>
      match allocAtomLen (.u32 i val) with
      | .error e => .error e
      | .ok len =>
        let cost := cost + (len + 1) * cpb
        match checkCost cost costRemaining with
        | .error e => .error e
        | .ok () =>
          if val < precomputed.length then
            match precomputed[val]? with
            | some h => costedLoop cpb costRemaining ops (h :: hashes) cost
            | none => .error (.Panic "index out of bounds: PRECOMPUTED_HASHES")
          else
            match allocAtom (.u32 i val) with
            | .error e => .error e
            | .ok b => costedLoop cpb costRemaining ops (treeHashAtom b :: hashes) cost
    | .pair _ left right =>
      let cost := cost + Gen.thPairCost
      match checkCost cost costRemaining with
      | .error e => .error e
      | .ok () => costedLoop cpb costRemaining (.sexp right :: .sexp left :: .cons :: ops) hashes cost
  | .cons :: ops =>
    match hashes with
    | first :: rest :: hs => costedLoop cpb costRemaining ops (treeHashPair first rest :: hs) cost
    | _ => .error (.Panic "hashes.pop().unwrap()")
termination_by opsMeasure ops
decreasing_by
  all_goals simp [opsMeasure, TreeOp.measure, NTree.size]
  all_goals omega

/-- `tree_hash_costed(a, node, cost_remaining, flags)`: `(cost, hash)`; `newModel` is
`flags.contains(NEW_COST_MODEL)`. -/
def treeHashCosted (newModel : Bool) (costRemaining : Nat) (node : NTree) : Except Err (Nat × Bytes) :=
  let cpb := if newModel then Gen.thNewCostPerByte else Gen.thCostPerByte
  match costedLoop cpb costRemaining [.sexp node] [] Gen.thBaseCost with
  | .error e => .error e
  | .ok (hashes, cost) =>
    match hashes with
    | [h] =>
      let cost := cost + Gen.thMallocCostPerByte * Gen.thMallocBytes
      match checkCost cost costRemaining with
      | .error e => .error e
      | .ok () => .ok (cost, h)
    | _ => .error (.Panic "assert!(hashes.len() == 1)")

/-! ### `src/sha_tree_op.rs` -/

/-- `match_args::<N>`: walks the argument list with `Allocator::next` (any atom terminates it). -/
def matchArgsGo (N : Nat) : NTree → Nat → List NTree → Option (List NTree)
  | .pair _ first rest, counter, ret =>
    if counter == N then none else matchArgsGo N rest (counter + 1) (ret ++ [first])
  | _, counter, ret => if counter != N then none else some ret

/-- `op_sha256_tree(a, input, max_cost, flags)` -/
def opSha256Tree (newModel : Bool) (maxCost : Nat) (input : NTree) : Except Err (Nat × Bytes) :=
  match matchArgsGo 1 input 0 [] with
  | some [n] => treeHashCosted newModel maxCost n
  | _ => .error (.InvalidOpArg "sha256tree takes exactly 1 argument(s)")

/-! ### `src/serde/object_cache.rs` -/

/-- `HashMap<NodePtr, Bytes32>`: association list, newest binding first -/
abbrev Cache := List (Nat × Bytes)

def Cache.get (c : Cache) (k : Nat) : Option Bytes := List.lookup k c
def Cache.set (c : Cache) (k : Nat) (v : Bytes) : Cache := (k, v) :: c

/-- `hash_blobs` (bytes32.rs) -/
def hashBlobs (blobs : List Bytes) : Bytes := sha256 blobs.flatten

/-- the cached function `treehash(cache, allocator, node)` -/
def ocTreehash (cache : Cache) (node : NTree) : Except Err (Option Bytes) :=
  match node with
  | .pair _ left right =>
    match cache.get left.id with
    | none => .ok none
    | some leftValue =>
      .ok ((cache.get right.id).map fun rightValue => hashBlobs [[2], leftValue, rightValue])
  | _ =>
    match allocAtom node with
    | .error e => .error e
    | .ok b => .ok (some (hashBlobs [[1], b]))

/-- `ObjectCache::calculate` with `f = treehash`; `objList` top = head. -/
def ocCalculate (stopToken : Option Nat) : Nat → List NTree → Cache → Except Err Cache
  | _, [], cache => .ok cache
  | 0, _ :: _, _ => .error (.Panic "fuel")
  | fuel + 1, node :: objList, cache =>
    if stopToken == some node.id then .ok cache
    else
      match cache.get node.id with
      | some _ => ocCalculate stopToken fuel objList cache
      | none =>
        match ocTreehash cache node with
        | .error e => .error e
        | .ok none =>
          match node with
          | .pair _ left right => ocCalculate stopToken fuel (right :: left :: node :: objList) cache
          | _ => .error (.Panic "f returned `None` for atom")
        | .ok (some v) => ocCalculate stopToken fuel objList (cache.set node.id v)

/-- enough iterations for any node: an uncached pair is visited twice, everything else once -/
def ocFuel (t : NTree) : Nat := 2 * t.size + 1

/-- `ObjectCache::get_or_calculate(allocator, node, stop_token)` with `f = treehash`:
the value and the cache afterwards. -/
def ocGetOrCalculate (cache : Cache) (node : NTree) (stopToken : Option Nat) : Except Err (Option Bytes × Cache) :=
  match ocCalculate stopToken (ocFuel node) [node] cache with
  | .error e => .error e
  | .ok cache' => .ok (cache'.get node.id, cache')

/-- the public use: `ObjectCache::new(treehash).get_or_calculate(&a, &node, None)` -/
def objectCacheTreeHash (node : NTree) : Except Err (Option Bytes) :=
  match ocGetOrCalculate [] node none with
  | .error e => .error e
  | .ok (r, _) => .ok r

/-! ### `src/serde/intern.rs` -/

/-- state of `intern_tree_limited`: the three maps, the new allocator (`built`: new id ↦ node,
`nBytes`/`nPairs`: lengths of its `atom_vec`/`pair_vec`) and the two output vectors (reversed). -/
structure InternSt where
  nodeTo : List (Nat × Nat) := []
  atomTo : List (Bytes × Nat) := []
  pairTo : List ((Nat × Nat) × Nat) := []
  built : List (Nat × NTree) := []
  nBytes : Nat := 0
  nPairs : Nat := 0
  atoms : List Nat := []
  pairs : List Nat := []

/-- identity of a new-allocator node: inline atoms are identified by value, the others by index -/
def smallId (v : Nat) : Nat := 3 * v
def bytesId (i : Nat) : Nat := 3 * i + 1
def pairId (i : Nat) : Nat := 3 * i + 2

/-- `new_allocator.new_atom(atom)` (limits not modelled): the node and the new `atom_vec` length -/
def newAtom (nBytes : Nat) (v : Bytes) : NTree × Nat :=
  match Alloc.fitsInSmallAtom v with
  | some val => (.u32 (smallId val) val, nBytes)
  | none => (.buffer (bytesId nBytes) v, nBytes + 1)

/-- the loop of `intern_tree_limited`; `stack` top = head -/
def internLoop : Nat → List NTree → InternSt → Except Err InternSt
  | _, [], st => .ok st
  | 0, _ :: _, _ => .error (.Panic "fuel")
  | fuel + 1, current :: stack, st =>
    if (List.lookup current.id st.nodeTo).isSome then internLoop fuel stack st
    else
      match current with
      | .pair _ left right =>
        let leftInterned := List.lookup left.id st.nodeTo
        let rightInterned := List.lookup right.id st.nodeTo
        match leftInterned, rightInterned with
        | some l, some r =>
          match List.lookup (l, r) st.pairTo with
          | some interned =>
            internLoop fuel stack { st with nodeTo := (current.id, interned) :: st.nodeTo }
          | none =>
            match List.lookup l st.built, List.lookup r st.built with
            | some lt, some rt =>
              let nid := pairId st.nPairs
              internLoop fuel stack
                { st with
                  nodeTo := (current.id, nid) :: st.nodeTo
                  pairTo := ((l, r), nid) :: st.pairTo
                  built := (nid, .pair nid lt rt) :: st.built
                  nPairs := st.nPairs + 1
                  pairs := nid :: st.pairs }
            | _, _ => .error (.Panic "new_pair: dangling NodePtr")
        | _, _ =>
          let stack := current :: stack
          let stack := if rightInterned.isNone then right :: stack else stack
          let stack := if leftInterned.isNone then left :: stack else stack
          internLoop fuel stack st
      | _ =>
        match allocAtom current with
        | .error e => .error e
        | .ok atom =>
          match List.lookup atom st.atomTo with
          | some interned =>
            internLoop fuel stack { st with nodeTo := (current.id, interned) :: st.nodeTo }
          | none =>
            let (newNode, nBytes) := newAtom st.nBytes atom
            internLoop fuel stack
              { st with
                nodeTo := (current.id, newNode.id) :: st.nodeTo
                atomTo := (atom, newNode.id) :: st.atomTo
                built := (newNode.id, newNode) :: st.built
                nBytes := nBytes
                atoms := newNode.id :: st.atoms }

/-- `intern_tree(source, node)`: the interned root as a node of the new allocator, with the numbers
of unique atoms and pairs. -/
def internTree (node : NTree) : Except Err (NTree × Nat × Nat) :=
  match internLoop (2 * node.size + 1) [node] {} with
  | .error e => .error e
  | .ok st =>
    match List.lookup node.id st.nodeTo with
    | none => .error (.Panic "node_to_interned[&node]")
    | some root =>
      match List.lookup root st.built with
      | none => .error (.Panic "dangling root")
      | some t => .ok (t, st.atoms.length, st.pairs.length)

/-- `InternedTree::tree_hash` -/
def internedTreeHash (root : NTree) : Except Err Bytes :=
  match ocGetOrCalculate [] root none with
  | .error e => .error e
  | .ok (some h, _) => .ok h
  | .ok (none, _) => .error (.Panic "treehash should not fail on valid tree")

/-- `intern_tree(a, node)?.tree_hash()` -/
def internThenHash (node : NTree) : Except Err Bytes :=
  match internTree node with
  | .error e => .error e
  | .ok (root, _, _) => internedTreeHash root

/-! ### `src/serde/tools.rs::tree_hash_from_stream` -/

/-- `hash_atom` (tools.rs) -/
def hashAtom (buf : Bytes) : Bytes := sha256 ([1] ++ buf)

/-- `hash_pair` (tools.rs) -/
def hashPair (left right : Bytes) : Bytes := sha256 ([2] ++ left ++ right)

inductive ParseOp where
  | sexp
  | cons
  deriving Repr, DecidableEq

/-- the loop of `tree_hash_from_stream`; `inp` is the unread remainder of the cursor -/
def fromStreamLoop (inp : Bytes) (ops : List ParseOp) (values : List Bytes) : Except Err (Bytes × Bytes) :=
  match ops with
  | [] =>
    match values with
    | v :: _ => .ok (v, inp)
    | [] => .error (.Panic "values.pop().unwrap()")
  | .sexp :: ops' =>
    match inp with
    | [] => .error .SerializationError
    | b :: rest =>
      if b.toNat == 0xff then fromStreamLoop rest (.sexp :: .sexp :: .cons :: ops') values
      else if b.toNat == 0x80 then fromStreamLoop rest ops' (hashAtom [] :: values)
      else if b.toNat ≤ 0x7f then fromStreamLoop rest ops' (hashAtom [b] :: values)
      else
        match Serde.Classic.decodeSize rest b.toNat with
        | .error e => .error e
        | .ok (off, blobSize) =>
          let blob := rest.drop (off - 1)
          if blob.length < blobSize then .error .SerializationError
          else fromStreamLoop (blob.drop blobSize) ops' (hashAtom (blob.take blobSize) :: values)
  | .cons :: ops' =>
    match values with
    | v2 :: v1 :: vs => fromStreamLoop inp ops' (hashPair v1 v2 :: vs)
    | _ => .error (.Panic "values.pop().unwrap()")
termination_by (inp.length, ops.length)
decreasing_by
  all_goals first
    | (apply Prod.Lex.left; simp only [List.length_drop, List.length_cons]; omega)
    | (apply Prod.Lex.right; simp only [List.length_cons]; omega)

/-- `tree_hash_from_stream(f)`: the hash and the unread remainder -/
def treeHashFromStream (inp : Bytes) : Except Err (Bytes × Bytes) := fromStreamLoop inp [.sexp] []

/-! ### `src/serde/de_tree.rs::parse_triples` -/

inductive Triple where
  | atom (start stop atomOffset : Nat)
  | pair (start stop rightIndex : Nat)
  deriving Repr, DecidableEq

inductive ParseOpRef where
  | parseObj
  | saveEnd (index : Nat)
  | saveRightIndex (index : Nat)
  deriving Repr, DecidableEq

/-- `sha_blobs` (de_tree.rs) -/
def shaBlobs (blobs : List Bytes) : Bytes := sha256 blobs.flatten

/-- `tree_hash_for_byte` -/
def treeHashForByte (b : UInt8) (calcH : Bool) : Option Bytes :=
  if calcH then some (shaBlobs [[1, b]]) else none

/-- `skip_or_sha_bytes(f, size, calcH)`: `copy_exactly` reports a short read as `InternalError`
("copy terminated early").  Returns the hash (if any); on success exactly `size` bytes were read. -/
def skipOrShaBytes (inp : Bytes) (size : Nat) (calcH : Bool) : Except Err (Option Bytes) :=
  if inp.length < size then .error (.InternalError "copy terminated early")
  else if calcH then .ok (some (sha256 ([1] ++ inp.take size)))
  else .ok none

structure TriplesSt where
  r : List Triple := []
  treeHashes : List Bytes := []
  cursor : Nat := 0

def zero32 : Bytes := List.replicate 32 0

/-- the loop of `parse_triples`; `opStack` top = head -/
def triplesLoop (calcH : Bool) (inp : Bytes) (opStack : List ParseOpRef) (st : TriplesSt) :
    Except Err (TriplesSt × Bytes) :=
  match opStack with
  | [] => .ok (st, inp)
  | .parseObj :: ops =>
    match inp with
    | [] => .error .SerializationError
    | b :: rest =>
      let start := st.cursor
      let cursor := st.cursor + 1
      if b.toNat == 0xff then
        let index := st.r.length
        triplesLoop calcH rest (.parseObj :: .saveRightIndex index :: .parseObj :: .saveEnd index :: ops)
          { r := st.r ++ [.pair start 0 0]
            treeHashes := if calcH then st.treeHashes ++ [zero32] else st.treeHashes
            cursor := cursor }
      else if b.toNat ≤ 0x7f then
        match (if calcH then (treeHashForByte b calcH).map (fun h => st.treeHashes ++ [h]) else some st.treeHashes) with
        | none => .error (.Panic "failed unwrap")
        | some ths =>
          triplesLoop calcH rest ops { r := st.r ++ [.atom start (start + 1) 0], treeHashes := ths, cursor := start + 1 }
      else
        match Serde.Classic.decodeSizeWithOffset rest b.toNat with
        | .error e => .error e
        | .ok (atomOffset, atomSize) =>
          let stop := start + atomOffset + atomSize
          match skipOrShaBytes (rest.drop (atomOffset - 1)) atomSize calcH with
          | .error e => .error e
          | .ok h =>
            match (if calcH then h.map (fun h => st.treeHashes ++ [h]) else some st.treeHashes) with
            | none => .error (.Panic "failed unwrap")
            | some ths =>
              triplesLoop calcH ((rest.drop (atomOffset - 1)).drop atomSize) ops { r := st.r ++ [.atom start stop atomOffset], treeHashes := ths, cursor := stop }
  | .saveEnd index :: ops =>
    match st.r[index]? with
    | some (.pair s _ rightIndex) =>
      if calcH then
        match st.treeHashes[index + 1]?, st.treeHashes[rightIndex]? with
        | some hl, some hr =>
          if index < st.treeHashes.length then
            triplesLoop calcH inp ops
              { r := st.r.set index (.pair s st.cursor rightIndex)
                treeHashes := st.treeHashes.set index (shaBlobs [[2], hl, hr])
                cursor := st.cursor }
          else .error (.Panic "index out of bounds: tree_hashes[index]")
        | _, _ => .error (.Panic "index out of bounds: tree_hashes")
      else
        triplesLoop calcH inp ops { st with r := st.r.set index (.pair s st.cursor rightIndex) }
    | some (.atom _ _ _) => .error (.Panic "internal error: SaveEnd")
    | none => .error (.Panic "index out of bounds: r[index]")
  | .saveRightIndex index :: ops =>
    let newIndex := st.r.length
    match st.r[index]? with
    | some (.pair s e _) => triplesLoop calcH inp ops { st with r := st.r.set index (.pair s e newIndex) }
    | some (.atom _ _ _) => .error (.Panic "internal error: SaveRightIndex")
    | none => .error (.Panic "index out of bounds: r[index]")
termination_by (inp.length, opStack.length)
decreasing_by
  all_goals first
    | (apply Prod.Lex.left; simp only [List.length_drop, List.length_cons]; omega)
    | (apply Prod.Lex.right; simp only [List.length_cons]; omega)

/-- `parse_triples(f, calculate_tree_hashes)`: the triples, the hashes, the unread remainder -/
def parseTriples (inp : Bytes) (calcH : Bool) : Except Err (List Triple × Option (List Bytes) × Bytes) :=
  match triplesLoop calcH inp [.parseObj] {} with
  | .error e => .error e
  | .ok (st, rest) => .ok (st.r, if calcH then some st.treeHashes else none, rest)

/-- the hash `parse_triples(f, true)` reports for the whole object: `tree_hashes[0]` -/
def parseTriplesRootHash (inp : Bytes) : Except Err Bytes :=
  match parseTriples inp true with
  | .error e => .error e
  | .ok (_, some (h :: _), _) => .ok h
  | .ok _ => .error (.Panic "tree_hashes[0]")

/-! ### `wheel/python/clvm_rs/tree_hash.py` -/

/-- entries of `op_stack` -/
inductive PyOp where
  | handleObj
  | handlePair
  deriving Repr, DecidableEq

/-- `obj.atom` of a `CLVMStorage` object (`None` for a pair) -/
def pyAtom : NTree → Option Bytes
  | .buffer _ b => some b
  | .u32 _ v => some (Alloc.smallBytes v)
  | .pair _ _ _ => none

/-- `shatree_atom` with prefix 01 -/
def shatreeAtom (atom : Bytes) : Bytes := sha256 ([1] ++ atom)

/-- `shatree_pair` with prefix 02 -/
def shatreePair (leftHash rightHash : Bytes) : Bytes := sha256 ([2] ++ leftHash ++ rightHash)

/-- `setattr(obj, "_cached_sha256_treehash", r)` inside `try … except AttributeError: pass`:
`settable id` says whether the object accepts the attribute. -/
def pySetCached (settable : Nat → Bool) (attrs : Cache) (obj : NTree) (r : Bytes) : Cache :=
  if settable obj.id then attrs.set obj.id r else attrs

/-- the `while len(op_stack) > 0` loop of `Treehasher.sha256_treehash`; all three stacks top = head;
`attrs` holds the `_cached_sha256_treehash` attributes, keyed by object identity.  A `pop` from an
empty list / `hash_stack[0]` on an empty list is an `IndexError` (`Err.Panic`). -/
def pyLoop (settable : Nat → Bool) : Nat → List PyOp → List NTree → List Bytes → Cache →
    Except Err (List Bytes × Cache)
  | _, [], _, hashStack, attrs => .ok (hashStack, attrs)
  | 0, _ :: _, _, _, _ => .error (.Panic "fuel")
  | fuel + 1, .handleObj :: opStack, objStack, hashStack, attrs =>
    match objStack with
    | [] => .error (.Panic "IndexError: pop from empty list")
    | obj :: objStack =>
      match attrs.get obj.id with
      | some r => pyLoop settable fuel opStack objStack (r :: hashStack) attrs
      | none =>
        match pyAtom obj with
        | some atom =>
          let r := shatreeAtom atom
          pyLoop settable fuel opStack objStack (r :: hashStack) (pySetCached settable attrs obj r)
        | none =>
          match obj with
          | .pair _ p0 p1 =>
            pyLoop settable fuel (.handleObj :: .handleObj :: .handlePair :: opStack)
              (p1 :: p0 :: obj :: objStack) hashStack attrs
          | _ => .error (.Panic "TypeError: cannot unpack None")
  | fuel + 1, .handlePair :: opStack, objStack, hashStack, attrs =>
    match hashStack with
    | p0 :: p1 :: hashStack =>
      let r := shatreePair p0 p1
      match objStack with
      | [] => .error (.Panic "IndexError: pop from empty list")
      | obj :: objStack => pyLoop settable fuel opStack objStack (r :: hashStack) (pySetCached settable attrs obj r)
    | _ => .error (.Panic "IndexError: pop from empty list")

/-- `sha256_treehash(clvm_storage)`: the hash and the attribute store afterwards -/
def pySha256Treehash (settable : Nat → Bool) (attrs : Cache) (obj : NTree) : Except Err (Bytes × Cache) :=
  match pyLoop settable (3 * obj.size + 1) [.handleObj] [obj] [] attrs with
  | .error e => .error e
  | .ok (h :: _, attrs') => .ok (h, attrs')
  | .ok ([], _) => .error (.Panic "IndexError: list index out of range")

end Clvm.TreeHash
