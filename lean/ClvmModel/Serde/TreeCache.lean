/-
Faithful executable model of `src/serde/tree_cache.rs` (`TreeCache`: `new`, `undo_state`, `restore`,
`update`, `push`, `pop`, `pop2_and_cons`, `find_path`, `NodeEntry::add_parent`), of
`src/serde/bitset.rs` (`BitSet`) and of `src/serde/path_builder.rs` (`PathBuilder`), and on top of it
of `src/serde/incremental.rs` (`Serializer::new/add/restore/size/get_ref`) — `FSer`.

Unlike the protocol model of `Serde/Incremental.lean` (whose `find_path` is a policy and which the C19
theorems are about) this model *computes* the bytes, the defective behaviours of findings L, M, N
included; the `INC` stream compares them with the crate's recorded bytes exactly.

Node identity.  `node_map` is keyed by `NodePtr`; which nodes of a history are the same `NodePtr` is
part of the input (`Node`): a pair carries `some n` (a `NodePtr` of its own, the harness's `add:`
steps build every pair afresh) or `none` (built once per content and re-used, the harness's `adds:`
steps, memo over the whole request).  Atoms are identified by content: for an atom `update()` goes
through `atom_lookup` (content) whenever `node_map` misses, so both lead to the same `NodeEntry`; the
sentinel `NodePtr` is the marker atom (the harness puts the sentinel wherever a tree has it).
Assumptions: the salted SHA-1 of `hash_atom` is collision free on the atoms of one history
(`atom_lookup` is keyed by content here) — the salt therefore does not occur; `HashMap`s are
association lists (the Rust only uses `get`/`entry`/`insert`, never iterates).
`PathBuilder` is the list of pushed directions; `done()` is the right-aligned big-endian packing of
that bit string, `len()` its length, `serialized_length()` is transcribed on (`in_use`, `bit_pos`,
`store[0]`) computed from it; the bump arena and the `assert!`s on `in_use`/`store.len()` (which hold
by construction of `push`) have no counterpart.  Every other `expect`/`assert!`/`debug_assert!`/index
is an explicit `Err.Panic` (the harness builds the crate with debug assertions).
Loops run on explicit fuel (generous bounds, see `findPathFuel`/`updateFuel`); running out of fuel is a
`Panic "fuel"` and would show up as a disagreement with the crate.
-/
import ClvmModel.Serde.Incremental

namespace Clvm.Serde.TreeCache
open Clvm.Serde Clvm.Serde.Incremental

/-! ### nodes with identity -/

inductive Node where
  | atom (b : Bytes)
  | pair (id : Option Nat) (l r : Node)
  deriving Repr, DecidableEq, Inhabited

def Node.tree : Node → Tree
  | .atom b => .atom b
  | .pair _ l r => .pair l.tree r.tree

def Node.size : Node → Nat
  | .atom _ => 1
  | .pair _ l r => l.size + r.size + 1

/-- a `NodePtr` -/
inductive Key where
  | atom (b : Bytes)
  | fresh (n : Nat)
  | shared (t : Tree)
  deriving Repr, DecidableEq

def Node.key : Node → Key
  | .atom b => .atom b
  | .pair (some n) _ _ => .fresh n
  | .pair none l r => .shared (.pair l.tree r.tree)

/-- give every pair of a tree built by an `add:` step a `NodePtr` of its own; returns the next free number -/
def labelFresh : Tree → Nat → Node × Nat
  | .atom b, n => (.atom b, n)
  | .pair l r, n =>
    let (l', n1) := labelFresh l n
    let (r', n2) := labelFresh r n1
    (.pair (some n2) l' r', n2 + 1)

/-- an `adds:` step: every pair is the node built for this content -/
def labelShared : Tree → Node
  | .atom b => .atom b
  | .pair l r => .pair none (labelShared l) (labelShared r)

/-! ### association lists -/

def alGet {κ : Type} [DecidableEq κ] : List (κ × Nat) → κ → Option Nat
  | [], _ => none
  | (k', v) :: r, k => if k' = k then some v else alGet r k

def alSet {κ : Type} [DecidableEq κ] : List (κ × Nat) → κ → Nat → List (κ × Nat)
  | [], k, v => [(k, v)]
  | (k', v') :: r, k, v => if k' = k then (k', v) :: r else (k', v') :: alSet r k v

/-! ### `BitSet` -/

structure BitSet where
  /-- `bits.len()` -/
  words : Nat
  set : List Nat
  deriving Repr

def BITS : Nat := 64

/-- `BitSet::new(max_idx)` -/
def BitSet.new (maxIdx : Nat) : BitSet := { words := (maxIdx + BITS) / BITS, set := [] }

/-- `visit(idx)`: marks, returns whether it was marked (`self.bits[pos]`: index panic) -/
def BitSet.visit (b : BitSet) (idx : Nat) : Except Err (Bool × BitSet) :=
  if idx / BITS < b.words then
    if b.set.contains idx then .ok (true, b) else .ok (false, { b with set := idx :: b.set })
  else .error (.Panic "index out of bounds")

/-- `is_visited(idx)` -/
def BitSet.isVisited (b : BitSet) (idx : Nat) : Except Err Bool :=
  if idx / BITS < b.words then .ok (b.set.contains idx) else .error (.Panic "index out of bounds")

/-- `extend(max_idx)`: `assert!(max_idx as usize >= self.bits.len()); self.bits.resize(new_len, 0)` -/
def BitSet.extend (b : BitSet) (maxIdx : Nat) : Except Err BitSet :=
  if maxIdx ≥ b.words then
    let newLen := (maxIdx + BITS) / BITS
    .ok { words := newLen, set := b.set.filter (fun i => i / BITS < newLen) }
  else .error (.Panic "assertion failed: max_idx as usize >= self.bits.len()")

/-! ### `PathBuilder` -/

/-- the pushed directions, newest first (`true` = `ChildPos::Right`), and their number -/
structure PathB where
  rev : List Bool
  len : Nat
  deriving Repr

def PathB.empty : PathB := { rev := [], len := 0 }
def PathB.push (p : PathB) (d : Bool) : PathB := { rev := d :: p.rev, len := p.len + 1 }

/-- value of a bit string, most significant first -/
def bitsVal : List Bool → Nat → Nat
  | [], acc => acc
  | b :: r, acc => bitsVal r (2 * acc + (if b then 1 else 0))

/-- big-endian bytes of `v`, exactly `n` of them -/
def beBytes : Nat → Nat → Bytes → Bytes
  | 0, _, acc => acc
  | n + 1, v, acc => beBytes n (v / 256) (UInt8.ofNat (v % 256) :: acc)

/-- `done()`: the bit string (first pushed = most significant) right-aligned in `in_use` bytes -/
def PathB.done (p : PathB) : Bytes :=
  beBytes ((p.len + 7) / 8) (bitsVal p.rev.reverse 0) []

/-- `serialized_length()` -/
def PathB.serializedLength (p : PathB) : Nat :=
  let inUse := (p.len + 7) / 8
  if inUse == 0 then 1
  else if inUse == 1 then
    -- `self.bit_pos == 7 && self.store[0] >= 80`: all eight bits of the first byte are in use
    let store0 := bitsVal p.rev.reverse 0
    if p.len % 8 == 0 && store0 ≥ Gen.pathBuilderSingleByteMin then 2 else 1
  else
    match Gen.pathBuilderLenArms.find? (fun a => a.1 ≤ inUse && inUse ≤ a.2.1) with
    | some a => a.2.2 + inUse
    | none => 5 + inUse

/-! ### `TreeCache` -/

structure NodeEntry where
  /-- `(parent index, ChildPos)`, `true` = `Right` -/
  parents : List (Nat × Bool)
  serializedLength : Nat
  onStack : Nat
  deriving Repr, Inhabited

/-- `add_parent(parent, pos)` -/
def NodeEntry.addParent (e : NodeEntry) (parent : Nat) (pos : Bool) : NodeEntry :=
  if e.parents.length ≥ Gen.treeCacheMaxParents then
    let idx := parent + (if pos then 1 else 0)
    { e with parents := e.parents.set (idx % Gen.treeCacheMaxParents) (parent, pos) }
  else { e with parents := e.parents ++ [(parent, pos)] }

structure Checkpoint where
  stack : List Nat
  serializedNodes : BitSet
  sentinelEntry : Option Nat
  deriving Repr

structure TC where
  nodeMap : List (Key × Nat)
  entries : Array NodeEntry
  atomLookup : List (Bytes × Nat)
  pairLookup : List ((Nat × Nat) × Nat)
  /-- `Vec` order: bottom first, top last -/
  stack : List Nat
  serializedNodes : BitSet
  sentinel : Option Bytes
  deriving Repr

/-- `TreeCache::new(sentinel)` -/
def TC.new (sentinel : Option Bytes) : TC :=
  { nodeMap := [], entries := #[], atomLookup := [], pairLookup := [], stack := [],
    serializedNodes := { words := 0, set := [] }, sentinel := sentinel }

def TC.isSentinel (tc : TC) : Node → Bool
  | .atom b => tc.sentinel == some b
  | .pair _ _ _ => false

def TC.sentinelKey (tc : TC) : Option Key := tc.sentinel.map Key.atom

/-- `undo_state()` -/
def TC.undoState (tc : TC) : Checkpoint :=
  { stack := tc.stack, serializedNodes := tc.serializedNodes,
    sentinelEntry := match tc.sentinelKey with
      | some k => alGet tc.nodeMap k
      | none => none }

/-- `self.node_entries[i]` for update -/
def modEntry (es : Array NodeEntry) (i : Nat) (f : NodeEntry → Except Err NodeEntry) : Except Err (Array NodeEntry) :=
  match es[i]? with
  | none => .error (.Panic "index out of bounds")
  | some e =>
    match f e with
    | .error er => .error er
    | .ok e' => .ok (es.set! i e')

def decOnStack (es : Array NodeEntry) : List Nat → Except Err (Array NodeEntry)
  | [] => .ok es
  | i :: r =>
    match modEntry es i (fun e => if e.onStack == 0 then .error (.Panic "attempt to subtract with overflow")
        else .ok { e with onStack := e.onStack - 1 }) with
    | .error e => .error e
    | .ok es' => decOnStack es' r

def incOnStack (es : Array NodeEntry) : List Nat → Except Err (Array NodeEntry)
  | [] => .ok es
  | i :: r =>
    match modEntry es i (fun e => .ok { e with onStack := e.onStack + 1 }) with
    | .error e => .error e
    | .ok es' => incOnStack es' r

/-- `restore(st)` -/
def TC.restore (tc : TC) (st : Checkpoint) : Except Err TC :=
  match decOnStack tc.entries tc.stack with
  | .error e => .error e
  | .ok es =>
    if es.any (fun e => e.onStack != 0) then .error (.Panic "debug_assert_eq!(e.on_stack, 0)")
    else
      match incOnStack es st.stack with
      | .error e => .error e
      | .ok es' =>
        let tc' := { tc with entries := es', stack := st.stack, serializedNodes := st.serializedNodes }
        match st.sentinelEntry with
        | none => .ok tc'
        | some se =>
          match tc.sentinelKey with
          | none => .error (.Panic "called `Option::unwrap()` on a `None` value")
          | some k => .ok { tc' with nodeMap := alSet tc'.nodeMap k se }

inductive CacheOp where
  | traverse (n : Node)
  | cons (n : Node)

/-- `Vec::pop` on the local traversal stack (top = head here) -/
def popIdx : List Nat → Except Err (Nat × List Nat)
  | [] => .error (.Panic "empty stack")
  | x :: r => .ok (x, r)

/-- `match self.pair_lookup.entry(key) { Occupied(e) => *e.get(), Vacant(e) => { push a new entry; … } }` -/
def pairEntry (tc : TC) (leftIdx rightIdx sl : Nat) : Nat × TC :=
  match alGet tc.pairLookup (leftIdx, rightIdx) with
  | some i => (i, tc)
  | none =>
    (tc.entries.size,
     { tc with entries := tc.entries.push { parents := [], serializedLength := sl, onStack := 0 },
               pairLookup := alSet tc.pairLookup (leftIdx, rightIdx) tc.entries.size })

/-- the `while let Some(op) = ops.pop()` loop of `update`; `stack` top = head -/
def updateLoop : Nat → List CacheOp → List Nat → TC → Except Err (List Nat × TC)
  | 0, _, _, _ => .error (.Panic "fuel")
  | _ + 1, [], stack, tc => .ok (stack, tc)
  | fuel + 1, .traverse node :: ops, stack, tc =>
    if tc.isSentinel node then
      let idx := tc.entries.size
      let tc := { tc with nodeMap := alSet tc.nodeMap node.key idx,
                          entries := tc.entries.push { parents := [], serializedLength := 0, onStack := 0 } }
      updateLoop fuel ops (idx :: stack) tc
    else
      match alGet tc.nodeMap node.key with
      | some idx => updateLoop fuel ops (idx :: stack) tc
      | none =>
        match node with
        | .pair _ left right =>
          updateLoop fuel (.traverse left :: .traverse right :: .cons node :: ops) stack tc
        | .atom buf =>
          match alGet tc.atomLookup buf with
          | some idx =>
            updateLoop fuel ops (idx :: stack) { tc with nodeMap := alSet tc.nodeMap node.key idx }
          | none =>
            let idx := tc.entries.size
            let tc := { tc with atomLookup := alSet tc.atomLookup buf idx, nodeMap := alSet tc.nodeMap node.key idx,
                                entries := tc.entries.push { parents := [], serializedLength := Classic.serializedLengthAtom buf,
                                                             onStack := 0 } }
            updateLoop fuel ops (idx :: stack) tc
  | fuel + 1, .cons node :: ops, stack, tc =>
    match alGet tc.nodeMap node.key with
    | some idx => updateLoop fuel ops (idx :: stack) tc
    | none =>
      match popIdx stack with
      | .error e => .error e
      | .ok (rightIdx, stack1) =>
        match popIdx stack1 with
        | .error e => .error e
        | .ok (leftIdx, stack2) =>
          match tc.entries[leftIdx]?, tc.entries[rightIdx]? with
          | some left, some right =>
            let sl := if left.serializedLength > 0 ∧ right.serializedLength > 0 then
                Classic.satAdd 1 (Classic.satAdd left.serializedLength right.serializedLength) else 0
            let pe := pairEntry tc leftIdx rightIdx sl
            match modEntry pe.2.entries leftIdx (fun e => .ok (e.addParent pe.1 false)) with
            | .error e => .error e
            | .ok es1 =>
              match modEntry es1 rightIdx (fun e => .ok (e.addParent pe.1 true)) with
              | .error e => .error e
              | .ok es2 =>
                updateLoop fuel ops (pe.1 :: stack2)
                  { pe.2 with entries := es2, nodeMap := alSet pe.2.nodeMap node.key pe.1 }
          | _, _ => .error (.Panic "index out of bounds")

def updateFuel (root : Node) : Nat := 3 * root.size + 3

/-- the beginning of `update`: `root_parents.append(&mut self.node_entries[node_map[sentinel]].parents)` —
the parents of the sentinel entry of the last update are *moved* out -/
def TC.takeRootParents (tc : TC) : List (Nat × Bool) × TC :=
  match tc.sentinelKey with
  | none => ([], tc)
  | some k =>
    match alGet tc.nodeMap k with
    | none => ([], tc)
    | some idx =>
      match tc.entries[idx]? with
      | none => ([], tc)   -- cannot happen: indices in node_map are valid
      | some e => (e.parents, { tc with entries := tc.entries.set! idx { e with parents := [] } })

/-- `root_entry.parents.extend(root_parents); if len > MAX_PARENTS { drain(0..len - MAX_PARENTS) }` -/
def extendParents (e : NodeEntry) (rootParents : List (Nat × Bool)) : NodeEntry :=
  let ps := e.parents ++ rootParents
  { e with parents := if ps.length > Gen.treeCacheMaxParents then ps.drop (ps.length - Gen.treeCacheMaxParents) else ps }

/-- `update(a, root)` -/
def TC.update (tc : TC) (root : Node) : Except Err TC :=
  let rp := tc.takeRootParents
  match updateLoop (updateFuel root) [.traverse root] [] rp.2 with
  | .error e => .error e
  | .ok (stack, tc) =>
    if stack.length != 1 then .error (.Panic "debug_assert_eq!(stack.len(), 1)")
    else
      match stack with
      | [] => .error (.Panic "index out of bounds")
      | rootIdx :: _ =>
        match alGet tc.nodeMap root.key with
        | none => .error (.Panic "root not in node_map")
        | some ri =>
          if ri != rootIdx then .error (.Panic "debug_assert_eq!(root_idx, node_map[root])")
          else
            match modEntry tc.entries rootIdx (fun e => .ok (extendParents e rp.1)) with
            | .error e => .error e
            | .ok es =>
              match tc.serializedNodes.extend es.size with
              | .error e => .error e
              | .ok sn => .ok { tc with entries := es, serializedNodes := sn }

/-- `if c { b.visit(idx); }` -/
def visitIf (b : BitSet) (c : Bool) (idx : Nat) : Except Err BitSet :=
  if c then
    match b.visit idx with
    | .error e => .error e
    | .ok (_, b') => .ok b'
  else .ok b

/-- `push(node)` -/
def TC.push (tc : TC) (node : Node) : Except Err TC :=
  match alGet tc.nodeMap node.key with
  | none => .error (.Panic "invalid node")
  | some idx =>
    match tc.entries[idx]? with
    | none => .error (.Panic "index out of bounds")
    | some e =>
      -- `if entry.serialized_length >= MIN_SERIALIZED_LENGTH { self.serialized_nodes.visit(idx); }`
      match visitIf tc.serializedNodes (decide (e.serializedLength ≥ Gen.treeCacheMinSerializedLength)) idx with
      | .error er => .error er
      | .ok sn =>
        .ok { tc with entries := tc.entries.set! idx { e with onStack := e.onStack + 1 }, serializedNodes := sn,
                      stack := tc.stack ++ [idx] }

/-- `pop()` -/
def TC.pop (tc : TC) : Except Err TC :=
  match tc.stack.getLast? with
  | none => .error (.Panic "empty stack")
  | some idx =>
    match tc.entries[idx]? with
    | none => .error (.Panic "index out of bounds")
    | some e =>
      if e.onStack == 0 then .error (.Panic "assertion failed: entry.on_stack > 0")
      else .ok { tc with stack := tc.stack.dropLast, entries := tc.entries.set! idx { e with onStack := e.onStack - 1 } }

/-- `pop2_and_cons(node)` -/
def TC.pop2AndCons (tc : TC) (node : Node) : Except Err TC :=
  match tc.pop with
  | .error e => .error e
  | .ok tc1 =>
    match tc1.pop with
    | .error e => .error e
    | .ok tc2 => tc2.push node

/-! ### `find_path` -/

structure PP where
  path : PathB
  stackPos : Int
  idx : Nat
  child : Bool

/-- `Vec::swap_remove(i)` (the caller's index is in range) -/
def swapRemove (a : Array PP) (i : Nat) : Array PP :=
  match a.back? with
  | none => a
  | some last => if i + 1 < a.size then (a.pop).set! i last else a.pop

/-- `if cursor >= partial_paths.len() { cursor = 0; current_length += 1; }` -/
def wrap (size cursor curLen : Nat) : Nat × Nat :=
  if cursor ≥ size then (0, curLen + 1) else (cursor, curLen)

/-- `entry.parents.iter().position(|e| !seen.is_visited(e.0))` -/
def firstUnseen (seen : BitSet) : List (Nat × Bool) → Nat → Except Err (Option Nat)
  | [], _ => .ok none
  | (p, _) :: r, i =>
    match seen.isVisited p with
    | .error e => .error e
    | .ok true => firstUnseen seen r (i + 1)
    | .ok false => .ok (some i)

/-- `for parent in remaining_parents { if !seen.is_visited(parent.0) { partial_paths.push(…) } }` -/
def pushRemaining (seen : BitSet) (cur : PathB) : List (Nat × Bool) → Array PP → Except Err (Array PP)
  | [], a => .ok a
  | (p, c) :: r, a =>
    match seen.isVisited p with
    | .error e => .error e
    | .ok true => pushRemaining seen cur r a
    | .ok false => pushRemaining seen cur r (a.push { path := cur, stackPos := -1, idx := p, child := c })

/-- `self.stack.iter().rev().position(|v| *v == idx)` -/
def posFromTop (stack : List Nat) (idx : Nat) : Option Nat :=
  let r := stack.reverse
  match r.findIdx? (· == idx) with
  | some i => some i
  | none => none

/-- "the first viable parent is a special case, where we continue traversal on the `p` PartialPath":
the element written back at the cursor, the remaining parents, and `used_p` -/
def selectParent (p : PP) (path : PathB) (parents : List (Nat × Bool)) (fp : Option Nat) :
    PP × List (Nat × Bool) × Bool :=
  match fp with
  | some i =>
    match parents[i]? with
    | some (pi, pc) => ({ p with path := path, idx := pi, child := pc }, parents.drop (i + 1), true)
    | none => ({ p with path := path }, [], false)
  | none => ({ p with path := path }, [], false)

/-- `if entry.on_stack > 0 || !remaining_parents.is_empty() { … }`: fork the search to the remaining
parents and to the stack position of the entry -/
def forks (tc : TC) (seen : BitSet) (path : PathB) (idx onStack : Nat) (remaining : List (Nat × Bool))
    (pps : Array PP) : Except Err (Array PP) :=
  if onStack > 0 || !remaining.isEmpty then
    match pushRemaining seen path remaining pps with
    | .error e => .error e
    | .ok pps =>
      if onStack > 0 then
        match posFromTop tc.stack idx with
        | none => .error (.Panic "(internal error) node not on stack")
        | some sp => .ok (pps.push { path := path.push false, stackPos := Int.ofNat sp, idx := 0, child := false })
      else .ok pps
  else .ok pps

/-- the `loop` of `find_path`; `some path` = `break`, `none` = `return None` -/
def fpLoop (tc : TC) (limit : Nat) : Nat → Array PP → Nat → Nat → BitSet → Except Err (Option PathB)
  | 0, _, _, _, _ => .error (.Panic "fuel")
  | fuel + 1, pps, cursor, curLen, seen =>
    if pps.isEmpty then .ok none
    else if cursor == 0 && curLen > limit then .ok none
    else
      match pps[cursor]? with
      | none => .error (.Panic "index out of bounds")
      | some p =>
        if p.path.len > curLen then
          fpLoop tc limit fuel pps (wrap pps.size (cursor + 1) curLen).1 (wrap pps.size (cursor + 1) curLen).2 seen
        else if p.stackPos ≥ 0 then
          if p.stackPos == 0 then .ok (some p.path)
          else
            fpLoop tc limit fuel (pps.set! cursor { p with path := p.path.push true, stackPos := p.stackPos - 1 })
              (wrap pps.size (cursor + 1) curLen).1 (wrap pps.size (cursor + 1) curLen).2 seen
        else
          match seen.visit p.idx with
          | .error e => .error e
          | .ok (true, seen) =>
            fpLoop tc limit fuel (swapRemove pps cursor) (wrap (swapRemove pps cursor).size cursor curLen).1
              (wrap (swapRemove pps cursor).size cursor curLen).2 seen
          | .ok (false, seen) =>
            match tc.entries[p.idx]? with
            | none => .error (.Panic "index out of bounds")
            | some entry =>
              match firstUnseen seen entry.parents 0 with
              | .error e => .error e
              | .ok fp =>
                let sel := selectParent p (p.path.push p.child) entry.parents fp
                match forks tc seen (p.path.push p.child) p.idx entry.onStack sel.2.1 (pps.set! cursor sel.1) with
                | .error e => .error e
                | .ok pps2 =>
                  if sel.2.2 then
                    fpLoop tc limit fuel pps2 (wrap pps2.size (cursor + 1) curLen).1 (wrap pps2.size (cursor + 1) curLen).2 seen
                  else
                    fpLoop tc limit fuel (swapRemove pps2 cursor) (wrap (swapRemove pps2 cursor).size cursor curLen).1
                      (wrap (swapRemove pps2 cursor).size cursor curLen).2 seen

/-- iterations: per pass over the vector every element is stepped or removed once, every element is
created by a first visit of an entry (at most `MAX_PARENTS + 1` per entry); passes ≤ limit + 2 -/
def findPathFuel (tc : TC) (limit : Nat) : Nat :=
  (limit + 3) * (4 * (Gen.treeCacheMaxParents + 2) * (tc.entries.size + 2) + 8)

/-- `find_path(node)` -/
def TC.findPath (tc : TC) (node : Node) : Except Err (Option Bytes) :=
  if node.key = Key.atom [] then .ok none                 -- `node == NodePtr::NIL`
  else
    match alGet tc.nodeMap node.key with
    | none => .error (.Panic "invalid node")
    | some idx =>
      match tc.serializedNodes.isVisited idx with
      | .error e => .error e
      | .ok false => .ok none
      | .ok true =>
        match tc.entries[idx]? with
        | none => .error (.Panic "index out of bounds")
        | some entry =>
          if entry.serializedLength == 0 then .ok none
          else if entry.serializedLength < Gen.treeCacheMinSerializedLength then .ok none
          else
            let limit := min ((entry.serializedLength - 1) * 8) (2 ^ 64 - 1)
            let seen := BitSet.new tc.entries.size
            match fpLoop tc limit (findPathFuel tc limit) #[{ path := PathB.empty, stackPos := -1, idx := idx, child := true }]
                0 0 seen with
            | .error e => .error e
            | .ok none => .ok none
            | .ok (some ret) =>
              if ret.serializedLength + 1 > entry.serializedLength then .ok none else .ok (some ret.done)

/-! ### `Serializer` on the faithful cache -/

inductive FReadOp where
  | parse
  | cons (node : Node)

structure FSer where
  readOpStack : List FReadOp   -- top = head
  writeStack : List Node       -- top = head
  tc : TC
  output : Cursor

structure FUndo where
  readOpStack : List FReadOp
  writeStack : List Node
  treeCache : Checkpoint
  outputPosition : Nat

def FSer.new (sentinel : Option Bytes) : FSer :=
  { readOpStack := [.parse], writeStack := [], tc := TC.new sentinel, output := { buf := [], pos := 0 } }

/-- `while let Some(ReadOp::Cons(node)) = self.read_op_stack.last()` -/
def fPopConses : Nat → List FReadOp → TC → Except Err (List FReadOp × TC)
  | 0, _, _ => .error (.Panic "fuel")
  | fuel + 1, .cons node :: ops, tc =>
    match tc.pop2AndCons node with
    | .error e => .error e
    | .ok tc' => fPopConses fuel ops tc'
  | _ + 1, ops, tc => .ok (ops, tc)

/-- the three branches of one iteration: back-reference / pair / atom -/
def fEmit (s : FSer) (node : Node) : Option Bytes → Except Err FSer
  | some path =>
    match writeAtomCur (s.output.write [Classic.u8 Gen.incBackReference]) path with
    | .error e => .error e
    | .ok out =>
      match s.tc.push node with
      | .error e => .error e
      | .ok tc => .ok { s with output := out, tc := tc }
  | none =>
    match node with
    | .pair _ left right =>
      .ok { s with output := s.output.write [Classic.u8 Gen.incConsBoxMarker],
                   writeStack := left :: right :: s.writeStack,
                   readOpStack := .parse :: .parse :: .cons node :: s.readOpStack }
    | .atom atom =>
      match writeAtomCur s.output atom with
      | .error e => .error e
      | .ok out =>
        match s.tc.push node with
        | .error e => .error e
        | .ok tc => .ok { s with output := out, tc := tc }

/-- the loop of `add` -/
def fAddLoop : Nat → FSer → Except Err (FSer × Bool)
  | 0, _ => .error (.Panic "fuel")
  | fuel + 1, s =>
    match s.writeStack with
    | [] => .ok (s, true)
    | node :: ws =>
      if s.tc.isSentinel node then .ok ({ s with writeStack := ws }, false)
      else
        match s.readOpStack with
        | .parse :: ops =>
          match s.tc.findPath node with
          | .error e => .error e
          | .ok fp =>
            match fEmit { s with writeStack := ws, readOpStack := ops } node fp with
            | .error e => .error e
            | .ok s1 =>
              match fPopConses (s1.readOpStack.length + 1) s1.readOpStack s1.tc with
              | .error e => .error e
              | .ok (ops', tc') => fAddLoop fuel { s1 with readOpStack := ops', tc := tc' }
        | _ => .error (.Panic "assertion failed: op == Some(ReadOp::Parse)")

/-- `add(a, node)` -/
def FSer.add (s : FSer) (node : Node) : Except Err (FSer × Bool × FUndo) :=
  if s.readOpStack.isEmpty then .error (.Panic "assertion failed: !self.read_op_stack.is_empty()")
  else
    let undo : FUndo := { readOpStack := s.readOpStack, writeStack := s.writeStack, treeCache := s.tc.undoState,
                          outputPosition := s.output.pos }
    match s.tc.update node with
    | .error e => .error e
    | .ok tc =>
      let s := { s with tc := tc, writeStack := node :: s.writeStack }
      match fAddLoop ((s.writeStack.map Node.size).sum + 2) s with
      | .error e => .error e
      | .ok (s', done) => .ok (s', done, undo)

/-- `restore(state)` -/
def FSer.restore (s : FSer) (u : FUndo) : Except Err FSer :=
  match s.tc.restore u.treeCache with
  | .error e => .error e
  | .ok tc =>
    .ok { readOpStack := u.readOpStack, writeStack := u.writeStack, tc := tc,
          output := { buf := s.output.buf.take u.outputPosition, pos := u.outputPosition } }

end Clvm.Serde.TreeCache
