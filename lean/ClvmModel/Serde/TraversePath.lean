/-
Model of `src/traverse_path.rs`: `msb_mask`, `first_non_zero`, `traverse_path`, `traverse_path_fast`.

Transcription rules: the `while` loops are recursion on explicit fuel (shown sufficient in
`ClvmProofs/Lemmas/BackrefPath.lean`); the loop state is the Rust loop state (`byte_idx`, `bitmask`,
`arg_list`, `cost`); slice indexing and the `usize` decrement are explicit `Err.Panic` outcomes.
`allocator.sexp(n)` is a `match` on the tree.  Cost constants are the extracted ones (`Clvm.Gen`).
-/
import ClvmModel.Tree
import ClvmModel.Gen.TraversePath

namespace Clvm.Serde.TraversePath

/-- `msb_mask(byte: u8) -> u8` (the intermediate is a `u32`, the final cast truncates to `u8`) -/
def msbMask (byte : Nat) : Nat :=
  let b := byte ||| (byte >>> 1)
  let b := b ||| (b >>> 2)
  let b := b ||| (b >>> 4)
  ((b + 1) >>> 1) % 256

/-- `first_non_zero(buf)`: `while c < buf.len() && buf[c] == 0 { c += 1 }` -/
def firstNonZero : Bytes → Nat
  | [] => 0
  | b :: bs => if b.toNat == 0 then firstNonZero bs + 1 else 0

/-- the `while byte_idx > first_bit_byte_index || bitmask < last_bitmask` loop of `traverse_path` -/
def tpLoop (idx : Bytes) (first lastMask : Nat) :
    Nat → Nat → Nat → Tree → Nat → Except Err (Nat × Tree)
  | 0, _, _, _, _ => .error (.Panic "fuel")
  | fuel + 1, byteIdx, bitmask, argList, cost =>
    if byteIdx > first ∨ bitmask < lastMask then
      match idx[byteIdx]? with
      | none => .error (.Panic "index out of bounds")
      | some b =>
        let isBitSet := (b.toNat &&& bitmask) != 0
        match argList with
        | .atom _ => .error .PathIntoAtom
        | .pair left right =>
          let argList := if isBitSet then right else left
          if bitmask == 0x80 then
            if byteIdx == 0 then .error (.Panic "attempt to subtract with overflow")
            else tpLoop idx first lastMask fuel (byteIdx - 1) 1 argList (cost + Gen.traverseCostPerBit)
          else tpLoop idx first lastMask fuel byteIdx (bitmask <<< 1) argList (cost + Gen.traverseCostPerBit)
    else .ok (cost, argList)

/-- iterations available to the bit loops: one per bit of the index -/
def loopFuel (idx : Bytes) : Nat := 8 * idx.length + 1

/-- `traverse_path(allocator, node_index, args) -> Response` = `(cost, node)` -/
def traversePath (idx : Bytes) (args : Tree) : Except Err (Nat × Tree) :=
  let first := firstNonZero idx
  let cost := Gen.traverseBaseCost + first * Gen.traverseCostPerZeroByte + Gen.traverseCostPerBit
  if first ≥ idx.length then .ok (cost, Tree.nil)
  else
    match idx[first]? with
    | none => .error (.Panic "index out of bounds")
    | some fb =>
      let lastMask := msbMask fb.toNat
      tpLoop idx first lastMask (loopFuel idx) (idx.length - 1) 1 args cost

/-- the `while node_index != 1` loop of `traverse_path_fast` (`node_index ≥ 1` on entry; it halves
every iteration, so recursion on fuel = 32 bits of a `u32`). -/
def tpFastLoop : Nat → Nat → Tree → Nat → Except Err (Nat × Tree)
  | 0, _, _, _ => .error (.Panic "fuel")
  | fuel + 1, nodeIndex, argList, numBits =>
    if nodeIndex != 1 then
      match argList with
      | .atom _ => .error .PathIntoAtom
      | .pair left right =>
        let isBitSet := (nodeIndex &&& 0x01) != 0
        tpFastLoop fuel (nodeIndex >>> 1) (if isBitSet then right else left) (numBits + 1)
    else .ok (numBits, argList)

/-- `traverse_path_fast(allocator, node_index: u32, args)` -/
def traversePathFast (nodeIndex : Nat) (args : Tree) : Except Err (Nat × Tree) :=
  if nodeIndex == 0 then .ok (Gen.traverseBaseCost + Gen.traverseCostPerBit, Tree.nil)
  else
    let cost := Gen.traverseBaseCost + Gen.traverseCostPerBit
    match tpFastLoop 33 nodeIndex args 0 with
    | .error e => .error e
    | .ok (numBits, argList) =>
      let cost := cost + numBits * Gen.traverseCostPerBit
      let cost := if Gen.traverseFastZeroByteBits.contains numBits then cost + Gen.traverseCostPerZeroByte else cost
      .ok (cost, argList)

end Clvm.Serde.TraversePath
