/-
Model of `src/serde/read_cache_lookup.rs` (`ReadCacheLookup`: `new`, `push`, `pop`, `pop2_and_cons`,
`find_paths`, `find_path`, `reversed_path_to_vec_u8`) and of `atom_length_bits`
(`src/serde/serialized_length.rs`).

Node identity: the Rust keys every map by the SHA-256 tree hash of a node.  The model keys by the
tree itself (DESIGN §5 C17: tree-hash identity is modelled as tree equality; collision freedom of
SHA-256 is the stated assumption).  `hash_blob(&[1])` is the tree hash of the empty atom, and
`hash_blobs(&[&[2], l, r])` is the tree hash of the pair of the nodes hashing to `l`, `r`; so
`root_hash` is the *tree* `(top . (… . nil))` of the decoder's parse stack.

`HashMap`s are association lists: the Rust never iterates over `count`, `parent_lookup` or
`seen_ids` (only `get`/`entry`/`contains`/`insert`), so their internal order cannot reach the
output; the values of `parent_lookup` are `Vec`s in push order and are iterated in that order.
-/
import ClvmModel.Tree
import ClvmModel.Gen.Backref

namespace Clvm.Serde.ReadCache

/-- `HashMap<Bytes32, V>` -/
abbrev TMap (V : Type) := List (Tree × V)

def TMap.get? {V : Type} : TMap V → Tree → Option V
  | [], _ => none
  | (k', v) :: r, k => if k' = k then some v else TMap.get? r k

/-- `*m.entry(k).or_insert(dflt) = f(old)` -/
def TMap.upd {V : Type} : TMap V → Tree → V → (V → V) → TMap V
  | [], k, dflt, f => [(k, f dflt)]
  | (k', v) :: r, k, dflt, f => if k' = k then (k', f v) :: r else (k', v) :: TMap.upd r k dflt f

structure RCL where
  root : Tree
  /-- `Vec<(Bytes32, Bytes32)>`, top = head -/
  readStack : List (Tree × Tree)
  count : TMap Nat
  parentLookup : TMap (List (Tree × Bool))
  deriving Repr

/-- `ReadCacheLookup::new()` -/
def RCL.new : RCL :=
  { root := Tree.nil, readStack := [], count := [(Tree.nil, 1)], parentLookup := [] }

/-- `push(id)` -/
def RCL.push (s : RCL) (id : Tree) : RCL :=
  let newRoot := Tree.pair id s.root
  let readStack := (id, s.root) :: s.readStack
  let count := s.count.upd id 0 (· + 1)
  let count := count.upd newRoot 0 (· + 1)
  let pl := s.parentLookup.upd id [] (· ++ [(newRoot, false)])
  let pl := pl.upd s.root [] (· ++ [(newRoot, true)])
  { root := newRoot, readStack := readStack, count := count, parentLookup := pl }

/-- `*self.count.entry(k).or_insert(0) -= 1` on a `u32` (overflow check of the debug build) -/
def decCount (m : TMap Nat) (k : Tree) : Except Err (TMap Nat) :=
  if (m.get? k).getD 0 == 0 then .error (.Panic "attempt to subtract with overflow")
  else .ok (m.upd k 0 (· - 1))

/-- `pop()` -/
def RCL.pop (s : RCL) : Except Err ((Tree × Tree) × RCL) :=
  match s.readStack with
  | [] => .error (.Panic "stack empty")
  | item :: rest =>
    match decCount s.count item.1 with
    | .error e => .error e
    | .ok count =>
      match decCount count s.root with
      | .error e => .error e
      | .ok count => .ok (item, { s with readStack := rest, count := count, root := item.2 })

/-- `pop2_and_cons()` -/
def RCL.pop2AndCons (s : RCL) : Except Err RCL :=
  match s.pop with
  | .error e => .error e
  | .ok (right, s) =>
    match s.pop with
    | .error e => .error e
    | .ok (left, s) =>
      let count := s.count.upd left.1 0 (· + 1)
      let count := count.upd right.1 0 (· + 1)
      let newRoot := Tree.pair left.1 right.1
      let pl := s.parentLookup.upd left.1 [] (· ++ [(newRoot, false)])
      let pl := pl.upd right.1 [] (· ++ [(newRoot, true)])
      .ok ({ s with count := count, parentLookup := pl }.push newRoot)

/-! ### `atom_length_bits`, `reversed_path_to_vec_u8` -/

def thr (l : List Nat) (i : Nat) : Nat := l.getD i 0

/-- `atom_length_bits(num_bits) -> Option<u64>`; the `assert!` of the last arm is a panic outcome -/
def atomLengthBits (numBits : Nat) : Except Err (Option Nat) :=
  if numBits < Gen.atomLengthBitsSmall then .ok (some 1)
  else
    let numBytes := (numBits + 7) / 8
    let T := Gen.atomLengthBitsThresholds
    if 1 ≤ numBytes ∧ numBytes < thr T 0 then .ok (some (1 + numBytes))
    else if thr T 0 ≤ numBytes ∧ numBytes < thr T 1 then .ok (some (2 + numBytes))
    else if thr T 1 ≤ numBytes ∧ numBytes < thr T 2 then .ok (some (3 + numBytes))
    else if thr T 2 ≤ numBytes ∧ numBytes < thr T 3 then .ok (some (4 + numBytes))
    else if thr T 3 ≤ numBytes ∧ numBytes < thr T 4 then .ok (some (5 + numBytes))
    else if numBits ≥ thr T 4 * 8 - 7 then .ok none
    else .error (.Panic "assertion failed: num_bits >= 0x4_0000_0000 * 8 - 7")

/-- `v[index] |= mask` -/
def orAt (v : Bytes) (index mask : Nat) : Except Err Bytes :=
  match v[index]? with
  | none => .error (.Panic "index out of bounds")
  | some b => .ok (v.set index (b ||| UInt8.ofNat mask))

/-- the `for p in path.iter().rev()` loop of `reversed_path_to_vec_u8` (argument already reversed) -/
def rptLoop : List Bool → Bytes → Nat → Nat → Except Err (Bytes × Nat × Nat)
  | [], v, index, mask => .ok (v, index, mask)
  | p :: ps, v, index, mask =>
    match (if p then orAt v index mask else .ok v) with
    | .error e => .error e
    | .ok v =>
      if mask == 0x80 then
        if index == 0 then .error (.Panic "attempt to subtract with overflow")
        else rptLoop ps v (index - 1) 1
      else rptLoop ps v index (mask + mask)

/-- `reversed_path_to_vec_u8(path)` -/
def reversedPathToVecU8 (path : List Bool) : Except Err Bytes :=
  let byteCount := (path.length + 1 + 7) >>> 3
  let v : Bytes := List.replicate byteCount 0
  if byteCount == 0 then .error (.Panic "attempt to subtract with overflow")
  else
    match rptLoop path.reverse v (byteCount - 1) 1 with
    | .error e => .error e
    | .ok (v, index, mask) => orAt v index mask

/-! ### `find_paths`, `find_path` -/

abbrev Partial := Tree × List Bool

/-- `seen_ids.insert(x)` -/
def seenInsert (seen : List Tree) (x : Tree) : List Tree := if seen.contains x then seen else x :: seen

/-- `for (parent, direction) in items.iter()`; `none` = the early `return possible_responses` -/
def itemsLoop (s : RCL) (maxPathLength : Nat) (path : List Bool) :
    List (Tree × Bool) → List Partial → List Tree → Option (List Partial × List Tree)
  | [], np, seen => some (np, seen)
  | (parent, direction) :: rest, np, seen =>
    if (s.count.get? parent).getD 0 > 0 && !seen.contains parent then
      if path.length > maxPathLength then none
      else
        let np := if path.length < maxPathLength then np ++ [(parent, path ++ [direction])] else np
        itemsLoop s maxPathLength path rest np (seenInsert seen parent)
    else itemsLoop s maxPathLength path rest np (seenInsert seen parent)

/-- result of one sweep over `partial_paths` -/
inductive Sweep where
  | ret (possible : List Bytes)                                   -- early return
  | cont (possible : List Bytes) (np : List Partial) (seen : List Tree)

/-- `for (node, path) in partial_paths.iter_mut()` -/
def partialLoop (s : RCL) (maxBytes maxPathLength : Nat) :
    List Partial → List Bytes → List Partial → List Tree → Except Err Sweep
  | [], possible, np, seen => .ok (.cont possible np seen)
  | (node, path) :: rest, possible, np, seen =>
    if node = s.root then
      match atomLengthBits (path.length + 1) with
      | .error e => .error e
      | .ok (some pathLen) =>
        if pathLen ≤ maxBytes then
          match reversedPathToVecU8 path with
          | .error e => .error e
          | .ok p => partialLoop s maxBytes maxPathLength rest (possible ++ [p]) np seen
        else partialLoop s maxBytes maxPathLength rest possible np seen
      | .ok none => partialLoop s maxBytes maxPathLength rest possible np seen
    else
      match s.parentLookup.get? node with
      | none => partialLoop s maxBytes maxPathLength rest possible np seen
      | some items =>
        match itemsLoop s maxPathLength path items np seen with
        | none => .ok (.ret possible)
        | some (np, seen) => partialLoop s maxBytes maxPathLength rest possible np seen

/-- `while !partial_paths.is_empty()` (each level extends every path by one bit and no path grows
beyond `max_path_length`, so `max_path_length + 2` levels suffice) -/
def bfs (s : RCL) (maxBytes maxPathLength : Nat) : Nat → List Partial → List Tree → Except Err (List Bytes)
  | 0, _, _ => .error (.Panic "fuel")
  | fuel + 1, partialPaths, seen =>
    if partialPaths.isEmpty then .ok []
    else
      match partialLoop s maxBytes maxPathLength partialPaths [] [] seen with
      | .error e => .error e
      | .ok (.ret possible) => .ok possible
      | .ok (.cont possible np seen) =>
        if !possible.isEmpty then .ok possible
        else bfs s maxBytes maxPathLength fuel np seen

/-- `find_paths(id, serialized_length)` -/
def RCL.findPaths (s : RCL) (id : Tree) (serializedLength : Nat) : Except Err (List Bytes) :=
  if serializedLength < Gen.findPathsMinLength then .ok []
  else
    let maxBytes := serializedLength - 1
    -- (max_bytes.saturating_mul(8) - 1).try_into().unwrap_or(usize::MAX)
    let maxPathLength := min (maxBytes * 8) (2 ^ 64 - 1) - 1
    bfs s maxBytes maxPathLength (maxPathLength + 2) [(id, [])] [id]

/-- `Ord` of `Vec<u8>`: lexicographic -/
def bytesLt : Bytes → Bytes → Bool
  | [], [] => false
  | [], _ :: _ => true
  | _ :: _, [] => false
  | a :: as, b :: bs => if a < b then true else if b < a then false else bytesLt as bs

/-- first element of `paths.sort()` -/
def minBytes : List Bytes → Option Bytes
  | [] => none
  | p :: ps =>
    match minBytes ps with
    | none => some p
    | some q => some (if bytesLt q p then q else p)

/-- `find_path(id, serialized_length)` -/
def RCL.findPath (s : RCL) (id : Tree) (serializedLength : Nat) : Except Err (Option Bytes) :=
  match s.findPaths id serializedLength with
  | .error e => .error e
  | .ok paths => .ok (minBytes paths)

end Clvm.Serde.ReadCache
