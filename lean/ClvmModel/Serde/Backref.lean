/-
Model of the back-reference decoders and of the back-reference-aware length probe:

* `src/serde/de_br.rs`     `node_from_stream_backrefs` (vector parse stack, lazily materialised stack
                           lists, ghost pairs), `node_from_stream_backrefs_old` (list stack),
                           `node_from_bytes_backrefs`, `node_from_bytes_backrefs_old`,
                           `traverse_path_with_vec`
* `src/serde/parse_atom.rs` `parse_path`, `parse_atom` (with the allocator accounting that
                           `Classic.parseAtom` leaves out)
* `src/serde/tools.rs`     `serialized_length_from_bytes`
* `src/allocator.rs`       the *counting* behaviour of `new_pair`, `add_ghost_pair`,
                           `remove_ghost_pair`, `new_atom` (`Ctr`; node identity is irrelevant to a
                           decoder's result, so nodes are `Clvm.Tree` values)

Shared Rust functions are the shared Lean functions of `Serde/Classic.lean` (`parse_atom_ptr`,
`decode_size`) and `Serde/TraversePath.lean` (`traverse_path`, `first_non_zero`, `msb_mask`).
The `Cursor` is the unread remainder of the input; `seek(Current(n))` followed by the
`len < position` test is `remainder.length < n` (same verdict, nothing in between is observable).
A Rust `Vec` is a `List` in index order (index 0 = head = bottom of the stack).
-/
import ClvmModel.Serde.Classic
import ClvmModel.Serde.TraversePath
import ClvmModel.Gen.Allocator
import ClvmModel.Gen.Backref

namespace Clvm.Serde.Backref
open Clvm.Serde.TraversePath

/-! ### allocator counters -/

/-- what the decoders can observe of an `Allocator`: `pair_vec.len()`, `ghost_pairs`,
`atom_vec.len() + ghost_atoms` (only the sum is ever tested), `u8_vec.len() + ghost_heap`
(likewise), `heap_limit`. -/
structure Ctr where
  pairs : Nat
  ghostPairs : Nat
  atoms : Nat
  heap : Nat
  heapLimit : Nat
  deriving Repr, DecidableEq

/-- `Allocator::new_limited(heap_limit)` -/
def Ctr.fresh (heapLimit : Nat) : Ctr :=
  { pairs := 0, ghostPairs := Gen.initGhostPairs, atoms := Gen.initGhostAtoms, heap := Gen.initGhostHeap,
    heapLimit := heapLimit }

/-- `Allocator::new()` = `new_limited(u32::MAX)` -/
def Ctr.default : Ctr := Ctr.fresh (2 ^ 32 - 1)

/-- `pair_count()` -/
def Ctr.pairCount (c : Ctr) : Nat := c.pairs + c.ghostPairs

/-- `new_pair`: `if idx >= MAX_NUM_PAIRS - self.ghost_pairs { TooManyPairs }` (the `usize`
subtraction panics in a debug build when `ghost_pairs > MAX_NUM_PAIRS`). -/
def Ctr.newPair (c : Ctr) : Except Err Ctr :=
  if Gen.maxNumPairs < c.ghostPairs then .error (.Panic "attempt to subtract with overflow")
  else if c.pairs ≥ Gen.maxNumPairs - c.ghostPairs then .error .TooManyPairs
  else .ok { c with pairs := c.pairs + 1 }

/-- `add_ghost_pair(amount)`: `if MAX_NUM_PAIRS - self.ghost_pairs - self.pair_vec.len() < amount` -/
def Ctr.addGhostPair (c : Ctr) (amount : Nat) : Except Err Ctr :=
  if Gen.maxNumPairs < c.ghostPairs + c.pairs then .error (.Panic "attempt to subtract with overflow")
  else if Gen.maxNumPairs - c.ghostPairs - c.pairs < amount then .error .TooManyPairs
  else .ok { c with ghostPairs := c.ghostPairs + amount }

/-- `remove_ghost_pair(amount)`: `debug_assert!(self.ghost_pairs >= amount); self.ghost_pairs -= amount` -/
def Ctr.removeGhostPair (c : Ctr) (amount : Nat) : Except Err Ctr :=
  if c.ghostPairs < amount then .error (.Panic "debug_assert: ghost_pairs >= amount")
  else .ok { c with ghostPairs := c.ghostPairs - amount }

/-- `new_atom(v)`: heap check, `check_atom_limit`, then one more atom and `v.len()` more heap
(ghost or real: only the sums are observable). -/
def Ctr.newAtom (c : Ctr) (v : Bytes) : Except Err Ctr :=
  if c.heap + v.length > c.heapLimit then .error .OutOfMemory
  else if c.atoms == Gen.maxNumAtoms then .error .TooManyAtoms
  else .ok { c with atoms := c.atoms + 1, heap := c.heap + v.length }

/-! ### `parse_atom.rs` -/

/-- `parse_path(f)`: `(bytes of inp consumed, path)` -/
def parsePath (inp : Bytes) : Except Err (Nat × Bytes) :=
  match inp with
  | [] => .error .SerializationError   -- read_exact
  | b :: rest =>
    match Classic.parseAtomPtr rest b with
    | .error e => .error e
    | .ok (n, blob) => .ok (n + 1, blob)

/-- `parse_atom(allocator, first_byte, f)` with the allocator accounting -/
def parseAtom (inp : Bytes) (first : UInt8) (c : Ctr) : Except Err (Nat × Tree × Ctr) :=
  if first.toNat == 0x01 then .ok (0, .atom [1], c)        -- allocator.one()
  else if first.toNat == 0x80 then .ok (0, .atom [], c)    -- allocator.nil()
  else
    match Classic.parseAtomPtr inp first with
    | .error e => .error e
    | .ok (n, blob) =>
      match c.newAtom blob with
      | .error e => .error e
      | .ok c' => .ok (n, .atom blob, c')

/-! ### `traverse_path_with_vec` -/

/-- an entry of the decoder's `values` vector: the value and the optionally cached stack list -/
abbrev Entry := Tree × Option Tree

/-- loop state of `traverse_path_with_vec`: `(parsing_sexp, arg_index, sexp_to_parse)` -/
abbrev VecState := Bool × Nat × Tree

/-- the bit loop of `traverse_path_with_vec` -/
def tpvLoop (idx : Bytes) (first lastMask : Nat) (args : List Entry) :
    Nat → Nat → Nat → Bool → Nat → Tree → Except Err VecState
  | 0, _, _, _, _, _ => .error (.Panic "fuel")
  | fuel + 1, byteIdx, bitmask, parsingSexp, argIndex, sexpToParse =>
    if byteIdx > first ∨ bitmask < lastMask then
      match idx[byteIdx]? with
      | none => .error (.Panic "index out of bounds")
      | some b =>
        let isBitSet := (b.toNat &&& bitmask) != 0
        let next : Except Err VecState :=
          if parsingSexp then
            match sexpToParse with
            | .atom _ => .error .SerializationBackreferenceError
            | .pair left right => .ok (true, argIndex, if isBitSet then right else left)
          else if isBitSet then
            if argIndex == 0 then .ok (true, argIndex, sexpToParse)
            else .ok (false, argIndex - 1, sexpToParse)
          else
            match args[argIndex]? with
            | none => .error (.Panic "index out of bounds")
            | some x => .ok (true, argIndex, x.1)
        match next with
        | .error e => .error e
        | .ok (parsingSexp, argIndex, sexpToParse) =>
          if bitmask == 0x80 then
            if byteIdx == 0 then .error (.Panic "attempt to subtract with overflow")
            else tpvLoop idx first lastMask args fuel (byteIdx - 1) 1 parsingSexp argIndex sexpToParse
          else tpvLoop idx first lastMask args fuel byteIdx (bitmask <<< 1) parsingSexp argIndex sexpToParse
    else .ok (parsingSexp, argIndex, sexpToParse)

/-- `for x in args.iter_mut().take(n)`: build (or reuse) the stack list bottom-up.
Returns the updated entries, the last `backref_node` and the counters. -/
def materialise : List Entry → Nat → Tree → Ctr → Except Err (List Entry × Tree × Ctr)
  | xs, 0, backref, c => .ok (xs, backref, c)
  | [], _ + 1, backref, c => .ok ([], backref, c)
  | (v, some p) :: xs, n + 1, _, c =>
    match materialise xs n p c with
    | .error e => .error e
    | .ok (xs', r, c') => .ok ((v, some p) :: xs', r, c')
  | (v, none) :: xs, n + 1, backref, c =>
    match c.removeGhostPair 1 with
    | .error e => .error e
    | .ok c1 =>
      match c1.newPair with
      | .error e => .error e
      | .ok c2 =>
        let node := Tree.pair v backref
        match materialise xs n node c2 with
        | .error e => .error e
        | .ok (xs', r, c') => .ok ((v, some node) :: xs', r, c')

/-- `traverse_path_with_vec(allocator, node_index, args)`: result node, updated `args` (caches),
counters. -/
def traversePathWithVec (idx : Bytes) (args : List Entry) (c : Ctr) : Except Err (Tree × List Entry × Ctr) :=
  let parsingSexp := args.isEmpty
  let argIndex := if parsingSexp then 0 else args.length - 1
  let first := firstNonZero idx
  if first ≥ idx.length then .ok (Tree.nil, args, c)
  else
    match idx[first]? with
    | none => .error (.Panic "index out of bounds")
    | some fb =>
      let lastMask := msbMask fb.toNat
      match tpvLoop idx first lastMask args (loopFuel idx) (idx.length - 1) 1 parsingSexp argIndex Tree.nil with
      | .error e => .error e
      | .ok (parsingSexp, argIndex, sexpToParse) =>
        if parsingSexp then .ok (sexpToParse, args, c)
        else
          match materialise args (argIndex + 1) Tree.nil c with
          | .error e => .error e
          | .ok (args', node, c') => .ok (node, args', c')

/-! ### decoders -/

inductive ParseOp where
  | sexp
  | cons
  deriving Repr, DecidableEq

/-- `values.pop()` on a `Vec` -/
def vecPop {α : Type} (v : List α) : Option (α × List α) :=
  match v.getLast? with
  | none => none
  | some x => some (x, v.dropLast)

/-- `node_from_stream_backrefs`: `ops` top = head; `values` in `Vec` order (top = last).
Returns the node, the unread remainder and the counters. -/
def deBrNew (inp : Bytes) (ops : List ParseOp) (values : List Entry) (c : Ctr) :
    Except Err (Tree × Bytes × Ctr) :=
  match ops with
  | [] =>
    match vecPop values with
    | some (v, _) => .ok (v.1, inp, c)
    | none => .error (.Panic "Top of the stack")
  | .sexp :: ops' =>
    match inp with
    | [] => .error .SerializationError
    | b :: rest =>
      if b.toNat == Gen.deBrConsBoxMarker then
        deBrNew rest (.sexp :: .sexp :: .cons :: ops') values c
      else if b.toNat == Gen.deBrBackReference then
        match parsePath rest with
        | .error e => .error e
        | .ok (n, path) =>
          match traversePathWithVec path values c with
          | .error e => .error e
          | .ok (backReference, values', c1) =>
            match c1.addGhostPair 1 with
            | .error e => .error e
            | .ok c2 => deBrNew (rest.drop n) ops' (values' ++ [(backReference, none)]) c2
      else
        match parseAtom rest b c with
        | .error e => .error e
        | .ok (n, newAtom, c1) =>
          match c1.addGhostPair 1 with
          | .error e => .error e
          | .ok c2 => deBrNew (rest.drop n) ops' (values ++ [(newAtom, none)]) c2
  | .cons :: ops' =>
    match vecPop values with
    | none => .error (.Panic "No cons without two vals.")
    | some (right, values1) =>
      match vecPop values1 with
      | none => .error (.Panic "No cons without two vals.")
      | some (left, values2) =>
        match c.newPair with
        | .error e => .error e
        | .ok c1 =>
          match c1.addGhostPair 1 with
          | .error e => .error e
          | .ok c2 => deBrNew inp ops' (values2 ++ [(Tree.pair left.1 right.1, none)]) c2
termination_by (inp.length, ops.length)
decreasing_by
  · simp_wf; left; omega
  · simp_wf; left
    have : (List.drop n rest).length ≤ rest.length := by simp
    omega
  · simp_wf; left
    have : (List.drop n rest).length ≤ rest.length := by simp
    omega
  · simp_wf; right; omega

/-- `node_from_stream_backrefs_old`: `values` is the stack as a CLVM list -/
def deBrOld (inp : Bytes) (ops : List ParseOp) (values : Tree) (c : Ctr) :
    Except Err (Tree × Bytes × Ctr) :=
  match ops with
  | [] =>
    match values with
    | .pair v1 _ => .ok (v1, inp, c)
    | .atom _ => .error (.Panic "unexpected atom")
  | .sexp :: ops' =>
    match inp with
    | [] => .error .SerializationError
    | b :: rest =>
      if b.toNat == Gen.deBrConsBoxMarker then
        deBrOld rest (.sexp :: .sexp :: .cons :: ops') values c
      else if b.toNat == Gen.deBrBackReference then
        match parsePath rest with
        | .error e => .error e
        | .ok (n, path) =>
          match traversePath path values with
          | .error e => .error e
          | .ok (_, backReference) =>
            match c.newPair with
            | .error e => .error e
            | .ok c1 => deBrOld (rest.drop n) ops' (Tree.pair backReference values) c1
      else
        match parseAtom rest b c with
        | .error e => .error e
        | .ok (n, newAtom, c1) =>
          match c1.newPair with
          | .error e => .error e
          | .ok c2 => deBrOld (rest.drop n) ops' (Tree.pair newAtom values) c2
  | .cons :: ops' =>
    match values with
    | .atom _ => .error (.Panic "internal error")
    | .pair right rest =>
      match rest with
      | .atom _ => .error (.Panic "internal error")
      | .pair left rest =>
        match c.newPair with
        | .error e => .error e
        | .ok c1 =>
          match c1.newPair with
          | .error e => .error e
          | .ok c2 => deBrOld inp ops' (Tree.pair (Tree.pair left right) rest) c2
termination_by (inp.length, ops.length)
decreasing_by
  · simp_wf; left; omega
  · simp_wf; left
    have : (List.drop n rest).length ≤ rest.length := by simp
    omega
  · simp_wf; left
    have : (List.drop n rest).length ≤ rest.length := by simp
    omega
  · simp_wf; right; omega

/-- `node_from_bytes_backrefs(allocator, b)`: node, cursor position afterwards, counters -/
def nodeFromBytesBackrefs (b : Bytes) (c : Ctr) : Except Err (Tree × Nat × Ctr) :=
  match deBrNew b [.sexp] [] c with
  | .ok (t, rest, c') => .ok (t, b.length - rest.length, c')
  | .error e => .error e

/-- `node_from_bytes_backrefs_old(allocator, b)` -/
def nodeFromBytesBackrefsOld (b : Bytes) (c : Ctr) : Except Err (Tree × Nat × Ctr) :=
  match deBrOld b [.sexp] Tree.nil c with
  | .ok (t, rest, c') => .ok (t, b.length - rest.length, c')
  | .error e => .error e

/-! ### `serialized_length_from_bytes` (tools.rs) -/

/-- the loop of `serialized_length_from_bytes`: `values` is the shadow stack (a CLVM list whose
items have the *shape* of the decoded values, every atom being `nil`), `c` counts the pairs of
the probe's private allocator. -/
def lenLoop (inp : Bytes) (ops : List ParseOp) (values : Tree) (c : Ctr) : Except Err (Bytes × Ctr) :=
  match ops with
  | [] =>
    match values with
    | .pair _ _ => .ok (inp, c)
    | .atom _ => .error .SerializationError
  | .sexp :: ops' =>
    match inp with
    | [] => .error .SerializationError
    | b :: rest =>
      if b.toNat == Gen.toolsConsBoxMarker then
        lenLoop rest (.sexp :: .sexp :: .cons :: ops') values c
      else if b.toNat == Gen.toolsBackReference then
        match parsePath rest with
        | .error e => .error e
        | .ok (n, path) =>
          match traversePath path values with
          | .error e => .error e
          | .ok (_, backReference) =>
            match c.newPair with
            | .error e => .error e
            | .ok c1 => lenLoop (rest.drop n) ops' (Tree.pair backReference values) c1
      else if b.toNat == 0x80 || b.toNat ≤ Gen.toolsMaxSingleByte then
        match c.newPair with
        | .error e => .error e
        | .ok c1 => lenLoop rest ops' (Tree.pair Tree.nil values) c1
      else
        match Classic.decodeSize rest b.toNat with
        | .error e => .error e
        | .ok (off, blobSize) =>
          let rest1 := rest.drop (off - 1)
          -- f.seek(SeekFrom::Current(blob_size)); if len < position { SerializationError }
          if rest1.length < blobSize then .error .SerializationError
          else
            match c.newPair with
            | .error e => .error e
            | .ok c1 => lenLoop (rest1.drop blobSize) ops' (Tree.pair Tree.nil values) c1
  | .cons :: ops' =>
    match values with
    | .atom _ => .error .SerializationError
    | .pair v1 v2 =>
      match v2 with
      | .atom _ => .error .SerializationError
      | .pair v3 v4 =>
        match c.newPair with
        | .error e => .error e
        | .ok c1 =>
          match c1.newPair with
          | .error e => .error e
          | .ok c2 => lenLoop inp ops' (Tree.pair (Tree.pair v3 v1) v4) c2
termination_by (inp.length, ops.length)
decreasing_by
  · simp_wf; left; omega
  · simp_wf; left
    have : (List.drop n rest).length ≤ rest.length := by simp
    omega
  · simp_wf; left; omega
  · simp_wf; left
    have : (List.drop blobSize (List.drop (off - 1) rest)).length ≤ rest.length := by simp
    omega
  · simp_wf; right; omega

/-- `serialized_length_from_bytes(b)` -/
def serializedLengthFromBytes (b : Bytes) : Except Err Nat :=
  match lenLoop b [.sexp] Tree.nil Ctr.default with
  | .ok (rest, _) => .ok (b.length - rest.length)
  | .error e => .error e

end Clvm.Serde.Backref
