/-
Model of the classic CLVM serialization:

* `src/serde/write_atom.rs`   `write_atom_encoding_prefix_with_size`, `write_atom`
* `src/serde/ser.rs`          `LimitedWriter`, `node_to_stream`, `node_to_bytes_limit`, `node_to_bytes`
* `src/serde/parse_atom.rs`   `decode_size_with_offset`, `decode_size`, `parse_atom_ptr`, `parse_atom`
* `src/serde/de.rs`           `node_from_stream`, `node_from_bytes`
* `src/serde/tools.rs`        `serialized_length_from_bytes_trusted`, `is_canonical_atom`,
                              `is_canonical_serialization`
* `src/serde/serialized_length.rs`  `serialized_length_atom`, `atom_length_bits`
* `src/serde/object_cache.rs` `serialized_length` (the cached function; the cache is a function of
                              tree content, so the model is the recursion it memoises)

Transcription rules: the cursor `f` over `&[u8]` is the unread remainder `inp : Bytes`;
`while let Some(op) = ops.pop()` loops are recursion on explicit stacks (well-founded on a
stated measure); `unwrap` on an empty stack is `Err.Panic`; io errors are mapped exactly
where the Rust maps them (`map_err` / `?` via `From<io::Error>`).  All numeric thresholds are
the constants extracted from the sources (`Clvm.Gen`).
-/
import ClvmModel.Tree
import ClvmModel.Gen.SerdeClassic

namespace Clvm.Serde.Classic

def CONS_BOX_MARKER : Nat := 0xff
def BACK_REFERENCE : Nat := 0xfe
def MAX_SINGLE_BYTE : Nat := 0x7f

/-- n-th extracted threshold (0 when the table is shorter: then every comparison `size < 0`
fails and the ladder falls through to its last branch, as a mis-extraction should). -/
def thr (l : List Nat) (i : Nat) : Nat := l.getD i 0

/-! ### writer -/

/-- `LimitedWriter<Cursor<Vec<u8>>>` (`limit = some n`) or a plain `Vec<u8>` (`none`). -/
structure Writer where
  out : Bytes
  limit : Option Nat
  deriving Repr

/-- the `io::ErrorKind`s that matter -/
inductive IoErr where
  | outOfMemory
  | other
  deriving Repr, DecidableEq

/-- `impl From<std::io::Error> for EvalErr` (`src/error.rs`) -/
def errOfIo : IoErr → Err
  | .outOfMemory => .OutOfMemory
  | .other => .SerializationError

/-- `write_all(buf)` on a `LimitedWriter<Cursor<Vec<u8>>>` / `Vec<u8>`. -/
def Writer.write (w : Writer) (buf : Bytes) : Except IoErr Writer :=
  match w.limit with
  | none => .ok { w with out := w.out ++ buf }
  | some l =>
    if buf.isEmpty then .ok w   -- `write_all` of an empty buffer never calls `write`
    else if l < buf.length then .error .outOfMemory
    else .ok { out := w.out ++ buf, limit := some (l - buf.length) }

def u8 (n : Nat) : UInt8 := UInt8.ofNat (n % 256)

/-- `write_atom_encoding_prefix_with_size`: io errors go through `EvalErr::from`. -/
def writePrefix (w : Writer) (atom0 : Nat) (size : Nat) : Except Err Writer :=
  let T := Gen.writeAtomThresholds
  let put (b : Bytes) : Except Err Writer :=
    match w.write b with
    | .ok w' => .ok w'
    | .error e => .error (errOfIo e)
  if size == 0 then put [0x80]
  else if size == 1 && atom0 < 0x80 then .ok w
  else if size < thr T 0 then put [u8 (0x80 ||| size)]
  else if size < thr T 1 then put [u8 (0xc0 ||| (size >>> 8)), u8 size]
  else if size < thr T 2 then
    put [u8 (0xe0 ||| (size >>> 16)), u8 ((size >>> 8) &&& 0xff), u8 (size &&& 0xff)]
  else if size < thr T 3 then
    put [u8 (0xf0 ||| (size >>> 24)), u8 ((size >>> 16) &&& 0xff), u8 ((size >>> 8) &&& 0xff),
         u8 (size &&& 0xff)]
  else if size < thr T 4 then
    put [u8 (0xf8 ||| (size >>> 32)), u8 ((size >>> 24) &&& 0xff), u8 ((size >>> 16) &&& 0xff),
         u8 ((size >>> 8) &&& 0xff), u8 (size &&& 0xff)]
  else .error .SerializationError

/-- `write_atom`: prefix, then the body with io errors mapped to `OutOfMemory`. -/
def writeAtom (w : Writer) (atom : Bytes) : Except Err Writer :=
  let atom0 := match atom with
    | [] => 0
    | b :: _ => b.toNat
  match writePrefix w atom0 atom.length with
  | .error e => .error e
  | .ok w' =>
    match w'.write atom with
    | .ok w'' => .ok w''
    | .error _ => .error .OutOfMemory

def stackSize (st : List Tree) : Nat := (st.map Tree.size).sum

theorem Tree.size_pos (t : Tree) : 0 < t.size := by
  cases t <;> simp [Tree.size, Tree.pairs, Tree.atoms] <;> omega

/-- `node_to_stream`: `values` is the work stack (top = head).  The pair marker is written with
`f.write_all(&[CONS_BOX_MARKER])?`, i.e. an io error is converted by `From<io::Error>`. -/
def nodeToStream (values : List Tree) (w : Writer) : Except Err Writer :=
  match values with
  | [] => .ok w
  | .atom b :: st =>
    match writeAtom w b with
    | .error e => .error e
    | .ok w' => nodeToStream st w'
  | .pair l r :: st =>
    match w.write [u8 CONS_BOX_MARKER] with
    | .error e => .error (errOfIo e)
    | .ok w' => nodeToStream (l :: r :: st) w'
termination_by stackSize values
decreasing_by
  all_goals simp [stackSize, Tree.size, Tree.pairs, Tree.atoms]
  all_goals omega

/-- `node_to_bytes_limit` -/
def nodeToBytesLimit (t : Tree) (limit : Nat) : Except Err Bytes :=
  match nodeToStream [t] { out := [], limit := some limit } with
  | .ok w => .ok w.out
  | .error e => .error e

/-- `node_to_bytes` -/
def nodeToBytes (t : Tree) : Except Err Bytes := nodeToBytesLimit t Gen.nodeToBytesLimit

/-! ### reader -/

/-- `u8::leading_ones` -/
def leadingOnes (b : Nat) : Nat :=
  if b < 0x80 then 0 else if b < 0xC0 then 1 else if b < 0xE0 then 2 else if b < 0xF0 then 3
  else if b < 0xF8 then 4 else if b < 0xFC then 5 else if b < 0xFE then 6 else if b < 0xFF then 7
  else 8

/-- `for b in size_blob { atom_size <<= 8; atom_size += b }` -/
def beFold (acc : Nat) : Bytes → Nat
  | [] => acc
  | b :: bs => beFold ((acc <<< 8) + b.toNat) bs

/-- `decode_size_with_offset(f, initial_b)`: returns `(atom_start_offset, atom_size)`; it has then
consumed `atom_start_offset - 1` bytes of `inp`.  The `debug_assert!` on the top bit is a panic in
the (debug-profile) harness build; release builds return `InternalError` instead. -/
def decodeSizeWithOffset (inp : Bytes) (initialB : Nat) : Except Err (Nat × Nat) :=
  if initialB &&& 0x80 == 0 then .error (.Panic "debug_assert: Error Initializing Encoding")
  else
    let off := leadingOnes initialB
    if off ≥ 8 then .error .SerializationError
    else
      let bitMask := 0xff >>> off
      let b := initialB &&& bitMask
      if off > 1 ∧ inp.length < off - 1 then .error .SerializationError   -- read_exact
      else
        let sizeBlob := UInt8.ofNat b :: inp.take (off - 1)
        if sizeBlob.length > Gen.decodeSizeMaxPrefix then .error .SerializationError
        else
          let atomSize := beFold 0 sizeBlob
          if atomSize ≥ Gen.decodeSizeMax then .error .SerializationError
          else .ok (off, atomSize)

/-- `decode_size` -/
def decodeSize (inp : Bytes) (initialB : Nat) : Except Err (Nat × Nat) := decodeSizeWithOffset inp initialB

/-- `parse_atom_ptr(f, first_byte)`: `(number of bytes of `inp` consumed, blob)`. -/
def parseAtomPtr (inp : Bytes) (first : UInt8) : Except Err (Nat × Bytes) :=
  if first.toNat ≤ MAX_SINGLE_BYTE then .ok (0, [first])
  else
    match decodeSize inp first.toNat with
    | .error e => .error e
    | .ok (off, size) =>
      let rest := inp.drop (off - 1)
      if rest.length < size then .error .SerializationError
      else .ok (off - 1 + size, rest.take size)

/-- `parse_atom` at the tree level (`one()`, `nil()` and `new_atom(blob)` all denote the atom
with those bytes; their different allocator accounting is the allocator model's concern). -/
def parseAtom (inp : Bytes) (first : UInt8) : Except Err (Nat × Tree) :=
  if first.toNat == 0x01 then .ok (0, .atom [1])
  else if first.toNat == 0x80 then .ok (0, .atom [])
  else
    match parseAtomPtr inp first with
    | .error e => .error e
    | .ok (n, blob) => .ok (n, .atom blob)

inductive ParseOp where
  | sexp
  | cons
  deriving Repr, DecidableEq

/-- `node_from_stream`: `ops` and `values` are the two stacks (top = head); returns the tree and
the unread remainder. -/
def nodeFromStream (inp : Bytes) (ops : List ParseOp) (values : List Tree) : Except Err (Tree × Bytes) :=
  match ops with
  | [] =>
    match values with
    | v :: _ => .ok (v, inp)
    | [] => .error (.Panic "values.pop().unwrap()")
  | .sexp :: ops' =>
    match inp with
    | [] => .error .SerializationError
    | b :: rest =>
      if b.toNat == CONS_BOX_MARKER then
        nodeFromStream rest (.sexp :: .sexp :: .cons :: ops') values
      else
        match parseAtom rest b with
        | .error e => .error e
        | .ok (n, t) => nodeFromStream (rest.drop n) ops' (t :: values)
  | .cons :: ops' =>
    match values with
    | v2 :: v1 :: vs => nodeFromStream inp ops' (.pair v1 v2 :: vs)
    | _ => .error (.Panic "values.pop().unwrap()")
termination_by (inp.length, ops.length)
decreasing_by
  · simp_wf; left; omega
  · simp_wf; left; omega
  · simp_wf; right; omega

/-- `node_from_bytes` (trailing bytes are ignored) -/
def nodeFromBytes (b : Bytes) : Except Err Tree :=
  match nodeFromStream b [.sexp] [] with
  | .ok (t, _) => .ok t
  | .error e => .error e

/-- bytes consumed by `node_from_stream` (cursor position afterwards) -/
def nodeFromBytesConsumed (b : Bytes) : Except Err (Tree × Nat) :=
  match nodeFromStream b [.sexp] [] with
  | .ok (t, rest) => .ok (t, b.length - rest.length)
  | .error e => .error e

/-! ### length probes and canonical check (`tools.rs`) -/

/-- `serialized_length_from_bytes_trusted`: `pos` is the cursor position, which `seek` may move
past the end of the buffer (checked only afterwards). -/
def lenTrusted (buf : Bytes) (pos : Nat) (opsCounter : Nat) (fuel : Nat) : Except Err Nat :=
  match fuel with
  | 0 => .error (.Panic "fuel")
  | fuel + 1 =>
    if opsCounter == 0 then .ok pos
    else
      let opsCounter := opsCounter - 1
      match buf.drop pos with
      | [] => .error .SerializationError
      | b :: rest =>
        let pos := pos + 1
        if b.toNat == CONS_BOX_MARKER then lenTrusted buf pos (opsCounter + 2) fuel
        else if b.toNat == BACK_REFERENCE then
          match rest with
          | [] => .error .SerializationError
          | fb :: rest' =>
            let pos := pos + 1
            if fb.toNat > MAX_SINGLE_BYTE then
              match decodeSize rest' fb.toNat with
              | .error e => .error e
              | .ok (off, pathSize) =>
                let pos := pos + (off - 1) + pathSize
                if buf.length < pos then .error .SerializationError
                else lenTrusted buf pos opsCounter fuel
            else lenTrusted buf pos opsCounter fuel
        else if b.toNat == 0x80 || b.toNat ≤ MAX_SINGLE_BYTE then lenTrusted buf pos opsCounter fuel
        else
          match decodeSize rest b.toNat with
          | .error e => .error e
          | .ok (off, blobSize) =>
            let pos := pos + (off - 1) + blobSize
            if buf.length < pos then .error .SerializationError
            else lenTrusted buf pos opsCounter fuel

/-- `serialized_length_from_bytes_trusted(b)`; every iteration consumes ≥ 1 byte, so
`|b| + 1` iterations suffice. -/
def serializedLengthTrusted (b : Bytes) : Except Err Nat := lenTrusted b 0 1 (b.length + 2)

/-- `is_canonical_atom(f, first_byte)`: `none` = `false`; `some pos'` = `true` with the new cursor
position (which may lie beyond the end of the buffer after a `seek`).  The lookup in the
`min_value` table panics for a prefix length outside 1..6 (unreachable: `decode_size_with_offset`
rejects it). -/
def isCanonicalAtom (buf : Bytes) (pos : Nat) (first : Nat) : Except Err (Option Nat) :=
  if first == 0x80 || first ≤ MAX_SINGLE_BYTE then .ok (some pos)
  else
    match decodeSizeWithOffset (buf.drop pos) first with
    | .error (.Panic m) => .error (.Panic m)
    | .error _ => .ok none
    | .ok (prefixLen, atomLen) =>
      let pos := pos + (prefixLen - 1)
      if prefixLen < 1 ∨ prefixLen > 6 then .error (.Panic "unexpected atom length prefix")
      else
        let minValue := thr Gen.canonMinValue (prefixLen - 1)
        if atomLen == 1 then
          match buf.drop pos with
          | [] => .ok none
          | v :: _ =>
            if v.toNat < 0x80 then .ok none
            else .ok (if atomLen ≥ minValue then some (pos + 1) else none)
        else
          -- `seek(SeekFrom::Current(atom_len))` on a Cursor cannot fail for these magnitudes
          .ok (if atomLen ≥ minValue then some (pos + atomLen) else none)

/-- loop of `is_canonical_serialization` -/
def isCanonicalGo (buf : Bytes) (pos : Nat) (counter : Nat) (fuel : Nat) : Except Err Bool :=
  match fuel with
  | 0 => .error (.Panic "fuel")
  | fuel + 1 =>
    if counter == 0 then .ok (buf.length == pos)
    else
      let counter := counter - 1
      match buf.drop pos with
      | [] => .ok false
      | b :: rest =>
        let pos := pos + 1
        if b.toNat == CONS_BOX_MARKER then
          if buf.length < pos then .ok false else isCanonicalGo buf pos (counter + 2) fuel
        else if b.toNat == BACK_REFERENCE then
          match rest with
          | [] => .ok false
          | b2 :: _ =>
            let pos := pos + 1
            match isCanonicalAtom buf pos b2.toNat with
            | .error e => .error e
            | .ok none => .ok false
            | .ok (some pos') =>
              if buf.length < pos' then .ok false else isCanonicalGo buf pos' counter fuel
        else
          match isCanonicalAtom buf pos b.toNat with
          | .error e => .error e
          | .ok none => .ok false
          | .ok (some pos') =>
            if buf.length < pos' then .ok false else isCanonicalGo buf pos' counter fuel

/-- `is_canonical_serialization(b)` -/
def isCanonicalSerialization (b : Bytes) : Except Err Bool := isCanonicalGo b 0 1 (b.length + 2)

/-! ### `serialized_length.rs` and the object-cache length -/

/-- `serialized_length_atom(buf)` (on `u32`; lengths are < 2^32 by the allocator's heap limit) -/
def serializedLengthAtom (buf : Bytes) : Nat :=
  let lb := buf.length
  let T := Gen.serLenAtomThresholds
  let b0 := match buf with
    | [] => 0
    | b :: _ => b.toNat
  if lb == 0 || (lb == 1 && b0 < 128) then 1
  else if lb < thr T 0 then 1 + lb
  else if lb < thr T 1 then 2 + lb
  else if lb < thr T 2 then 3 + lb
  else if lb < thr T 3 then 4 + lb
  else 5 + lb

/-- `ObjectCache<u64>` with `serialized_length`: the function the cache memoises
(`1.saturating_add(left).saturating_add(right)` on `u64`). -/
def satAdd (a b : Nat) : Nat := min (a + b) (2 ^ 64 - 1)

def cacheSerializedLength : Tree → Nat
  | .atom b => serializedLengthAtom b
  | .pair l r => satAdd (satAdd 1 (cacheSerializedLength l)) (cacheSerializedLength r)

end Clvm.Serde.Classic
