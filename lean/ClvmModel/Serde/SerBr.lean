/-
Model of `src/serde/ser_br.rs`: `node_to_stream_backrefs`, `node_to_bytes_backrefs`,
`node_to_bytes_backrefs_limit`.

The two `ObjectCache`s memoise functions of the node's *content*: `treehash` (modelled as the tree
itself, see `ReadCache.lean`) and `serialized_length` (`Classic.cacheSerializedLength`, the shared
Rust function of `object_cache.rs`).  The writer is `Classic.Writer` (`LimitedWriter` or a plain
cursor), `write_atom` is `Classic.writeAtom`.
-/
import ClvmModel.Serde.Classic
import ClvmModel.Serde.ReadCache

namespace Clvm.Serde.SerBr
open Clvm.Serde.ReadCache Clvm.Serde

inductive ReadOp where
  | parse
  | cons
  deriving Repr, DecidableEq

/-- `while let Some(ReadOp::Cons) = read_op_stack.last() { pop; read_cache_lookup.pop2_and_cons() }` -/
def popCons : List ReadOp → RCL → Except Err (List ReadOp × RCL)
  | .cons :: ops, s =>
    match s.pop2AndCons with
    | .error e => .error e
    | .ok s' => popCons ops s'
  | ops, s => .ok (ops, s)

/-- `f.write_all(&[b])?` -/
def writeByte (w : Classic.Writer) (b : Nat) : Except Err Classic.Writer :=
  match w.write [Classic.u8 b] with
  | .ok w' => .ok w'
  | .error e => .error (Classic.errOfIo e)

/-- the `while let Some(node_to_write) = write_stack.pop()` loop (both stacks: top = head) -/
def serLoop (writeStack : List Tree) (readOps : List ReadOp) (s : RCL) (w : Classic.Writer) :
    Except Err Classic.Writer :=
  match writeStack with
  | [] => .ok w
  | node :: ws =>
    match readOps with
    | .parse :: ops =>
      let nodeSerializedLength := Classic.cacheSerializedLength node
      match s.findPath node nodeSerializedLength with
      | .error e => .error e
      | .ok (some path) =>
        match writeByte w Gen.serBrBackReference with
        | .error e => .error e
        | .ok w1 =>
          match Classic.writeAtom w1 path with
          | .error e => .error e
          | .ok w2 =>
            match popCons ops (s.push node) with
            | .error e => .error e
            | .ok (ops', s') => serLoop ws ops' s' w2
      | .ok none =>
        match node with
        | .pair left right =>
          match writeByte w Gen.serBrConsBoxMarker with
          | .error e => .error e
          | .ok w1 =>
            -- the trailing `while let Some(Cons)` finds `Parse` on top: no iteration
            serLoop (left :: right :: ws) (.parse :: .parse :: .cons :: ops) s w1
        | .atom atom =>
          match Classic.writeAtom w atom with
          | .error e => .error e
          | .ok w1 =>
            match popCons ops (s.push node) with
            | .error e => .error e
            | .ok (ops', s') => serLoop ws ops' s' w1
    | _ => .error (.Panic "assertion failed: op == Some(ReadOp::Parse)")
termination_by Classic.stackSize writeStack
decreasing_by
  all_goals simp only [Classic.stackSize, List.map_cons, List.sum_cons]
  · have := Classic.Tree.size_pos node; omega
  · simp only [Tree.size, Tree.pairs, Tree.atoms]; omega
  · have := Classic.Tree.size_pos (.atom atom); omega

/-- `node_to_stream_backrefs(allocator, node, f)` -/
def nodeToStreamBackrefs (t : Tree) (w : Classic.Writer) : Except Err Classic.Writer :=
  serLoop [t] [.parse] RCL.new w

/-- `node_to_bytes_backrefs_limit(a, node, limit)` -/
def nodeToBytesBackrefsLimit (t : Tree) (limit : Nat) : Except Err Bytes :=
  match nodeToStreamBackrefs t { out := [], limit := some limit } with
  | .ok w => .ok w.out
  | .error e => .error e

/-- `node_to_bytes_backrefs(a, node)` -/
def nodeToBytesBackrefs (t : Tree) : Except Err Bytes :=
  match nodeToStreamBackrefs t { out := [], limit := none } with
  | .ok w => .ok w.out
  | .error e => .error e

end Clvm.Serde.SerBr
