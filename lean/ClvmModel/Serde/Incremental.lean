/-
Protocol model of `src/serde/incremental.rs` (`Serializer::new`, `add`, `restore`, `size`, `get_ref`,
`into_inner`) on top of an *abstraction* of `src/serde/tree_cache.rs` (`TreeCache`).

What is transcribed.  The control flow of `add` (entry `assert!`, the undo state taken first, the
`while let Some(node_to_write) = write_stack.pop()` loop with the sentinel test, the `assert!` on the
operation stack, the three branches back-reference / pair / atom, the trailing `while let Some(Cons)`
loop), of `restore` (stacks, cache checkpoint, `set_position` + `truncate`), the output
`Cursor<Vec<u8>>` with its position, and from `TreeCache`: `push`, `pop`, `pop2_and_cons` acting on the
parse stack, `NodeEntry::serialized_length` (0 for the sentinel and its ancestors, `saturating_add`
otherwise), the early exits of `find_path` (`node == NIL`, `serialized_length == 0`,
`serialized_length < MIN_SERIALIZED_LENGTH`).  `write_atom` is the shared `Classic.writeAtom`.

What is abstracted (DESIGN §5 C19; C19 is *partial* for this reason).
* Node identity.  A node is its tree (`Clvm.Tree`).  The sentinel `NodePtr` is a reserved atom value,
  the *marker*: in every added tree an atom equal to the marker stands for the sentinel node (this is
  also how the harness builds the trees).  `node_map`, `node_entries`, `atom_lookup`, `pair_lookup`,
  the salted SHA-1 identities, `parents` with their 8-entry eviction, `on_stack`, `serialized_nodes`
  and the `sentinel_entry` of a checkpoint are **not modelled**; `update()` therefore has no
  counterpart.  Consequently the `expect("invalid node")`, `expect("root not in node_map")`,
  `expect("(internal error) node not on stack")`, `assert!(entry.on_stack > 0)`, the `BitSet` index
  and `BitSet::extend` assertion have no outcome here (they speak about state the abstraction does
  not have); the implementation-only oracle runs every history under `catch_unwind`.
* The parse stack `TreeCache::stack` is kept as its *mirror*: the CLVM list `(top . (next . … nil))`
  of the *contents* of the stacked entries (as `ReadCacheLookup`'s `root` in `Serde/ReadCache.lean`).
  `pop2_and_cons(node)` pushes the pair of the two popped contents (the entry of `node` stands for
  exactly that once the sentinels below it have been filled in).
* `find_path` beyond its early exits (the `serialized_nodes` test, the lock-step breadth-first search
  over `parents` and the stack, the final `backref_len + 1 > serialized_length` test) is a **policy**
  `FindPath`, a parameter of `add`.  The policy is per call of `add` and a function of the serializer
  state; every iteration of the loop appends at least one byte before the next consultation, so the
  states at which one call consults it are pairwise distinct and *any* sequence of answers of the real
  `find_path` is the behaviour of some policy.  Theorems quantify over all policies that are `Valid`
  (a returned path leads from the mirror to a node equal to the requested one); the correspondence
  stream *checks* validity for every path the real serializer emitted (`replayChecked`).
* The salt (`TreeCache::salt`, `RandomState`) does not occur anywhere in this model.
-/
import ClvmModel.Serde.Classic
import ClvmModel.Serde.TraversePath
import ClvmModel.Serde.Backref
import ClvmModel.Gen.Incremental

namespace Clvm.Serde.Incremental
open Clvm.Serde

/-- `enum ReadOp { Parse, Cons(NodePtr) }` -/
inductive ReadOp where
  | parse
  | cons (node : Tree)
  deriving Repr, DecidableEq

/-! ### `Cursor<Vec<u8>>` -/

structure Cursor where
  buf : Bytes
  pos : Nat
  deriving Repr, DecidableEq

/-- `write_all(bs)` on a `Cursor<Vec<u8>>` (never fails): an empty slice does nothing; otherwise the
vector is zero-extended up to the position, the bytes overwrite / extend from there. -/
def Cursor.write (c : Cursor) (bs : Bytes) : Cursor :=
  if bs.isEmpty then c
  else
    let padded := if c.buf.length < c.pos then c.buf ++ List.replicate (c.pos - c.buf.length) 0 else c.buf
    { buf := padded.take c.pos ++ bs ++ padded.drop (c.pos + bs.length), pos := c.pos + bs.length }

/-- `write_atom(&mut self.output, atom)?`: the bytes `write_atom` produces, written at the cursor -/
def writeAtomCur (c : Cursor) (atom : Bytes) : Except Err Cursor :=
  match Classic.writeAtom { out := [], limit := none } atom with
  | .error e => .error e
  | .ok w => .ok (c.write w.out)

/-! ### the abstraction of `TreeCache` -/

structure Cache where
  /-- `sentinel_node`, as the marker atom -/
  sentinel : Option Bytes
  /-- mirror of `stack`: the CLVM list of the stacked contents, top first -/
  root : Tree
  deriving Repr, DecidableEq

/-- `Some(node) == self.tree_cache.sentinel_node` -/
def isSentinel (sentinel : Option Bytes) : Tree → Bool
  | .atom b => sentinel == some b
  | .pair _ _ => false

/-- `NodeEntry::serialized_length` as `update()` computes it: 0 for the sentinel and every ancestor
of it, `serialized_length_atom` for atoms, `1.saturating_add(l.saturating_add(r))` for pairs -/
def entryLen (sentinel : Option Bytes) : Tree → Nat
  | .atom b => if sentinel == some b then 0 else Classic.serializedLengthAtom b
  | .pair l r =>
    let a := entryLen sentinel l
    let b := entryLen sentinel r
    if a > 0 ∧ b > 0 then Classic.satAdd 1 (Classic.satAdd a b) else 0

/-- `push(node)` (for a node without sentinel below it: its entry's content is the node itself) -/
def Cache.push (c : Cache) (node : Tree) : Cache := { c with root := Tree.pair node c.root }

/-- `pop()`: `self.stack.pop().expect("empty stack")` -/
def Cache.pop (c : Cache) : Except Err (Tree × Cache) :=
  match c.root with
  | .pair top rest => .ok (top, { c with root := rest })
  | .atom _ => .error (.Panic "empty stack")

/-- `pop2_and_cons(node)`: `pop(); pop(); push(node)`; the content of `node`'s entry is the pair of the
two popped contents -/
def Cache.pop2AndCons (c : Cache) (_node : Tree) : Except Err Cache :=
  match c.pop with
  | .error e => .error e
  | .ok (right, c1) =>
    match c1.pop with
    | .error e => .error e
    | .ok (left, c2) => .ok (c2.push (Tree.pair left right))

/-- `TreeCache::restore(checkpoint)`: only the stack is part of the abstraction -/
def Cache.restore (c : Cache) (root : Tree) : Cache := { c with root := root }

/-! ### `Serializer` -/

structure Ser where
  /-- top = head -/
  readOpStack : List ReadOp
  /-- top = head; trees may contain the marker -/
  writeStack : List Tree
  cache : Cache
  output : Cursor
  deriving Repr, DecidableEq

structure UndoState where
  readOpStack : List ReadOp
  writeStack : List Tree
  /-- `TreeCacheCheckpoint` (its `stack`) -/
  treeCache : Tree
  outputPosition : Nat
  deriving Repr, DecidableEq

/-- `Serializer::new(sentinel)` -/
def Ser.new (sentinel : Option Bytes) : Ser :=
  { readOpStack := [.parse], writeStack := [], cache := { sentinel := sentinel, root := Tree.nil },
    output := { buf := [], pos := 0 } }

/-- the part of `find_path` that is not transcribed: a function of the serializer state (after the
two `pop`s of the iteration) and the requested node -/
abbrev FindPath := Ser → Tree → Option Bytes

/-- `TreeCache::find_path(node)`: the early exits, then the policy -/
def findPath (fp : FindPath) (s : Ser) (node : Tree) : Option Bytes :=
  if node = Tree.nil then none                                -- `if node == NodePtr::NIL`
  else
    let sl := entryLen s.cache.sentinel node
    if sl == 0 then none                                      -- the sentinel or one of its ancestors
    else if sl < Gen.treeCacheMinSerializedLength then none
    else fp s node

/-- `while let Some(ReadOp::Cons(node)) = self.read_op_stack.last() { pop; tree_cache.pop2_and_cons(node) }` -/
def popConses : List ReadOp → Cache → Except Err (List ReadOp × Cache)
  | .cons node :: ops, c =>
    match c.pop2AndCons node with
    | .error e => .error e
    | .ok c' => popConses ops c'
  | ops, c => .ok (ops, c)

/-- the `while let Some(node_to_write) = self.write_stack.pop()` loop of `add`; `true` = the loop ran
out of nodes (`Ok((true, _))`), `false` = it met the sentinel -/
def addLoop (fp : FindPath) (writeStack : List Tree) (readOps : List ReadOp) (cache : Cache) (out : Cursor) :
    Except Err (Ser × Bool) :=
  match writeStack with
  | [] => .ok ({ readOpStack := readOps, writeStack := [], cache := cache, output := out }, true)
  | node :: ws =>
    if isSentinel cache.sentinel node then
      .ok ({ readOpStack := readOps, writeStack := ws, cache := cache, output := out }, false)
    else
      match readOps with
      | .parse :: ops =>
        match findPath fp { readOpStack := ops, writeStack := ws, cache := cache, output := out } node with
        | some path =>
          let out1 := out.write [Classic.u8 Gen.incBackReference]
          match writeAtomCur out1 path with
          | .error e => .error e
          | .ok out2 =>
            match popConses ops (cache.push node) with
            | .error e => .error e
            | .ok (ops', cache') => addLoop fp ws ops' cache' out2
        | none =>
          match node with
          | .pair left right =>
            let out1 := out.write [Classic.u8 Gen.incConsBoxMarker]
            -- the trailing `while let Some(Cons)` finds `Parse` on top: no iteration
            addLoop fp (left :: right :: ws) (.parse :: .parse :: .cons (.pair left right) :: ops) cache out1
          | .atom atom =>
            match writeAtomCur out atom with
            | .error e => .error e
            | .ok out1 =>
              match popConses ops (cache.push (.atom atom)) with
              | .error e => .error e
              | .ok (ops', cache') => addLoop fp ws ops' cache' out1
      | _ => .error (.Panic "assertion failed: op == Some(ReadOp::Parse)")
termination_by Classic.stackSize writeStack
decreasing_by
  all_goals simp only [Classic.stackSize, List.map_cons, List.sum_cons]
  · have := Classic.Tree.size_pos node; omega
  · simp only [Tree.size, Tree.pairs, Tree.atoms]; omega
  · have := Classic.Tree.size_pos (.atom atom); omega

/-- the undo state `add` takes before doing anything (`undo_state()` of the cache = its stack) -/
def Ser.undoState (s : Ser) : UndoState :=
  { readOpStack := s.readOpStack, writeStack := s.writeStack, treeCache := s.cache.root,
    outputPosition := s.output.pos }

/-- `Serializer::add(a, node) -> Result<(bool, UndoState)>` (`tree_cache.update` has no counterpart) -/
def Ser.add (fp : FindPath) (s : Ser) (node : Tree) : Except Err (Ser × Bool × UndoState) :=
  if s.readOpStack.isEmpty then .error (.Panic "assertion failed: !self.read_op_stack.is_empty()")
  else
    match addLoop fp (node :: s.writeStack) s.readOpStack s.cache s.output with
    | .error e => .error e
    | .ok (s', done) => .ok (s', done, s.undoState)

/-- `Serializer::restore(state)` -/
def Ser.restore (s : Ser) (u : UndoState) : Ser :=
  { readOpStack := u.readOpStack, writeStack := u.writeStack, cache := s.cache.restore u.treeCache,
    output := { buf := s.output.buf.take u.outputPosition, pos := u.outputPosition } }

/-- `size()` -/
def Ser.size (s : Ser) : Nat := s.output.pos

/-- `get_ref()` -/
def Ser.getRef (s : Ser) : Bytes := s.output.buf

/-- `into_inner()` -/
def Ser.intoInner (s : Ser) : Except Err Bytes :=
  if s.readOpStack.isEmpty then .ok s.output.buf
  else .error (.Panic "assertion failed: self.read_op_stack.is_empty()")

/-! ### histories and the assembled tree (specification side) -/

/-- replace the leftmost marker atom of `t` by `x`; `none`: there is none -/
def substFirst (m : Bytes) (x : Tree) : Tree → Option Tree
  | .atom b => if b = m then some x else none
  | .pair l r =>
    match substFirst m x l with
    | some l' => some (Tree.pair l' r)
    | none =>
      match substFirst m x r with
      | some r' => some (Tree.pair l r')
      | none => none

/-- later additions, put one after the other at the leftmost remaining sentinel -/
def assembleFrom (sentinel : Option Bytes) : Tree → List Tree → Option Tree
  | cur, [] => some cur
  | cur, x :: xs =>
    match sentinel with
    | none => none
    | some m =>
      match substFirst m x cur with
      | none => none
      | some cur' => assembleFrom sentinel cur' xs

/-- the tree assembled from the retained additions -/
def assemble (sentinel : Option Bytes) : List Tree → Option Tree
  | [] => none
  | t :: ts => assembleFrom sentinel t ts

/-- no sentinel left -/
def noSentinel (sentinel : Option Bytes) : Tree → Bool
  | .atom b => !(sentinel == some b)
  | .pair l r => noSentinel sentinel l && noSentinel sentinel r

inductive Step where
  /-- `add(a, node)` with the policy in force during this call -/
  | add (fp : FindPath) (t : Tree)
  /-- `restore` of the undo state taken by the k-th retained addition (1-based) -/
  | undo (k : Nat)

/-- a serializer together with what a caller keeps: the undo states and trees of the retained
additions, and the last verdict -/
structure Run where
  s : Ser
  undos : List UndoState
  trees : List Tree
  done : Bool

def Run.new (sentinel : Option Bytes) : Run := { s := Ser.new sentinel, undos := [], trees := [], done := false }

/-- one call; `undo k` needs an undo state for position `k` (a state taken by the k-th retained
addition, or by an addition that was undone to exactly this position) -/
def Run.step (r : Run) : Step → Except Err Run
  | .add fp t =>
    match r.s.add fp t with
    | .error e => .error e
    | .ok (s', done, u) =>
      .ok { s := s', undos := r.undos.take r.trees.length ++ [u], trees := r.trees ++ [t], done := done }
  | .undo k =>
    if k = 0 then .error (.InvalidOpArg "undo index")
    else
      match r.undos[k - 1]? with
      | none => .error (.InvalidOpArg "undo index")
      | some u => .ok { s := r.s.restore u, undos := r.undos.take k, trees := r.trees.take (k - 1), done := false }

def Run.steps (r : Run) : List Step → Except Err Run
  | [] => .ok r
  | st :: rest =>
    match r.step st with
    | .error e => .error e
    | .ok r' => r'.steps rest

/-! ### validation of recorded outputs (the correspondence stream of C19) -/

/-- is `path` an admissible answer of `find_path` for `node` in state `s`?  It must lead from the
mirror of the parse stack to a node equal to `node`, and `0xfe` + the path atom must not be longer
than the node's own serialization (the final test of `find_path`) -/
def pathValid (s : Ser) (node : Tree) (path : Bytes) : Bool :=
  (match TraversePath.traversePath path s.cache.root with
    | .ok (_, r) => r == node
    | .error _ => false)
  && 1 + Classic.serializedLengthAtom path ≤ entryLen s.cache.sentinel node

/-- the policy that answers what the recorded output `rec` of this call shows at the cursor -/
def replay (rec : Bytes) : FindPath := fun s _ =>
  match rec.drop s.output.pos with
  | b :: rest =>
    if b.toNat == Gen.incBackReference then
      match Backref.parsePath rest with
      | .ok (_, p) => some p
      | .error _ => none
    else none
  | [] => none

/-- the same, but a recorded path that is not admissible is not followed -/
def replayChecked (rec : Bytes) : FindPath := fun s node =>
  match replay rec s node with
  | some p => if pathValid s node p then some p else none
  | none => none

inductive Rec where
  | added (done : Bool) (out : Bytes)
  | undone (out : Bytes)
  | panicked
  deriving Repr

inductive Req where
  | add (t : Tree)
  | undo (k : Nat)
  deriving Repr

/-- `isPrefixOf` on bytes -/
def isPrefix : Bytes → Bytes → Bool
  | [], _ => true
  | _ :: _, [] => false
  | a :: as, b :: bs => a == b && isPrefix as bs

/-- check one recorded step; `.error why` on the first discrepancy -/
def validateStep (r : Run) (req : Req) (rec : Rec) : Except String Run :=
  match req, rec with
  | .add t, .added done out =>
    match r.step (.add (replayChecked out) t) with
    | .error _ =>
      .error "model-error"
    | .ok r' =>
      if !isPrefix r.s.output.buf out then .error "not-an-extension"
      else if r'.s.output.buf == out && r'.done == done && r'.s.output.pos == out.length then .ok r'
      else
        match r.step (.add (replay out) t) with
        | .ok r'' =>
          if r''.s.output.buf == out && r''.done == done then .error "invalid-backref" else .error "output-differs"
        | .error _ => .error "output-differs"
  | .add t, .panicked =>
    match r.s.add (replayChecked []) t with
    | .error (.Panic _) => .ok r
    | _ => .error "unexpected-panic"
  | .undo k, .undone out =>
    match r.step (.undo k) with
    | .error _ => .error "bad-undo-index"
    | .ok r' => if r'.s.output.buf == out && r'.s.output.pos == out.length then .ok r' else .error "undo-differs"
  | _, _ => .error "bad-record"

def validateSteps (r : Run) : List (Req × Rec) → Except String Run
  | [] => .ok r
  | (q, c) :: rest =>
    match validateStep r q c with
    | .error e => .error e
    | .ok r' => validateSteps r' rest

/-- the whole check: every step, then — if the history is complete — the Lean back-reference decoder
must return the assembled tree and consume all bytes -/
def validate (sentinel : Option Bytes) (steps : List (Req × Rec)) : Except String Run :=
  match validateSteps (Run.new sentinel) steps with
  | .error e => .error e
  | .ok r =>
    if r.done then
      match assemble sentinel r.trees with
      | none => .error "no-assembled-tree"
      | some want =>
        if !noSentinel sentinel want then .error "sentinel-left"
        else
          match Backref.deBrNew r.s.output.buf [.sexp] [] Backref.Ctr.default with
          | .ok (t, rest, _) => if t == want && rest.isEmpty then .ok r else .error "decodes-to-other-tree"
          | .error _ => .error "decode-error"
    else .ok r

end Clvm.Serde.Incremental
