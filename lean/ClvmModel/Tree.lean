/-
Layer 1: the abstract CLVM value (a binary tree with byte-string leaves) and its wire
form in the line protocol (the classic serialization, parsed here by a small dedicated
reader that is *not* the model of `node_from_bytes`; that model is `Serde/Classic.lean`).
-/
import ClvmModel.Basic

namespace Clvm

inductive Tree where
  | atom (b : Bytes)
  | pair (l r : Tree)
  deriving Repr, DecidableEq, Inhabited

namespace Tree

def nil : Tree := .atom []
def one : Tree := .atom [1]

/-- number of pairs -/
def pairs : Tree → Nat
  | .atom _ => 0
  | .pair l r => l.pairs + r.pairs + 1

/-- number of atom leaves (with multiplicity) -/
def atoms : Tree → Nat
  | .atom _ => 1
  | .pair l r => l.atoms + r.atoms

/-- total nodes -/
def size (t : Tree) : Nat := t.pairs + t.atoms

/-- build a proper list `(a b c)` = `(a . (b . (c . nil)))` -/
def ofList : List Tree → Tree
  | [] => nil
  | x :: xs => .pair x (ofList xs)

end Tree

/-! ### wire form (used only to transport trees on request/reply lines) -/
namespace Wire

/-- length prefix, as documented for the classic format (wire use only). -/
def prefixFor (b : Bytes) : Bytes :=
  let n := b.length
  match b with
  | [] => [0x80]
  | [x] => if x.toNat < 0x80 then [] else [0x81]
  | _ =>
    if n < 0x40 then [UInt8.ofNat (0x80 + n)]
    else if n < 0x2000 then [UInt8.ofNat (0xc0 + n / 256), UInt8.ofNat (n % 256)]
    else if n < 0x100000 then [UInt8.ofNat (0xe0 + n / 65536), UInt8.ofNat (n / 256 % 256), UInt8.ofNat (n % 256)]
    else if n < 0x8000000 then
      [UInt8.ofNat (0xf0 + n / 16777216), UInt8.ofNat (n / 65536 % 256), UInt8.ofNat (n / 256 % 256), UInt8.ofNat (n % 256)]
    else
      [UInt8.ofNat (0xf8 + n / 4294967296), UInt8.ofNat (n / 16777216 % 256), UInt8.ofNat (n / 65536 % 256),
       UInt8.ofNat (n / 256 % 256), UInt8.ofNat (n % 256)]

/-- tail-recursive pre-order writer (explicit stack, chunks accumulated in reverse) -/
partial def encodeGo : List Tree → Array UInt8 → Array UInt8
  | [], acc => acc
  | .atom b :: st, acc => encodeGo st ((acc.append (prefixFor b).toArray).append b.toArray)
  | .pair l r :: st, acc => encodeGo (l :: r :: st) (acc.push 0xff)

def encode (t : Tree) : Bytes := (encodeGo [t] #[]).toList

def be (bs : Bytes) : Nat := bs.foldl (fun a b => a * 256 + b.toNat) 0

/-- parse one tree; iterative with explicit stacks (`none` = malformed). -/
partial def decodeGo (inp : Bytes) (ops : List Bool) (vals : List Tree) : Option (Tree × Bytes) :=
  match ops with
  | [] => match vals with
    | [v] => some (v, inp)
    | _ => none
  | true :: ops' =>  -- cons
    match vals with
    | r :: l :: vs => decodeGo inp ops' (.pair l r :: vs)
    | _ => none
  | false :: ops' =>
    match inp with
    | [] => none
    | b :: rest =>
      let n := b.toNat
      if n == 0xff then decodeGo rest (false :: false :: true :: ops') vals
      else if n < 0x80 then decodeGo rest ops' (.atom [b] :: vals)
      else
        let k := if n < 0xc0 then 0 else if n < 0xe0 then 1 else if n < 0xf0 then 2 else if n < 0xf8 then 3
                 else if n < 0xfc then 4 else 5
        let mask := 0xff >>> (k + 1)
        if rest.length < k then none
        else
          let len := be (rest.take k) + (n &&& mask) * 256 ^ k
          let rest := rest.drop k
          if rest.length < len then none
          else decodeGo (rest.drop len) ops' (.atom (rest.take len) :: vals)

def decode (b : Bytes) : Option Tree :=
  match decodeGo b [false] [] with
  | some (t, []) => some t
  | _ => none

def treeOfHex (s : String) : Option Tree := do
  let b ← bytesOfHex s
  decode b

def hexOfTree (t : Tree) : String := hexOfBytes (encode t)

end Wire
end Clvm
