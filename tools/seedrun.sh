#!/bin/sh
# Runs checks against a *patched copy* of /repo without touching /repo or the live /verif tree
# (other work may be going on there):   tools/seedrun.sh <patch.diff> <Cxx> [<Cxx> …]
# Makes /tmp/seedrun-$$/{repo,verif}, applies the patch to the repo copy, points the harness copy at it,
# runs each check, prints the VIOLATION / ok lines, removes everything.
set -u
PATCH=$(readlink -f "$1"); shift
D=/tmp/seedrun-$$
mkdir -p "$D"
trap 'git -C /repo worktree remove --force "$D/repo" >/dev/null 2>&1; rm -rf "$D"' EXIT
git -C /repo worktree add --detach "$D/repo" HEAD >/dev/null 2>&1 || { echo "worktree failed"; exit 2; }
if ! git -C "$D/repo" apply "$PATCH"; then echo "patch does not apply"; exit 2; fi
mkdir -p "$D/verif"
# copy the committed + working files and the build caches (small)
rsync -a --exclude replays --exclude '.git' /verif/ "$D/verif/"
sed -i "s#path = \"/repo\"#path = \"$D/repo\"#" "$D/verif/harness/Cargo.toml"
cd "$D/verif"
rc=0
for p in "$@"; do
  echo "=== $p against patched repo"
  VERIF_REPO="$D/repo" ./check "$p" --tier "${VERIF_TIER:-quick}" 2>&1 | tee /tmp/seedrun-last.log | grep -E "VIOLATION|KNOWN-FINDING|\[check\] (C[0-9]+ ok|no longer checks|failing input)|lake build FAILED" | cut -c1-400
  # keep the replay for inspection
  mkdir -p /verif/.build/seedrun-replays
  cp -f replays/$p-* /verif/.build/seedrun-replays/ 2>/dev/null
done
exit $rc
