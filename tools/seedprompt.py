#!/usr/bin/env python3
"""prints the prompt for a fresh mutation-seeding sub-agent for one property (only the property's own text)"""
import json, sys
pid = sys.argv[1]
n = sys.argv[2] if len(sys.argv) > 2 else "1"
p = {json.loads(l)["id"]: json.loads(l) for l in open("/verif/properties.jsonl")}[pid]
wt = "/tmp/seed-%s-%s" % (pid, n)
avoid = sys.argv[3] if len(sys.argv) > 3 else ""
print(f"""You are testing a verification effort for the Rust crate Chia-Network/clvm_rs (checked out at /repo, a git repository; offline sandbox, Rust toolchain installed, no network). You work ONLY in your own scratch git worktree; never edit /repo itself and never read or write anything under /verif.

Set up your worktree first:
  git -C /repo worktree add --detach {wt} HEAD
  cd {wt}
(all your edits, builds and tests happen inside {wt}; build with `cargo build --offline`, test with `CARGO_NET_OFFLINE=true cargo test -p clvmr --offline` — the first build in a fresh worktree takes a few minutes).

THE PROPERTY (this is all you are given):
  id: {p['id']}
  title: {p['title']}
  statement: {p['statement']}
  quantifier: {p['quantifier']['text']}
  why the existing tests cannot settle it: {p['why_tests_cant']}
  code it is anchored in: {', '.join(p['anchors']['files'])}

YOUR JOB: produce ONE realistic change to clvm_rs (a plausible bug a maintainer could introduce: an off-by-one, a `>` vs `>=`, a missing check, a wrong constant or table row, a swapped order of two steps, a forgotten counter update, a fast path that diverges from the slow path, a missing truncate on an error path, two sites that each look fine alone …) that
  1. BREAKS the property above (on at least one input / history / configuration the property quantifies over),
  2. still COMPILES, and
  3. still passes the ENTIRE existing test suite: run `CARGO_NET_OFFLINE=true cargo test -p clvmr --offline` (and, if you touched another workspace member such as wheel/ or tools/, `cargo test --workspace --offline`) with your change applied and confirm 0 failures — if an existing test fails, your change is too obvious: find a subtler one;
  4. needs something SPECIFIC to manifest — an unusual input (a boundary size, a particular byte pattern, a non-canonical encoding), a multi-step sequence of operations, a particular flag combination or budget, two cooperating sites — NOT something ordinary use would expose at once. Prefer a change whose failing inputs are rare among random inputs.
{("An earlier tester already produced this change — pick a DIFFERENT place in the code and a different kind of mistake: " + avoid + chr(10)) if avoid else ""}Keep the change small (a few lines) and do not touch tests, docs, benches or fuzz targets.

Also write a DEMONSTRATION: a small Rust test or program (e.g. a new file `{wt}/tests/seed_demo.rs` as an integration test using the public API of the `clvmr` crate, or a `#[test]` you add in a NEW test file — do not edit existing tests) that FAILS with your change and PASSES without it. Verify both directions yourself: run the demo with the change applied (must fail), then `git diff > /tmp/<your-worktree-name>.diff && git checkout -- src wheel` (NEVER use `git stash`: the stash is shared by all worktrees of /repo and other testers are working concurrently) run it on the unchanged code (must pass), then restore your change.

DELIVER, in the directory {wt}/seed_out/ (create it):
  - patch.diff  : output of `git diff -- . ':(exclude)seed_out' ':(exclude)tests/seed_demo.rs'` for the source change ONLY (it must apply to a clean checkout of /repo HEAD with `git apply`),
  - the demonstration file(s) (copy them there; say how to run them),
  - meta.json   : {{"property": "{pid}", "summary": "<one sentence: what was changed>", "needs": "<what specific input/sequence/config is needed for it to manifest>", "demo_cmd": "<exact command that runs the demonstration>", "demo_fails_with_change": true, "demo_passes_without_change": true, "existing_tests_pass_with_change": true, "ran": ["<commands you ran>"]}}
Do NOT remove the worktree when you are done (the lead will verify and remove it). Do not commit anything. Your final message: the summary, the needs, and the exact commands to reproduce.""")
