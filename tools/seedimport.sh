#!/bin/sh
# tools/seedimport.sh <property> <n> : copies /tmp/seed-<P>-<n>/seed_out into /verif/seeded/<P>-<n>/
P=$1; N=${2:-1}
mkdir -p /verif/seeded/$P-$N && cp /tmp/seed-$P-$N/seed_out/* /verif/seeded/$P-$N/ && ls /verif/seeded/$P-$N
