# The items the translator reads for the tree hash (C22, C10 sha256tree cost).
# Executed inside extract.py (uses const / pattern / raw).

const("src/treehash.rs", "SHA256TREE_BASE_COST", "thBaseCost", 270)
const("src/treehash.rs", "SHA256TREE_PAIR_COST", "thPairCost", 460)
const("src/treehash.rs", "SHA256TREE_COST_PER_BYTE", "thCostPerByte", 2)
const("src/treehash.rs", "NEW_SHA256TREE_COST_PER_BYTE", "thNewCostPerByte", 6)
const("src/op_utils.rs", "MALLOC_COST_PER_BYTE", "thMallocCostPerByte", 10)
# `cost += MALLOC_COST_PER_BYTE * 32;` at the end of tree_hash_costed
pattern("src/treehash.rs", r"cost\s*\+=\s*MALLOC_COST_PER_BYTE\s*\*\s*(\d+)\s*;", "thMallocBytes", 32,
        "tree_hash_costed malloc bytes")

def _precomputed(body):
    rows = re.findall(r'hex!\(\s*"([0-9a-fA-F]{64})"\s*\)', body)
    if not rows:
        raise ValueError("no rows")
    return rows


def _table_term(rows):
    return "[\n  " + ",\n  ".join(
        "[" + ", ".join(str(b) for b in bytes.fromhex(r)) + "]" for r in rows) + "]"


_m = re.search(r"PRECOMPUTED_HASHES\s*:\s*\[\[u8;\s*32\];\s*(\d+)\]\s*=\s*\[(.*?)\];", src("src/more_ops.rs"), re.S)
_rows = None
if _m:
    try:
        _rows = _precomputed(_m.group(2))
        if len(_rows) != int(_m.group(1)):
            _rows = None
    except Exception:
        _rows = None
if _rows is None:
    misses.append("src/more_ops.rs:PRECOMPUTED_HASHES")
    # pinned fallback: the table as documented in the source comment, sha256(01) and sha256(01 i), i = 1..36
    import hashlib as _hl
    _rows = [_hl.sha256(b"\x01").hexdigest()] + [_hl.sha256(bytes([1, i])).hexdigest() for i in range(1, 37)]
raw("thPrecomputedHashes", "List (List Nat)", _table_term(_rows),
    "src/more_ops.rs PRECOMPUTED_HASHES (row i = hash used for the small atom of value i)")
