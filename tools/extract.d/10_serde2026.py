# The items the translator reads.  Executed inside extract.py (uses const / pattern / nat_list).

# --- serde_2026
pattern("src/serde_2026/mod.rs", r"SERDE_2026_MAGIC_PREFIX\s*:\s*\[u8;\s*6\]\s*=\s*\[([^\]]+)\]", "magic2026",
        "[253, 255, 50, 48, 50, 54]", "SERDE_2026_MAGIC_PREFIX",
        conv=lambda s: "[" + ", ".join(str(ord(x.strip()[2]) if x.strip().startswith("b'") else int(x.strip(), 0)) for x in s.split(",")) + "]",
        ty="List Nat")
