# The items the translator reads.  Executed inside extract.py (uses const / pattern / nat_list).

# --- serde_2026
pattern("src/serde_2026/mod.rs", r"SERDE_2026_MAGIC_PREFIX\s*:\s*\[u8;\s*6\]\s*=\s*\[([^\]]+)\]", "magic2026",
        "[253, 255, 50, 48, 50, 54]", "SERDE_2026_MAGIC_PREFIX",
        conv=lambda s: "[" + ", ".join(str(ord(x.strip()[2]) if x.strip().startswith("b'") else int(x.strip(), 0)) for x in s.split(",")) + "]",
        ty="List Nat")

def _rust_int(s):
    s = s.strip()
    table = {"i32::MAX as usize": 2**31 - 1, "u32::MAX as usize": 2**32 - 1, "i32::MAX": 2**31 - 1, "u32::MAX": 2**32 - 1}
    if s in table:
        return table[s]
    return num(s)

# `const MAX_INDEX: usize = i32::MAX as usize;`
pattern("src/serde_2026/mod.rs", r"const\s+MAX_INDEX\s*:\s*usize\s*=\s*([^;]+);", "maxIndex2026", 2**31 - 1,
        "const MAX_INDEX", conv=_rust_int)
# `Direction::cons_opcode`
pattern("src/serde_2026/strategy.rs", r"Direction::LeftFirst\s*=>\s*(-?\d+)\s*,", "consOpcodeLeftFirst", 1,
        "cons_opcode LeftFirst", conv=lambda s: int(s), ty="Int")
pattern("src/serde_2026/strategy.rs", r"Direction::RightFirst\s*=>\s*(-?\d+)\s*,", "consOpcodeRightFirst", -1,
        "cons_opcode RightFirst", conv=lambda s: int(s), ty="Int")
# default heap limit of `intern_tree` (`intern_tree_limited(source, node, u32::MAX as usize)`)
pattern("src/serde/intern.rs", r"pub fn intern_tree\(.*?intern_tree_limited\(source,\s*node,\s*([^)]+)\)", "internTreeHeapLimit",
        2**32 - 1, "intern_tree heap limit", conv=_rust_int)
