# every `const NAME: Cost|usize|u32|u64 = <integer expression>;` of the interpreter sources,
# evaluated (expressions may mention earlier constants), one Lean def per constant.
# -> lean/ClvmModel/Gen/Costs.lean   (namespace Clvm.Gen; Rust names kept verbatim)
import re as _re, json as _json

_FILES = ["src/run_program.rs", "src/core_ops.rs", "src/more_ops.rs", "src/op_utils.rs", "src/bls_ops.rs",
          "src/secp_ops.rs", "src/keccak256_ops.rs", "src/treehash.rs", "src/traverse_path.rs"]
_PIN = os.path.join(os.path.dirname(os.path.abspath(__file__)) if "__file__" in dir() else ".", "60_costs.pinned.json")
_PIN = os.path.join(os.path.dirname(os.path.abspath(sys.argv[0])), "extract.d", "60_costs.pinned.json")
try:
    _pinned = _json.load(open(_PIN))
except Exception:
    _pinned = {}
_found = {}
for _p in _FILES:
    _env = {}
    for _m in _re.finditer(r"^\s*(?:pub\s+)?const\s+([A-Z][A-Z0-9_]*)\s*:\s*(?:Cost|usize|u32|u64)\s*=\s*([^;]+);", src(_p), _re.M):
        _name, _e = _m.group(1), _m.group(2)
        _e = _re.sub(r"\s+as\s+\w+", "", _e).replace("_", "_")
        _tok = _re.sub(r"\b([A-Z][A-Z0-9_]*)\b", lambda mm: str(_env.get(mm.group(1), _found.get(mm.group(1), "X"))), _e)
        _tok = _re.sub(r"(?<=\d)_(?=\d)", "", _tok)
        if not _re.fullmatch(r"[0-9a-fx+\-*/()<\s]+", _tok):
            continue
        try:
            _v = int(eval(_tok.replace("/", "//"), {"__builtins__": {}}))
        except Exception:
            continue
        _env[_name] = _v
        if _name not in _found:
            _found[_name] = _v
            items.append((_name, "Nat", str(_v), "%s const %s" % (_p, _name), CUR[0]))
# pinned names that were not found (renamed / removed): use the pinned value, record the miss
for _name, _v in _pinned.items():
    if _name not in _found:
        misses.append("costs:%s" % _name)
        items.append((_name, "Nat", str(_v), "PINNED (not found in sources) const %s" % _name, CUR[0]))
if os.environ.get("VERIF_PIN_COSTS") == "1":
    _json.dump(_found, open(_PIN, "w"), indent=0, sort_keys=True)
