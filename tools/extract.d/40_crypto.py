# C32 (cryptographic operators): flags, cost constants, group order, DSTs, precomputed sha256 table.
# Executed inside extract.py; generated into lean/ClvmModel/Gen/Crypto.lean (namespace Clvm.Gen).


def _crypto():
    NS = "Crypto."   # generated names live in Clvm.Gen.Crypto (other snippets extract some of the same items)
    def consts_of(path):
        """all `const NAME: T = <expr>;` of a file, integer expressions over + - * ( ) and other consts"""
        text = src(path)
        raw_items = dict((m.group(1), m.group(2)) for m in
                         re.finditer(r"const\s+([A-Z0-9_]+)\s*:\s*[\w:]+\s*=\s*([^;]+);", text))
        memo = {}

        def ev(name, depth=0):
            if name in memo:
                return memo[name]
            if name not in raw_items or depth > 20:
                raise KeyError(name)
            e = " ".join(raw_items[name].split())
            e = re.sub(r"\bas\s+\w+", "", e)
            e = re.sub(r"\b([A-Z][A-Z0-9_]+)\b", lambda m: str(ev(m.group(1), depth + 1)), e)
            e = re.sub(r"(?<=\d)_(?=\d)", "", e)
            if not re.fullmatch(r"[\d\s+\-*()x0-9a-fA-F]+", e):
                raise ValueError(e)
            v = int(eval(e, {"__builtins__": {}}, {}))
            memo[name] = v
            return v
        return ev

    def cexpr(path, ev, name, lean_name, fallback):
        try:
            v = ev(name)
        except Exception:
            misses.append("%s:%s" % (path, name))
            v = fallback
        items.append((NS + lean_name, "Nat", str(v), "%s const %s" % (path, name), CUR[0]))

    # ---- flags (bitflags! block: `const NAME = 0x…;`)
    for name, lean_name, fb in [("NEW_COST_MODEL", "flagNewCostModel", 0x2000), ("RELAXED_BLS", "flagRelaxedBls", 0x0008),
                                ("LIMITS", "flagLimits", 0x0040)]:
        pattern("src/chia_dialect.rs", r"const\s+%s\s*=\s*(0x[0-9a-fA-F_]+|\d+)\s*;" % name, NS + lean_name, fb, "ClvmFlags::" + name)

    # ---- op_utils
    ev = consts_of("src/op_utils.rs")
    cexpr("src/op_utils.rs", ev, "MALLOC_COST_PER_BYTE", "mallocCostPerByte", 10)

    def bytes_table(s):
        vals = [int(x.strip(), 0) for x in s.replace("\n", " ").split(",") if x.strip()]
        n = 0
        for b in vals:
            n = n * 256 + b
        return n
    pattern("src/op_utils.rs", r"static\s+ref\s+GROUP_ORDER\s*:\s*Number\s*=\s*\{\s*let\s+order_as_bytes\s*=\s*&\[([^\]]+)\]",
            NS + "groupOrder", 0x73eda753299d7d483339d80809a1d80553bda402fffe5bfeffffffff00000001, "GROUP_ORDER", conv=bytes_table)

    # ---- bls_ops
    P = "src/bls_ops.rs"
    ev = consts_of(P)
    for name, lean_name, fb in [
        ("BLS_G1_SUBTRACT_BASE_COST", "blsG1SubtractBaseCost", 101094),
        ("BLS_G1_SUBTRACT_COST_PER_ARG", "blsG1SubtractCostPerArg", 1343980),
        ("BLS_G1_MULTIPLY_BASE_COST", "blsG1MultiplyBaseCost", 705500),
        ("BLS_G1_MULTIPLY_COST_PER_BYTE", "blsG1MultiplyCostPerByte", 10),
        ("NEW_BLS_G1_MULTIPLY_BASE_COST", "newBlsG1MultiplyBaseCost", 1900000),
        ("NEW_BLS_G1_MULTIPLY_COST_PER_BYTE", "newBlsG1MultiplyCostPerByte", 24),
        ("BLS_G1_NEGATE_BASE_COST", "blsG1NegateBaseCost", 916),
        ("BLS_G2_ADD_BASE_COST", "blsG2AddBaseCost", 80000),
        ("BLS_G2_ADD_COST_PER_ARG", "blsG2AddCostPerArg", 1950000),
        ("BLS_G2_SUBTRACT_BASE_COST", "blsG2SubtractBaseCost", 80000),
        ("BLS_G2_SUBTRACT_COST_PER_ARG", "blsG2SubtractCostPerArg", 1950000),
        ("BLS_G2_MULTIPLY_BASE_COST", "blsG2MultiplyBaseCost", 2100000),
        ("BLS_G2_MULTIPLY_COST_PER_BYTE", "blsG2MultiplyCostPerByte", 5),
        ("NEW_BLS_G2_MULTIPLY_BASE_COST", "newBlsG2MultiplyBaseCost", 3000000),
        ("NEW_BLS_G2_MULTIPLY_COST_PER_BYTE", "newBlsG2MultiplyCostPerByte", 23),
        ("BLS_G2_NEGATE_BASE_COST", "blsG2NegateBaseCost", 1204),
        ("BLS_MAP_TO_G1_BASE_COST", "blsMapToG1BaseCost", 195000),
        ("BLS_MAP_TO_G1_COST_PER_BYTE", "blsMapToG1CostPerByte", 4),
        ("BLS_MAP_TO_G1_COST_PER_DST_BYTE", "blsMapToG1CostPerDstByte", 4),
        ("NEW_BLS_MAP_TO_G1_COST_PER_BYTE", "newBlsMapToG1CostPerByte", 3),
        ("NEW_BLS_MAP_TO_G1_COST_PER_DST_BYTE", "newBlsMapToG1CostPerDstByte", 2),
        ("NEW_BLS_MAP_TO_G1_BASE_COST", "newBlsMapToG1BaseCost", 700000),
        ("BLS_MAP_TO_G2_BASE_COST", "blsMapToG2BaseCost", 815000),
        ("BLS_MAP_TO_G2_COST_PER_BYTE", "blsMapToG2CostPerByte", 4),
        ("BLS_MAP_TO_G2_COST_PER_DST_BYTE", "blsMapToG2CostPerDstByte", 4),
        ("NEW_BLS_MAP_TO_G2_COST_PER_BYTE", "newBlsMapToG2CostPerByte", 3),
        ("NEW_BLS_MAP_TO_G2_COST_PER_DST_BYTE", "newBlsMapToG2CostPerDstByte", 2),
        ("NEW_BLS_MAP_TO_G2_BASE_COST", "newBlsMapToG2BaseCost", 2700000),
        ("BLS_PAIRING_BASE_COST", "blsPairingBaseCost", 3000000),
        ("BLS_PAIRING_COST_PER_ARG", "blsPairingCostPerArg", 1200000),
        ("NEW_BLS_PAIRING_BASE_COST", "newBlsPairingBaseCost", 1000000),
        ("NEW_BLS_PAIRING_COST_PER_ARG", "newBlsPairingCostPerArg", 5000000),
    ]:
        cexpr(P, ev, name, lean_name, fb)

    def bstr(s):
        return "[" + ", ".join(str(b) for b in s.encode()) + "]"
    pattern(P, r'const\s+DST_G2\s*:\s*&\[u8;\s*\d+\]\s*=\s*b"([^"]*)"', NS + "dstG2",
            bstr("BLS_SIG_BLS12381G2_XMD:SHA-256_SSWU_RO_AUG_"), "DST_G2", conv=bstr, ty="List UInt8")
    pattern(P, r'Atom::Borrowed\(b"([^"]*)"\.as_slice\(\)\)', NS + "dstG1",
            bstr("BLS_SIG_BLS12381G1_XMD:SHA-256_SSWU_RO_AUG_"), "default g1_map DST", conv=bstr, ty="List UInt8")
    pattern(P, r"scalar_len\s*>\s*(\d+)", NS + "blsMultiplyScalarLimit", 1024, "scalar_len limit (LIMITS, old cost model)")

    # ---- more_ops
    P = "src/more_ops.rs"
    ev = consts_of(P)
    for name, lean_name, fb in [
        ("SHA256_BASE_COST", "sha256BaseCost", 87), ("SHA256_COST_PER_ARG", "sha256CostPerArg", 134),
        ("SHA256_COST_PER_BYTE", "sha256CostPerByte", 2),
        ("NEW_SHA256_BASE_COST", "newSha256BaseCost", 1000), ("NEW_SHA256_COST_PER_ARG", "newSha256CostPerArg", 160),
        ("NEW_SHA256_COST_PER_BYTE", "newSha256CostPerByte", 6),
        ("POINT_ADD_BASE_COST", "pointAddBaseCost", 101094), ("POINT_ADD_COST_PER_ARG", "pointAddCostPerArg", 1343980),
        ("PUBKEY_BASE_COST", "pubkeyBaseCost", 1325730), ("PUBKEY_COST_PER_BYTE", "pubkeyCostPerByte", 38),
        ("COINID_COST", "coinidCost", 87 + 134 * 3 + 2 * 72 - 153),
        ("NEW_COINID_COST", "newCoinidCost", 1000 + 160 * 3 + 6 * 72 - 153),
    ]:
        cexpr(P, ev, name, lean_name, fb)

    def hashes(s):
        hs = re.findall(r'hex!\("([0-9a-fA-F]{64})"\)', s)
        if not hs:
            raise ValueError("no rows")
        return "[" + ",\n  ".join("[" + ", ".join(str(b) for b in bytes.fromhex(h)) + "]" for h in hs) + "]"
    import hashlib
    fb = "[" + ",\n  ".join("[" + ", ".join(str(b) for b in hashlib.sha256(bytes([1] + ([i] if i else []))).digest()) + "]"
                           for i in range(37)) + "]"
    pattern(P, r"PRECOMPUTED_HASHES\s*:\s*\[\[u8;\s*32\];\s*\d+\]\s*=\s*\[(.*?)\];", NS + "precomputedHashes", fb,
            "PRECOMPUTED_HASHES", conv=hashes, ty="List (List UInt8)")
    pattern(P, r'if\s+input\s*==\s*NodePtr::NIL\s*\{\s*return\s+new_atom_and_cost\(\s*a,\s*cost,\s*&hex!\("([0-9a-f]{64})"\)',
            NS + "sha256OfEmpty", "[" + ", ".join(str(b) for b in hashlib.sha256(b"").digest()) + "]", "op_sha256 nil shortcut digest",
            conv=lambda h: "[" + ", ".join(str(b) for b in bytes.fromhex(h)) + "]", ty="List UInt8")

    # ---- keccak, secp
    P = "src/keccak256_ops.rs"
    ev = consts_of(P)
    for name, lean_name, fb in [
        ("KECCAK256_BASE_COST", "keccak256BaseCost", 50), ("KECCAK256_COST_PER_ARG", "keccak256CostPerArg", 160),
        ("KECCAK256_COST_PER_BYTE", "keccak256CostPerByte", 2),
        ("NEW_KECCAK256_BASE_COST", "newKeccak256BaseCost", 2350), ("NEW_KECCAK256_COST_PER_ARG", "newKeccak256CostPerArg", 100),
        ("NEW_KECCAK256_COST_PER_BYTE", "newKeccak256CostPerByte", 10),
    ]:
        cexpr(P, ev, name, lean_name, fb)
    P = "src/secp_ops.rs"
    ev = consts_of(P)
    cexpr(P, ev, "SECP256R1_VERIFY_COST", "secp256r1VerifyCost", 1850000)
    cexpr(P, ev, "SECP256K1_VERIFY_COST", "secp256k1VerifyCost", 1300000)


_crypto()
