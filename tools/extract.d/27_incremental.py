# incremental serializer constants -> lean/ClvmModel/Gen/Incremental.lean
const("src/serde/incremental.rs", "BACK_REFERENCE", "incBackReference", 0xfe)
const("src/serde/incremental.rs", "CONS_BOX_MARKER", "incConsBoxMarker", 0xff)
# tree_cache.rs: nodes with a shorter serialization are never entered into `serialized_nodes`
const("src/serde/tree_cache.rs", "MIN_SERIALIZED_LENGTH", "treeCacheMinSerializedLength", 4)
