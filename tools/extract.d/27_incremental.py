# incremental serializer constants -> lean/ClvmModel/Gen/Incremental.lean
const("src/serde/incremental.rs", "BACK_REFERENCE", "incBackReference", 0xfe)
const("src/serde/incremental.rs", "CONS_BOX_MARKER", "incConsBoxMarker", 0xff)
# tree_cache.rs: nodes with a shorter serialization are never entered into `serialized_nodes`
const("src/serde/tree_cache.rs", "MIN_SERIALIZED_LENGTH", "treeCacheMinSerializedLength", 4)
const("src/serde/tree_cache.rs", "MAX_PARENTS", "treeCacheMaxParents", 8)
# path_builder.rs serialized_length(): the upper ends of the `len` ranges and the single-byte test
def _pb():
    import re as _r
    m = _r.search(r"pub fn serialized_length\(&self\) -> u32 \{(.*?)\n    \}", src("src/serde/path_builder.rs"), _r.S)
    vals = None
    if m:
        body = m.group(1)
        rows = _r.findall(r"(0x[0-9a-fA-F]+|\d+)\.\.=(0x[0-9a-fA-F]+|\d+)\s*=>\s*(\d+) \+ len", body)
        one = _r.search(r"self\.store\[0\] >= (\d+|0x[0-9a-fA-F]+)", body)
        try:
            vals = [[int(lo, 0), int(hi, 0), int(k)] for lo, hi, k in rows]
            onev = int(one.group(1), 0)
            if len(vals) != 4:
                vals = None
        except Exception:
            vals = None
    if vals is None:
        misses.append("src/serde/path_builder.rs:serialized_length arms")
        vals = [[2, 0x3f, 1], [0x40, 0x1ff, 2], [0x200, 0xfffff, 3], [0x1000000, 0x7ffffff, 4]]
        onev = 80
    raw("pathBuilderLenArms", "List (Nat × Nat × Nat)", "[" + ", ".join("(%d, %d, %d)" % tuple(v) for v in vals) + "]",
        "src/serde/path_builder.rs serialized_length: (lo, hi, extra) of the arms `lo..=hi => extra + len` (last arm: 5 + len)")
    raw("pathBuilderSingleByteMin", "Nat", str(onev), "src/serde/path_builder.rs serialized_length: `self.store[0] >= N` (decimal in the source)")
_pb()
