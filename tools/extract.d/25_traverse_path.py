# traverse_path.rs cost constants -> lean/ClvmModel/Gen/TraversePath.lean
const("src/traverse_path.rs", "TRAVERSE_BASE_COST", "traverseBaseCost", 40)
const("src/traverse_path.rs", "TRAVERSE_COST_PER_ZERO_BYTE", "traverseCostPerZeroByte", 4)
const("src/traverse_path.rs", "TRAVERSE_COST_PER_BIT", "traverseCostPerBit", 4)
# traverse_path_fast: `if num_bits == 7 || num_bits == 15 || …` (bit counts that need a leading zero byte)
def _fast_bits():
    import re as _r
    m = _r.search(r"if ((?:num_bits == \d+\s*\|\|\s*)*num_bits == \d+)\s*\{", src("src/traverse_path.rs"))
    vals = [int(x) for x in _r.findall(r"num_bits == (\d+)", m.group(1))] if m else None
    if not vals:
        misses.append("src/traverse_path.rs:traverse_path_fast leading-zero bit counts")
        vals = [7, 15, 23, 31]
    nat_list("traverseFastZeroByteBits", vals, "src/traverse_path.rs traverse_path_fast num_bits with a leading zero byte")
_fast_bits()
