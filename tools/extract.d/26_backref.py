# back-reference serialization constants -> lean/ClvmModel/Gen/Backref.lean
import re as _rb

def _marker(path, name, lean_name, fallback):
    m = _rb.search(r"const\s+%s\s*:\s*u8\s*=\s*(0x[0-9a-fA-F]+|\d+)\s*;" % name, src(path))
    v = int(m.group(1), 0) if m else None
    if v is None:
        misses.append("%s:%s" % (path, name))
        v = fallback
    items.append((lean_name, "Nat", str(v), "%s const %s" % (path, name), CUR[0]))

_marker("src/serde/de_br.rs", "BACK_REFERENCE", "deBrBackReference", 0xfe)
_marker("src/serde/de_br.rs", "CONS_BOX_MARKER", "deBrConsBoxMarker", 0xff)
_marker("src/serde/ser_br.rs", "BACK_REFERENCE", "serBrBackReference", 0xfe)
_marker("src/serde/ser_br.rs", "CONS_BOX_MARKER", "serBrConsBoxMarker", 0xff)
_marker("src/serde/tools.rs", "BACK_REFERENCE", "toolsBackReference", 0xfe)
_marker("src/serde/tools.rs", "CONS_BOX_MARKER", "toolsConsBoxMarker", 0xff)
_marker("src/serde/tools.rs", "MAX_SINGLE_BYTE", "toolsMaxSingleByte", 0x7f)
# read_cache_lookup.rs find_paths: `if serialized_length < 4 { return vec![]; }`
pattern("src/serde/read_cache_lookup.rs", r"if serialized_length < (\d+)\s*\{\s*return vec!\[\];", "findPathsMinLength", 4,
        "find_paths minimal serialized_length")
# serialized_length.rs atom_length_bits: `if num_bits < 8`, and the upper ends of the num_bytes ranges
pattern("src/serde/serialized_length.rs", r"pub fn atom_length_bits.*?if num_bits < (\d+)\s*\{", "atomLengthBitsSmall", 8,
        "atom_length_bits single byte bound")
def _alb():
    m = _rb.search(r"pub fn atom_length_bits(.*?)\n\}", src("src/serde/serialized_length.rs"), _rb.S)
    vals = None
    if m:
        rows = _rb.findall(r"(0x[0-9a-fA-F_]+|\d+)\.\.(0x[0-9a-fA-F_]+)\s*=>\s*Some\((\d+) \+ num_bytes\)", m.group(1))
        try:
            vals = [int(hi.replace("_", ""), 0) for lo, hi, k in rows]
            ks = [int(k) for lo, hi, k in rows]
            if ks != list(range(1, len(ks) + 1)) or len(vals) != 5:
                vals = None
        except Exception:
            vals = None
    if vals is None:
        misses.append("src/serde/serialized_length.rs:atom_length_bits ranges")
        vals = [0x40, 0x2000, 0x100000, 0x8000000, 0x400000000]
    nat_list("atomLengthBitsThresholds", vals, "src/serde/serialized_length.rs atom_length_bits range ends (prefix k+1 bytes below the k-th)")
_alb()
