# The standard recursive ChiaLisp sha256tree program (C23), as embedded in the benchmark tool
# tools/src/bin/sha256tree-benching.rs (`let shaprogbytes = hex::decode("…")`).
_SHA256TREE_PROG_PINNED = (
    "ff02ffff01ff02ff02ffff04ff02ffff04ff03ff80808080ffff04ffff01ff02ffff03ffff07ff0580ffff01ff0bffff0102"
    "ffff02ff02ffff04ff02ffff04ff09ff80808080ffff02ff02ffff04ff02ffff04ff0dff8080808080ffff01ff0bffff0101"
    "ff058080ff0180ff018080")
pattern("tools/src/bin/sha256tree-benching.rs",
        r'let\s+shaprogbytes\s*=\s*hex::decode\(\s*"([0-9a-fA-F]+)"',
        "sha256treeProgHex", '"%s"' % _SHA256TREE_PROG_PINNED, "sha256tree ChiaLisp program (hex)",
        conv=lambda h: '"%s"' % h.lower(), ty="String")
