# ClvmFlags bits, MEMPOOL_MODE, the ChiaDialect operator table (with flag guards), the 4-byte secp
# opcodes, the gc_candidate list, keywords, softfork extension maps, and the f_table name table.
# -> lean/ClvmModel/Gen/Dialect.lean
import re as _re

_cd = src("src/chia_dialect.rs")
_PIN_FLAGS = {"CANONICAL_INTS": 0x1, "NO_UNKNOWN_OPS": 0x2, "LIMIT_HEAP": 0x4, "RELAXED_BLS": 0x8, "LIMIT_SOFTFORK": 0x10,
              "ENABLE_GC": 0x20, "LIMITS": 0x40, "ENABLE_KECCAK_OPS_OUTSIDE_GUARD": 0x100, "DISABLE_OP": 0x200,
              "ENABLE_SHA256_TREE": 0x400, "ENABLE_SECP_OPS": 0x800, "MALACHITE": 0x1000, "NEW_COST_MODEL": 0x2000}
_flags = {}
_m = _re.search(r"pub struct ClvmFlags: u32 \{(.*?)\n    \}", _cd, _re.S)
if _m:
    for _n, _v in _re.findall(r"const\s+([A-Z_0-9]+)\s*=\s*(0x[0-9a-fA-F_]+|\d+)\s*;", _m.group(1)):
        _flags[_n] = int(_v.replace("_", ""), 0)
for _n, _v in _PIN_FLAGS.items():
    if _n not in _flags:
        misses.append("chia_dialect.rs:flag %s" % _n)
        _flags[_n] = _v
for _n in sorted(_flags, key=lambda k: _flags[k]):
    items.append(("FLAG_" + _n, "Nat", str(_flags[_n]), "src/chia_dialect.rs ClvmFlags::%s" % _n, CUR[0]))
raw("allFlagBits", "Nat", str(sum(set(_flags.values()))), "union of all defined ClvmFlags bits")
# MEMPOOL_MODE
_m = _re.search(r"pub const MEMPOOL_MODE: ClvmFlags = (.*?);", _cd, _re.S)
_mm = None
if _m:
    _names = _re.findall(r"ClvmFlags::([A-Z_0-9]+)", _m.group(1))
    if _names and all(n in _flags for n in _names):
        _mm = 0
        for n in _names:
            _mm |= _flags[n]
if _mm is None:
    misses.append("chia_dialect.rs:MEMPOOL_MODE")
    _mm = 0x2 | 0x4 | 0x200 | 0x1 | 0x10
raw("MEMPOOL_MODE", "Nat", str(_mm), "src/chia_dialect.rs MEMPOOL_MODE")

# operator table of ChiaDialect::op:  N => op_x,   |   N if flags.contains(ClvmFlags::F) => op_x,
_PIN_OPS = [(3, "op_if", 0), (4, "op_cons", 0), (5, "op_first", 0), (6, "op_rest", 0), (7, "op_listp", 0), (8, "op_raise", 0),
            (9, "op_eq", 0), (10, "op_gr_bytes", 0), (11, "op_sha256", 0), (12, "op_substr", 0), (13, "op_strlen", 0),
            (14, "op_concat", 0), (16, "op_add", 0), (17, "op_subtract", 0), (18, "op_multiply", 0), (19, "op_div", 0),
            (20, "op_divmod", 0), (21, "op_gr", 0), (22, "op_ash", 0), (23, "op_lsh", 0), (24, "op_logand", 0),
            (25, "op_logior", 0), (26, "op_logxor", 0), (27, "op_lognot", 0), (29, "op_point_add", 0),
            (30, "op_pubkey_for_exp", 0), (32, "op_not", 0), (33, "op_any", 0), (34, "op_all", 0), (48, "op_coinid", 0),
            (49, "op_bls_g1_subtract", 0), (50, "op_bls_g1_multiply", 0), (51, "op_bls_g1_negate", 0), (52, "op_bls_g2_add", 0),
            (53, "op_bls_g2_subtract", 0), (54, "op_bls_g2_multiply", 0), (55, "op_bls_g2_negate", 0),
            (56, "op_bls_map_to_g1", 0), (57, "op_bls_map_to_g2", 0), (58, "op_bls_pairing_identity", 0),
            (59, "op_bls_verify", 0), (60, "op_modpow", 0), (61, "op_mod", 0), (62, "op_keccak256", 0x100),
            (63, "op_sha256_tree", 0x400), (64, "op_secp256k1_verify", 0x800), (65, "op_secp256r1_verify", 0x800)]
_ops = []
_m = _re.search(r"let f = match op \{(.*?)\n        \};\n        f\(allocator", _cd, _re.S)
if _m:
    _body = _m.group(1)
    for _mm2 in _re.finditer(r"^\s*(\d+)\s*(?:if flags\.contains\(ClvmFlags::([A-Z_0-9]+)\)\s*)?=>\s*(op_[a-z0-9_]+),", _body, _re.M):
        _ops.append((int(_mm2.group(1)), _mm2.group(3), _flags.get(_mm2.group(2), 0) if _mm2.group(2) else 0))
    # the block arm `60 => { … op_modpow }`
    for _mm2 in _re.finditer(r"^\s*(\d+)\s*=>\s*\{.*?\n\s*(op_[a-z0-9_]+)\s*\n\s*\}", _body, _re.M | _re.S):
        _ops.append((int(_mm2.group(1)), _mm2.group(2), 0))
_ops = sorted(set(_ops))
if len(_ops) < 40:
    misses.append("chia_dialect.rs:operator table")
    _ops = _PIN_OPS
raw("chiaOpTable", "List (Nat × String × Nat)",
    "[" + ", ".join('(%d, "%s", %d)' % o for o in _ops) + "]",
    "src/chia_dialect.rs ChiaDialect::op: (opcode, operator function, required flag bits)")
# 4-byte opcodes
_sec = _re.findall(r"(0x[0-9a-fA-F]{8})\s*=>\s*(op_secp256[kr]1_verify)", _cd)
if len(_sec) != 2:
    misses.append("chia_dialect.rs:4-byte opcodes")
    _sec = [("0x13d61f00", "op_secp256k1_verify"), ("0x1c3a8f00", "op_secp256r1_verify")]
raw("chiaOp4Table", "List (Nat × String)", "[" + ", ".join('(%d, "%s")' % (int(a, 0), b) for a, b in _sec) + "]",
    "src/chia_dialect.rs 4-byte opcodes with assigned operators")
# gc_candidate list
_m = _re.search(r"NodeVisitor::U32\(\s*([\d\s|]+?),?\s*\)\s*=>\s*true", _cd, _re.S)
_gc = [int(x) for x in _re.findall(r"\d+", _m.group(1))] if _m else None
if not _gc:
    misses.append("chia_dialect.rs:gc_candidate")
    _gc = [2, 7, 9, 10, 11, 13, 16, 17, 18, 19, 20, 21, 22, 23, 24, 25, 26, 27, 29, 30, 32, 33, 34, 48, 49, 50, 51, 56, 58, 59, 60, 61, 62, 63]
nat_list("gcCandidates", _gc, "src/chia_dialect.rs gc_candidate opcodes")
# keywords
for _kw, _fb in (("quote_kw", 1), ("apply_kw", 2), ("softfork_kw", 36)):
    pattern("src/chia_dialect.rs", r"fn %s\(&self\) -> u32 \{\s*(\d+)\s*\}" % _kw, "chia_" + _kw, _fb, _kw)
# f_table names
_ft = _re.findall(r"\((op_[a-z0-9_]+),\s*\"(op_[a-z0-9_]+)\"\)", src("src/f_table.rs"))
if len(_ft) < 40:
    misses.append("f_table.rs:opcode_lookup")
    _ft = []
raw("fTableNames", "List (String × String)", "[" + ", ".join('("%s", "%s")' % (n, f) for f, n in _ft) + "]",
    "src/f_table.rs opcode_by_name: (name, operator function)")
# run_program: softfork nesting limit
pattern("src/run_program.rs", r"self\.softfork_stack\.len\(\) >= (\d+)", "softforkNestingLimit", 20, "LIMIT_SOFTFORK nesting limit")
