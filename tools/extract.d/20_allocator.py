# allocator constants (src/allocator.rs) -> lean/ClvmModel/Gen/Allocator.lean
const("src/allocator.rs", "MAX_NUM_ATOMS", "maxNumAtoms", 62500000)
const("src/allocator.rs", "MAX_NUM_PAIRS", "maxNumPairs", 62500000)
const("src/allocator.rs", "NODE_PTR_IDX_BITS", "nodePtrIdxBits", 26)
const("src/allocator.rs", "CLONE_ATOM_LIMIT", "cloneAtomLimit", 48)
const("src/allocator.rs", "MIN_SAVINGS", "minSavings", 1024)
# initial ghost counters of Allocator::new_limited
pattern("src/allocator.rs", r"fn new_limited.*?ghost_atoms:\s*(\d+)\s*,", "initGhostAtoms", 2, "new_limited ghost_atoms")
pattern("src/allocator.rs", r"fn new_limited.*?ghost_pairs:\s*(\d+)\s*,", "initGhostPairs", 0, "new_limited ghost_pairs")
pattern("src/allocator.rs", r"fn new_limited.*?ghost_heap:\s*(\d+)\s*,", "initGhostHeap", 1, "new_limited ghost_heap")
# per-entry weight of atoms / pairs in maybe_restore_with_node's saved_bytes estimate
pattern("src/allocator.rs", r"\(self\.atom_vec\.len\(\) - checkpoint\.atoms as usize\) \* (\d+)", "savedBytesPerAtom", 8, "saved_bytes atom weight")
pattern("src/allocator.rs", r"\(self\.pair_vec\.len\(\) - checkpoint\.pairs as usize\) \* (\d+)", "savedBytesPerPair", 8, "saved_bytes pair weight")
# comparison ladders (kept as lists; the model folds over them in source order)
def _ladder(fn_regex, item_regex, lean_name, fallback, what):
    import re as _re2
    m = _re2.search(fn_regex, src("src/allocator.rs"), _re2.S)
    vals = None
    if m:
        vals = [int(x.replace("_", ""), 0) for x in _re2.findall(item_regex, m.group(1))]
    if not vals or len(vals) != len(fallback):
        misses.append("src/allocator.rs:" + what)
        vals = fallback
    nat_list(lean_name, vals, "src/allocator.rs " + what)
_ladder(r"pub fn len_for_value\(val: u32\) -> usize \{(.*?)\n\}", r"val < (0x[0-9a-fA-F_]+)", "lenForValueThresholds",
        [0x80, 0x8000, 0x800000, 0x80000000], "len_for_value thresholds (val < t)")
_ladder(r"pub fn new_u64\(.*?\{(.*?)\n    \}", r"val < (0x[0-9a-fA-F_]+)", "newU64Thresholds",
        [1 << (8 * k - 1) for k in range(1, 9)], "new_u64 thresholds (val < t)")
_ladder(r"pub fn new_i64\(.*?\{(.*?)\n    \}", r"val >= -(0x[0-9a-fA-F_]+)", "newI64Thresholds",
        [1 << (8 * k - 1) for k in range(1, 8)], "new_i64 thresholds (val >= -t)")
