# classic serialization constants
import re as _re

def _expr(s):
    s = s.replace("_", "")
    if not _re.fullmatch(r"[0-9a-fx<+()\s]+", s):
        raise ValueError(s)
    return eval(s, {"__builtins__": {}})

def _hexlist(path, regex, lean_name, fallback, what):
    """ladder of exclusive upper bounds `x < T`; an inclusive comparison `x <= T` is normalised to T+1"""
    vals = []
    for m in _re.finditer(regex, src(path)):
        v = int(m.group(2).replace("_", ""), 0)
        vals.append(v + 1 if m.group(1) == "<=" else v)
    if len(vals) != len(fallback):
        misses.append("%s:%s" % (path, what))
        vals = fallback
    nat_list(lean_name, vals, "%s %s" % (path, what))
    return vals

# write_atom.rs: the `size < …` ladder of write_atom_encoding_prefix_with_size
_hexlist("src/serde/write_atom.rs", r"else if size (<=?) (0x[0-9a-fA-F_]+)", "writeAtomThresholds",
         [0x40, 0x2000, 0x100000, 0x8000000, 0x400000000], "size thresholds")
# parse_atom.rs: decode_size_with_offset limits
pattern("src/serde/parse_atom.rs", r"if atom_size >= (0x[0-9a-fA-F_]+)", "decodeSizeMax", 0x400000000, "atom_size bound")
pattern("src/serde/parse_atom.rs", r"if size_blob\.len\(\) > (\d+)", "decodeSizeMaxPrefix", 6, "size_blob.len bound")
# tools.rs: is_canonical_atom min_value table
def _minvalues():
    m = _re.search(r"let min_value = match prefix_len \{(.*?)_ =>", src("src/serde/tools.rs"), _re.S)
    vals = None
    if m:
        rows = _re.findall(r"(\d+)\s*=>\s*([^,]+),", m.group(1))
        try:
            d = {int(k): _expr(v) for k, v in rows}
            vals = [d[i] for i in range(1, 7)]
        except Exception:
            vals = None
    if vals is None:
        misses.append("src/serde/tools.rs:min_value table")
        vals = [1, 1 << 6, 1 << 13, 1 << 20, 1 << 28, 1 << 36]
    nat_list("canonMinValue", vals, "src/serde/tools.rs is_canonical_atom min_value for prefix_len 1..6")
_minvalues()
# serialized_length.rs: serialized_length_atom ladder
_hexlist("src/serde/serialized_length.rs", r"else if lb (<=?) (0x[0-9a-fA-F_]+)", "serLenAtomThresholds",
         [0x40, 0x2000, 0x100000, 0x8000000], "serialized_length_atom thresholds")
# ser.rs: default limit of node_to_bytes
pattern("src/serde/ser.rs", r"node_to_bytes_limit\(a, node, (\d+)\)", "nodeToBytesLimit", 2000000, "node_to_bytes default limit")
