# Python wheel (C26–C28): the flag set `from_bits_truncate` keeps, the wheel's own constants
# (heap limit, default max atom length, the flag that selects the heap limit, exported flag names),
# the `EvalErr` display strings that the bindings hand to Python, and the constants of the
# pure-Python helpers (ser.py thresholds, chia_dialect.py keywords).
# -> lean/ClvmModel/Gen/Wheel.lean      (all names carry a `wheel` / `py` prefix)
import re as _re_w

_cdw = src("src/chia_dialect.rs")
_PINW = [("CANONICAL_INTS", 0x1), ("NO_UNKNOWN_OPS", 0x2), ("LIMIT_HEAP", 0x4), ("RELAXED_BLS", 0x8), ("LIMIT_SOFTFORK", 0x10),
         ("ENABLE_GC", 0x20), ("LIMITS", 0x40), ("ENABLE_KECCAK_OPS_OUTSIDE_GUARD", 0x100), ("DISABLE_OP", 0x200),
         ("ENABLE_SHA256_TREE", 0x400), ("ENABLE_SECP_OPS", 0x800), ("MALACHITE", 0x1000), ("NEW_COST_MODEL", 0x2000)]
_fw = []
_mw = _re_w.search(r"pub struct ClvmFlags: u32 \{(.*?)\n    \}", _cdw, _re_w.S)
if _mw:
    _fw = [(n, int(v.replace("_", ""), 0)) for n, v in
           _re_w.findall(r"const\s+([A-Z_0-9]+)\s*=\s*(0x[0-9a-fA-F_]+|\d+)\s*;", _mw.group(1))]
if not _fw:
    misses.append("src/chia_dialect.rs:ClvmFlags (wheel)")
    _fw = list(_PINW)
_fwd = dict(_fw)
# the declared flag constants, in declaration order: `from_bits_truncate` keeps exactly the union of these
nat_list("wheelFlagBits", [v for _, v in _fw], "src/chia_dialect.rs bitflags! ClvmFlags: declared constants, in order")

_api = src("wheel/src/api.rs")
# `if flags.contains(ClvmFlags::LIMIT_HEAP) { Allocator::new_limited(500000000) } else { Allocator::new() }`
_mw = _re_w.search(r"if flags\.contains\(ClvmFlags::([A-Z_0-9]+)\)\s*\{\s*Allocator::new_limited\(([0-9_]+)\)\s*\}\s*else\s*\{\s*Allocator::new\(\)", _api)
if _mw and _mw.group(1) in _fwd:
    raw("wheelHeapFlag", "Nat", str(_fwd[_mw.group(1)]), "wheel/src/api.rs flag selecting the limited allocator (ClvmFlags::%s)" % _mw.group(1))
    raw("wheelHeapLimit", "Nat", str(int(_mw.group(2).replace("_", ""))), "wheel/src/api.rs Allocator::new_limited(…) under that flag")
else:
    misses.append("wheel/src/api.rs:heap limit choice")
    raw("wheelHeapFlag", "Nat", "4", "wheel/src/api.rs flag selecting the limited allocator (pinned)")
    raw("wheelHeapLimit", "Nat", "500000000", "wheel/src/api.rs Allocator::new_limited(…) (pinned)")
# Allocator::new() = new_limited(u32::MAX)
_mw = _re_w.search(r"pub fn new\(\) -> Self \{\s*Self::new_limited\(u32::MAX as usize\)", src("src/allocator.rs"))
if not _mw:
    misses.append("src/allocator.rs:Allocator::new heap limit")
raw("wheelDefaultHeapLimit", "Nat", str(0xffffffff), "src/allocator.rs Allocator::new() = new_limited(u32::MAX)")
const("wheel/src/api.rs", "PY_DEFAULT_MAX_ATOM_LEN", "wheelDefaultMaxAtomLen", 1 << 20)
# the friendlier message of deser_2026
_mw = _re_w.search(r'new_err\(\s*"(deser_2026:[^"]*)"', _api)
if not _mw:
    misses.append("wheel/src/api.rs:deser_2026 missing-prefix message")
raw("wheelMissingPrefixMsg", "String", '"%s"' % (_mw.group(1) if _mw else "deser_2026: blob is missing the serde_2026 magic prefix"),
    "wheel/src/api.rs deser_2026 message when the magic prefix is missing")
# exported flag constants: m.add("NAME", ClvmFlags::NAME.bits()) / MEMPOOL_MODE.bits()
_exp = _re_w.findall(r'm\.add\("([A-Z_0-9]+)",\s*(?:ClvmFlags::)?([A-Z_0-9]+)\.bits\(\)\)', _api)
_mmw = None
_mw = _re_w.search(r"pub const MEMPOOL_MODE: ClvmFlags = (.*?);", _cdw, _re_w.S)
if _mw:
    _ns = _re_w.findall(r"ClvmFlags::([A-Z_0-9]+)", _mw.group(1))
    if _ns and all(n in _fwd for n in _ns):
        _mmw = 0
        for n in _ns:
            _mmw |= _fwd[n]
if _mmw is None:
    misses.append("src/chia_dialect.rs:MEMPOOL_MODE (wheel)")
    _mmw = 0x217
if not _exp:
    misses.append("wheel/src/api.rs:exported flags")
    _exp = [(n, n) for n in ["NO_UNKNOWN_OPS", "LIMIT_HEAP", "MEMPOOL_MODE", "ENABLE_SHA256_TREE", "ENABLE_SECP_OPS", "DISABLE_OP", "CANONICAL_INTS"]]
raw("wheelExportedFlags", "List (String × Nat)",
    "[" + ", ".join('("%s", %d)' % (a, _mmw if b == "MEMPOOL_MODE" else _fwd.get(b, 0)) for a, b in _exp) + "]",
    "wheel/src/api.rs module constants (name as seen from Python, value)")

# src/error.rs: `#[error("…")] Variant(payload…)`: display string, has a node, has a message payload
_errs = _re_w.findall(r'#\[error\("([^"]*)"\)\]\s*([A-Za-z0-9]+)(\([^)]*\))?', src("src/error.rs"))
_PIN_ERRS = [("bad encoding", "SerializationError", ""), ("invalid backreference during deserialisation", "SerializationBackreferenceError", ""),
             ("Out of Memory", "OutOfMemory", ""), ("path into atom", "PathIntoAtom", ""), ("too many pairs", "TooManyPairs", ""),
             ("Too Many Atoms", "TooManyAtoms", ""), ("cost exceeded or below zero", "CostExceeded", ""),
             ("unknown softfork extension", "UnknownSoftforkExtension", ""), ("softfork specified cost mismatch", "SoftforkCostMismatch", ""),
             ("Internal Error: {1}", "InternalError", "(NodePtr, String)"), ("clvm raise", "Raise", "(NodePtr)"),
             ("Invalid Nil Terminator in operand list", "InvalidNilTerminator", "(NodePtr)"), ("Division by zero", "DivisionByZero", "(NodePtr)"),
             ("Value Stack Limit Reached", "ValueStackLimitReached", "(NodePtr)"),
             ("Environment Stack Limit Reached", "EnvironmentStackLimitReached", "(NodePtr)"), ("Shift too large", "ShiftTooLarge", "(NodePtr)"),
             ("Reserved operator", "Reserved", "(NodePtr)"), ("invalid operator", "Invalid", "(NodePtr)"),
             ("unimplemented operator", "Unimplemented", "(NodePtr)"), ("InvalidOperatorArg: {1}", "InvalidOpArg", "(NodePtr, String)"),
             ("InvalidAllocatorArg: {1}", "InvalidAllocArg", "(NodePtr, String)"), ("bls_pairing_identity failed", "BLSPairingIdentityFailed", "(NodePtr)"),
             ("bls_verify failed", "BLSVerifyFailed", "(NodePtr)"), ("Secp256 Verify Error: failed", "Secp256Failed", "(NodePtr)"),
             ("softfork stack depth exceeded", "SoftforkStackDepthExceeded", "")]
if len(_errs) < 20:
    misses.append("src/error.rs:#[error] table")
    _errs = _PIN_ERRS
# (variant, format string with `{1}` for the message payload, carries a NodePtr)
raw("wheelErrTable", "List (String × String × Bool)",
    "[" + ", ".join('("%s", "%s", %s)' % (v, m, "true" if "NodePtr" in (p or "") else "false") for m, v, p in _errs) + "]",
    "src/error.rs EvalErr: (variant, thiserror display string, has a NodePtr payload)")

# ---- pure-Python helpers
_ser = src("wheel/python/clvm_rs/ser.py")
_mw = _re_w.search(r"def size_blob_for_blob\(.*?\n(.*?)\ndef ", _ser, _re_w.S)
_thr = [int(x, 0) for x in _re_w.findall(r"if size < (0x[0-9A-Fa-f]+):", _mw.group(1))] if _mw else []
if len(_thr) != 5:
    misses.append("wheel/python/clvm_rs/ser.py:size_blob_for_blob thresholds")
    _thr = [0x40, 0x2000, 0x100000, 0x8000000, 0x400000000]
nat_list("pySizeThresholds", _thr, "wheel/python/clvm_rs/ser.py size_blob_for_blob `if size < …` ladder")
pattern("wheel/python/clvm_rs/ser.py", r"MAX_SINGLE_BYTE = (0x[0-9A-Fa-f]+)", "pyMaxSingleByte", 0x7F, "MAX_SINGLE_BYTE")
pattern("wheel/python/clvm_rs/ser.py", r"CONS_BOX_MARKER = (0x[0-9A-Fa-f]+)", "pyConsBoxMarker", 0xFF, "CONS_BOX_MARKER")
pattern("wheel/python/clvm_rs/ser.py", r"if size >= (0x[0-9A-Fa-f]+):\s*\n\s*raise ValueError\(\"blob too large\"\)", "pyBlobTooLarge",
        0x400000000, "_atom_from_stream `blob too large` bound")
_cdp = src("wheel/python/clvm_rs/chia_dialect.py")
for _n, _ln, _fb in [("NULL", "pyKwNull", ""), ("ONE", "pyKwOne", "01"), ("Q_KW", "pyKwQ", "01"), ("A_KW", "pyKwA", "02"), ("C_KW", "pyKwC", "04")]:
    _mw = _re_w.search(r'%s=bytes\.fromhex\("([0-9a-fA-F]*)"\)' % _n, _cdp)
    if not _mw:
        misses.append("wheel/python/clvm_rs/chia_dialect.py:%s" % _n)
    _h = _mw.group(1) if _mw else _fb
    nat_list(_ln, [int(_h[i:i + 2], 16) for i in range(0, len(_h), 2)], "wheel/python/clvm_rs/chia_dialect.py CHIA_DIALECT.%s (bytes)" % _n)
_th = src("wheel/python/clvm_rs/tree_hash.py")
for _n, _ln, _fb in [("CHIA_TREE_HASH_ATOM_PREFIX", "pyTreeHashAtomPrefix", "01"), ("CHIA_TREE_HASH_PAIR_PREFIX", "pyTreeHashPairPrefix", "02")]:
    _mw = _re_w.search(r'%s = bytes\.fromhex\("([0-9a-fA-F]*)"\)' % _n, _th)
    if not _mw:
        misses.append("wheel/python/clvm_rs/tree_hash.py:%s" % _n)
    _h = _mw.group(1) if _mw else _fb
    nat_list(_ln, [int(_h[i:i + 2], 16) for i in range(0, len(_h), 2)], "wheel/python/clvm_rs/tree_hash.py %s (bytes)" % _n)
