#!/usr/bin/env python3
"""Regenerates MANIFEST.json from tools/propconf.py (claimed checks) + properties.jsonl."""
import json, os, sys
ROOT = os.path.dirname(os.path.dirname(os.path.abspath(__file__)))
sys.path.insert(0, os.path.join(ROOT, "tools"))
import propconf

ids = [json.loads(l)["id"] for l in open(os.path.join(ROOT, "properties.jsonl"))]
checks = []
for pid in ids:
    c = propconf.PROPS.get(pid)
    if not c or not c.get("claimed", True):
        continue
    checks.append({
        "property_id": pid,
        "quick_cmd": "./check %s --tier quick" % pid,
        "thorough_cmd": "./check %s --tier thorough" % pid,
        "evidence_file": "/verif/evidence/%s.json" % pid,
        "replay_cmd_template": "./check %s --replay {path}" % pid,
        "engine": "lean4-proof+correspondence",
        "level_claimed": {"category": "proof", "text": c["level_text"], "design_ref": c.get("design_ref", "DESIGN.md §5 " + pid)},
        "level_note": c["level_note"],
        "technique": c.get("technique", "Lean 4 theorems about an executable model; model tied to /repo by translator + differential correspondence"),
    })
na = [{"property_id": pid, "reason": propconf.NOT_CLAIMED.get(pid, "not yet claimed: model and theorems for this property are not built yet (see DESIGN.md §8 build order)")}
      for pid in ids if pid not in [c["property_id"] for c in checks]]
m = {
    "version": 1,
    "setup_cmd": "./setup.sh",
    "hooks": {
        "guard": "clvm_rs_verif",
        "enable": "no source hooks are needed: the harness crate depends on /repo by path and uses public API only (cargo features of /repo: no-fastpath, counters, pre-eval, allocator-debug are the repo's own)",
        "baseline_off_cmd": "cd /repo && cargo test --workspace --no-fail-fast --offline",
        "source_commits": propconf.HOOK_COMMITS,
        "add_only": True,
    },
    "engines": [{
        "name": "lean4-proof+correspondence", "path": "/verif/check",
        "serves_properties": [c["property_id"] for c in checks],
        "kind_free_text": "Lean 4 (kernel-checked theorems about an executable model, lake project /verif/lean) + translator tools/extract.py + Rust differential harness /verif/harness driving the real crate and the compiled model over one line protocol",
    }],
    "checks": checks,
    "not_applicable": na,
    "notes": "see DESIGN.md; KNOWN_FINDINGS.jsonl lists genuine defects recorded or fixed",
}
json.dump(m, open(os.path.join(ROOT, "MANIFEST.json"), "w"), indent=1)
print("claimed:", len(checks), "unclaimed:", len(na))
