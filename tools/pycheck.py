"""
Python-wheel part of ./check (properties C26–C28).  Imported by ./check; two property-config keys:

  py_streams  [[stream, quick n, thorough n], …]
      requests from `h gen <stream>` are answered by three sides:
        R  `h run`                      the Rust core (+ the replica of the wheel glue in harness/src/pywheel.rs)
        P  `python3 pyharness/ph.py run` the wheel built from /repo/wheel and the pure-Python helpers
        L  `clvm_model`                 the Lean model *of the Python side* (may answer `bad-request` for kinds it
                                        does not model when the stream is listed under `model_optional`)
      All pairs are diffed.  R ≠ P is a failure of the property itself (the wheel does not reproduce the core):
      it is reported like an oracle failure `py:<stream>` whose description starts with the request id, so that
      KNOWN_FINDINGS predicates apply to it.  P ≠ L is a model/implementation disagreement (correspondence).
      When R = P the pair (R, L) is the pair (P, L); when R ≠ P the model is expected on the Python side (it is
      faithful to the code as it is) and (R, L) is not reported a second time.
  py_oracles  [[name, quick n, thorough n], …]
      `python3 pyharness/ph.py oracle <name> <seed> <n> <tier>`, same FAIL/SAMPLE/DIST/STATS lines as `h oracle`.
"""
import hashlib
import os
import subprocess
import sys
import threading

import propconf

ROOT = os.path.dirname(os.path.dirname(os.path.abspath(__file__)))
PH = os.path.join(ROOT, "pyharness", "ph.py")


def wanted(conf):
    return bool(conf.get("py_streams") or conf.get("py_oracles"))


def build(env):
    """build the extension module from /repo's working tree and stage the package (inside the check lock)"""
    p = subprocess.run([os.path.join(ROOT, "pyharness", "build.sh")], stdout=subprocess.PIPE, stderr=subprocess.STDOUT, env=env)
    if p.returncode != 0:
        raise SystemExit("wheel does not build from the current tree:\n" + p.stdout.decode("utf-8", "replace")[-3000:])
    return p.stdout.decode().strip().split("\n")[-1]


def _lines(s):
    return s.rstrip("\n").split("\n") if s.strip() else []


def run_py_stream(exe, model_exe, stream, seed, n, tier, env):
    g = subprocess.run([exe, "gen", stream, str(seed), str(n), tier], stdout=subprocess.PIPE, stderr=subprocess.STDOUT)
    if g.returncode != 0:
        return {"stream": stream, "error": "generator failed: " + g.stdout.decode("utf-8", "replace")[-400:],
                "requests": 0, "mismatches": [], "py_failures": []}
    reqb = g.stdout
    cmds = {"rust": [exe, "run"], "python": [sys.executable, PH, "run"], "model": [model_exe]}
    outs = {}

    def feed(k):
        p = subprocess.Popen(cmds[k], stdin=subprocess.PIPE, stdout=subprocess.PIPE, stderr=subprocess.PIPE, env=env)
        o, e = p.communicate(reqb)
        outs[k] = (p.returncode, _lines(o.decode("utf-8", "replace")), (e or b"").decode("utf-8", "replace")[-300:])

    ts = [threading.Thread(target=feed, args=(k,)) for k in cmds]
    for t in ts:
        t.start()
    for t in ts:
        t.join()
    reqs = _lines(reqb.decode())
    mism, fails, kinds, distinct, nontriv = [], [], {}, set(), set()
    nm = nf = 0

    def reply(k, i):
        rc, ls, err = outs[k]
        return ls[i] if i < len(ls) else "<no reply: %s side died (rc=%s) %s>" % (k, rc, err)

    for i, r in enumerate(reqs):
        a, p, m = reply("rust", i), reply("python", i), reply("model", i)
        body = r.split(" ", 2)[2] if r.count(" ") >= 2 else r
        h = hashlib.sha256(body.encode()).digest()[:12]
        if h not in distinct:
            distinct.add(h)
            if propconf.nontrivial(stream, r, a):
                nontriv.add(h)
        toks = a.split(" ")
        k = " ".join(toks[1:3])[:60] if len(toks) > 2 and toks[1] == "err" else (toks[1] if len(toks) > 1 else "?")
        kinds[k] = kinds.get(k, 0) + 1
        if a != p:
            nf += 1
            kinds["rust!=python"] = kinds.get("rust!=python", 0) + 1
            if len(fails) < 50:
                rid = r.split(" ")[1] if r.count(" ") >= 1 else "?"
                fails.append({"oracle": "py:" + stream,
                              "what": "%s stream=%s request=%s rust=%s python=%s" % (rid, stream, r[:1500], a[:600], p[:600])})
        if p != m:
            if m.endswith(" unsupported") or ("bad-request" in m and not propconf.model_must_answer(stream)):
                kinds["model-skip"] = kinds.get("model-skip", 0) + 1
                continue
            nm += 1
            if len(mism) < 20:
                mism.append({"request": r[:2000], "impl": p[:2000], "model": m[:2000], "rust": a[:600]})
    step = max(1, len(reqs) // 3)
    return {"stream": stream, "sides": ["rust", "python", "model"], "requests": len(reqs), "distinct": len(distinct),
            "nontrivial": len(nontriv), "reply_kinds": kinds, "mismatch_count": nm, "mismatches": mism,
            "rust_python_mismatch_count": nf, "py_failures": fails,
            "samples": [{"request": reqs[i][:300], "reply": reply("python", i)[:300]} for i in range(0, len(reqs), step)][:3]}


def run_py_oracle(exe, name, seed, n, tier, env):
    e = dict(env, VERIF_H=exe)
    p = subprocess.run([sys.executable, PH, "oracle", name, str(seed), str(n), tier], stdout=subprocess.PIPE,
                       stderr=subprocess.STDOUT, env=e)
    out = p.stdout.decode("utf-8", "replace")
    rep = {"oracle": "py:" + name, "failures": [], "samples": [], "dist": {}, "evaluations": 0, "nontrivial": 0}
    if p.returncode != 0:
        rep["failures"].append({"oracle": "py:" + name, "what": "oracle process died rc=%d: %s" % (p.returncode, out[-500:])})
    for line in out.split("\n"):
        if line.startswith("FAIL "):
            _, o, w = (line.split(" ", 2) + ["", ""])[:3]
            rep["failures"].append({"oracle": o, "what": w})
        elif line.startswith("SAMPLE "):
            rep["samples"].append(line[7:])
        elif line.startswith("DIST "):
            k, v = line[5:].rsplit(" ", 1)
            rep["dist"][k.replace(" ", "_")] = int(v)
        elif line.startswith("STATS "):
            for kv in line.split()[1:]:
                k, v = kv.split("=")
                if k in ("evaluations", "nontrivial"):
                    rep[k] = int(v)
    return rep


def do_round(conf, exe, model_exe, seed, mult, tier, results, env):
    """one round of the property's python streams and oracles; returns (failures, disagreements) and appends
    the per-stream / per-oracle reports to results["streams"] / results["oracles"]"""
    fl, dis = [], []
    for (stream, nq, nt) in conf.get("py_streams", []):
        n = (nt if tier == "thorough" else nq) * mult
        r = run_py_stream(exe, model_exe, stream, seed, n, tier, env)
        fl += r.pop("py_failures")
        results["streams"].append(r)
        if r.get("error"):
            dis.append({"stream": stream, "error": r["error"]})
        for m in r["mismatches"]:
            dis.append(dict(m, stream=stream))
    for (name, nq, nt) in conf.get("py_oracles", []):
        n = (nt if tier == "thorough" else nq) * mult
        r = run_py_oracle(exe, name, seed, n, tier, env)
        results["oracles"].append(r)
        fl += r["failures"]
    return fl, dis
