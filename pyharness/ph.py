#!/usr/bin/env python3
"""
Python side of the correspondence harness (properties C26, C27, C28).

    ph.py run                              request lines on stdin -> reply lines on stdout
    ph.py oracle <name> <seed> <n> <tier>  property oracle; FAIL/SAMPLE/DIST/STATS lines like `h oracle`

The package under test is the one staged by pyharness/build.sh from /repo's current working tree
(<verif>/.build/pystage/clvm_rs: the pure-Python files + the extension module built from
/repo/wheel).  Request kinds and reply formats are documented in harness/src/pywheel.rs; this file
answers them with the *wheel* (`run_serialized_chia_program`, `ser_*`, `deser_*`, LazyNode views) and
with the pure-Python helpers (ser.py, casts.py, curry_and_treehash.py, program.py).

All random inputs come from the Rust harness generators (`h gen …`, one splitmix64 state seeded by
VERIF_SEED); this file makes no random choice of its own.
"""
import io
import os
import subprocess
import sys

ROOT = os.path.dirname(os.path.dirname(os.path.abspath(__file__)))
STAGE = os.environ.get("VERIF_PYSTAGE", os.path.join(ROOT, ".build", "pystage"))
sys.path.insert(0, STAGE)
sys.setrecursionlimit(10000)

import clvm_rs  # noqa: E402
import clvm_rs.clvm_rs as ext  # noqa: E402
from clvm_rs import Program  # noqa: E402
from clvm_rs.eval_error import EvalError  # noqa: E402
from clvm_rs import ser as pyser  # noqa: E402
from clvm_rs import casts as pycasts  # noqa: E402
from clvm_rs.clvm_tree import CLVMTree  # noqa: E402

H_EXE = os.environ.get("VERIF_H", os.path.join(ROOT, ".build", "h-default", "debug", "h"))


# ------------------------------------------------------------------ canonical wire form
def unhex(s):
    return b"" if s == "-" else bytes.fromhex(s)


def hexd(b):
    return bytes(b).hex() if len(b) else "-"


def _prefix(b):
    n = len(b)
    if n == 0:
        return b"\x80"
    if n == 1 and b[0] < 0x80:
        return b""
    if n < 0x40:
        return bytes([0x80 | n])
    if n < 0x2000:
        return bytes([0xC0 | (n >> 8), n & 0xFF])
    if n < 0x100000:
        return bytes([0xE0 | (n >> 16), (n >> 8) & 0xFF, n & 0xFF])
    if n < 0x8000000:
        return bytes([0xF0 | (n >> 24), (n >> 16) & 0xFF, (n >> 8) & 0xFF, n & 0xFF])
    return bytes([0xF8 | (n >> 32), (n >> 24) & 0xFF, (n >> 16) & 0xFF, (n >> 8) & 0xFF, n & 0xFF])


def view(obj):
    """wire form of any object with .atom/.pair, read only through those two views
    (harness canonicaliser: not the package's serializer)."""
    out = bytearray()
    st = [obj]
    while st:
        o = st.pop()
        p = o.pair
        if p is not None:
            out.append(0xFF)
            st.append(p[1])
            st.append(p[0])
        else:
            a = o.atom
            if a is None:
                raise TypeError("object with neither atom nor pair")
            a = bytes(a)
            out += _prefix(a)
            out += a
    return bytes(out)


def nested(blob):
    """wire bytes -> nested python value (bytes | (l, r)); harness reader, not the package's"""
    pos = 0
    ops = [0]
    vals = []
    n = len(blob)
    while ops:
        op = ops.pop()
        if op == 1:
            r = vals.pop()
            l = vals.pop()
            vals.append((l, r))
            continue
        b = blob[pos]
        pos += 1
        if b == 0xFF:
            ops += [1, 0, 0]
            continue
        if b < 0x80:
            vals.append(bytes([b]))
            continue
        k = 0
        m = 0x80
        while b & m:
            k += 1
            b &= ~m
            m >>= 1
        size = b
        for _ in range(k - 1):
            size = (size << 8) | blob[pos]
            pos += 1
        if pos + size > n:
            raise ValueError("short wire")
        vals.append(bytes(blob[pos:pos + size]))
        pos += size
    if pos != n:
        raise ValueError("trailing wire bytes")
    return vals[0]


class Simple:
    """a plain persistent CLVM object tree (children are kept alive by their parent)"""
    __slots__ = ("atom", "_pair")

    def __init__(self, atom, pair):
        self.atom = atom
        self._pair = pair

    @property
    def pair(self):
        return self._pair


def build(v, new_atom, new_pair):
    """nested value -> object tree, bottom-up, iterative"""
    st = [(v, False)]
    vals = []
    while st:
        x, done = st.pop()
        if done:
            r = vals.pop()
            l = vals.pop()
            vals.append(new_pair(l, r))
        elif isinstance(x, tuple):
            st.append((x, True))
            st.append((x[1], False))
            st.append((x[0], False))
        else:
            vals.append(new_atom(x))
    return vals[0]


def build_shared(v, new_atom, new_pair):
    """like `build`, but equal sub-values become the *same object* (identity sharing, as a Python
    caller gets by re-using sub-programs): exercises clvm_tree_to_lazy_node's identity memo"""
    memo = {}
    st = [(v, False)]
    vals = []
    while st:
        x, done = st.pop()
        if done:
            r = vals.pop()
            l = vals.pop()
            k = (id(l), id(r))
            if k not in memo:
                memo[k] = new_pair(l, r)
            vals.append(memo[k])
        elif isinstance(x, tuple):
            st.append((x, True))
            st.append((x[1], False))
            st.append((x[0], False))
        else:
            if x not in memo:
                memo[x] = new_atom(x)
            vals.append(memo[x])
    return vals[0], memo  # the memo keeps every object alive


def wire_of(v):
    """nested value -> wire bytes (harness writer)"""
    return view(simple_tree(v))


def mirrored(v):
    """trees in which a pair and its mirror image both occur, built from the same children"""
    if not isinstance(v, tuple):
        return [(v, v), ((v, b"x"), (b"x", v))]
    l, r = v
    return [((l, r), (r, l)), ((r, l), (l, r)), (v, ((r, l), l)), (((l, r), (r, l)), ((r, l), (l, r)))]


def simple_tree(v):
    return build(v, lambda a: Simple(a, None), lambda l, r: Simple(None, (l, r)))


def program_tree(v):
    return build(v, Program.new_atom, Program.new_pair)


def msg_(s):
    return str(s).replace(" ", "_")


# ------------------------------------------------------------------ C26
def k_pyrun(a):
    flags = int(a[0], 16)
    budget = int(a[1])
    prog, env = unhex(a[2]), unhex(a[3])
    try:
        cost, node = ext.run_serialized_chia_program(prog, env, budget, flags)
    except ValueError as e:
        ar = e.args
        if len(ar) == 2 and isinstance(ar[0], str):
            return "err %s %s" % (msg_(ar[0]), view(ar[1]).hex())
        if len(ar) == 1 and isinstance(ar[0], str):
            return "err %s noblob" % msg_(ar[0])
        return "exc ValueError %s" % msg_(repr(ar))
    return "ok %d %s" % (cost, view(node).hex())


def _opts(parts):
    kw = {}
    if len(parts) > 1:
        kw["max_atom_len"] = int(parts[1])
    if len(parts) > 2:
        kw["strict"] = parts[2] == "1"
    return kw


def wheel_deser(f, blob):
    parts = f.split(":")
    if parts[0] == "api":
        from clvm_rs import serde as _serde
        kw = _opts(parts[1:])
        return _serde.deserialize(blob, parts[1], **kw)
    if parts[0] == "legacy":
        return ext.deser_legacy(blob)
    if parts[0] == "backrefs":
        return ext.deser_backrefs(blob)
    if parts[0] == "2026":
        return ext.deser_2026(blob, **_opts(parts))
    if parts[0] == "auto":
        return ext.deser_auto(blob, **_opts(parts))
    raise KeyError(f)


def wheel_ser(node, f):
    parts = f.split(":")
    if parts[0] == "api":
        from clvm_rs import serde as _serde
        if parts[1] == "2026" and len(parts) > 2:
            return _serde.serialize(node, "2026", level=int(parts[2]))
        return _serde.serialize(node, parts[1])
    if parts[0] == "legacy":
        return ext.ser_legacy(node)
    if parts[0] == "backrefs":
        return ext.ser_backrefs(node)
    if parts[0] == "2026":
        return ext.ser_2026(node, level=int(parts[1])) if len(parts) > 1 else ext.ser_2026(node)
    if parts[0] == "view":
        return view(node)
    raise KeyError(f)


def k_pyserde(a):
    blob = unhex(a[2])
    try:
        node = wheel_deser(a[0], blob)
        out = wheel_ser(node, a[1])
    except ValueError as e:
        if len(e.args) == 1 and isinstance(e.args[0], str):
            return "err %s" % msg_(e.args[0])
        return "exc ValueError %s" % msg_(repr(e.args))
    return "ok %s" % hexd(out)


# ------------------------------------------------------------------ C28
class FakeBlob:
    """a bytes-like of a given length whose body is never materialised (for the size prefix only)"""

    def __init__(self, n, first):
        self.n = n
        self.first = first

    def __len__(self):
        return self.n

    def __getitem__(self, i):
        if i == 0:
            return self.first
        return 0

    def __repr__(self):
        return "<%d bytes>" % self.n


def k_pyser(a):
    v = nested(unhex(a[0]))
    r1 = pyser.sexp_to_bytes(simple_tree(v))
    p = program_tree(v)
    f = io.BytesIO()
    pyser.sexp_to_stream(p, f)
    r2 = f.getvalue()
    r3 = bytes(p)
    if not (r1 == r2 == r3):
        return "differ %s %s %s" % (r1.hex(), r2.hex(), r3.hex())
    return "ok %s" % r1.hex()


def k_pypfx(a):
    n, first = int(a[0]), int(a[1], 16)
    try:
        if n <= 1:
            it = pyser.atom_to_byte_iterator(bytes([first] * n))
            chunks = list(it)
            body = bytes([first] * n)
            whole = b"".join(chunks)
            assert whole.endswith(body)
            return "ok %s" % hexd(whole[: len(whole) - n])
        it = pyser.atom_to_byte_iterator(FakeBlob(n, first))
        return "ok %s" % hexd(next(it))
    except ValueError:
        return "err"


def k_pyde(a):
    blob = unhex(a[0])
    f = io.BytesIO(blob)
    try:
        r = pyser.sexp_from_stream(f, Program.new_pair, Program.new_atom)
    except ValueError:
        return "err"
    return "ok %s %d" % (view(r).hex(), f.tell())


def k_pyint(a):
    kind, _, v = a[0].partition(":")
    if kind == "to":
        return "ok %s" % hexd(pycasts.int_to_bytes(int(v)))
    if kind == "from":
        return "ok %d" % pycasts.int_from_bytes(unhex(v))
    return "bad-request"


def items_of(v):
    out = []
    while isinstance(v, tuple):
        out.append(v[0])
        v = v[1]
    if v != b"":
        raise ValueError("improper list")
    return out


def k_pycurry(a):
    m = program_tree(nested(unhex(a[0])))
    args = [program_tree(x) for x in items_of(nested(unhex(a[1])))]
    c = m.curry(*args)
    ch = m.curry_hash(*[x.tree_hash() for x in args])
    return "ok %s %s %s" % (bytes(c).hex(), ch.hex(), c.tree_hash().hex())


def k_pyuncurry(a):
    p = program_tree(nested(unhex(a[0])))
    m, args = p.uncurry()
    if args is None:
        return "ok %s none" % bytes(m).hex()
    return "ok %s %s" % (bytes(m).hex(), bytes(Program.to(list(args))).hex())


def k_pycrun(a):
    m = program_tree(nested(unhex(a[0])))
    args = [program_tree(x) for x in items_of(nested(unhex(a[1])))]
    env = program_tree(nested(unhex(a[2])))
    budget = 100_000_000
    c = m.curry(*args)
    full = env
    for x in reversed(args):
        full = Program.new_pair(x, full)

    def run(p, e):
        try:
            cost, r = p.run_with_cost(e, budget)
            return True, cost, r
        except EvalError as ex:
            return False, msg_(ex.args[0]), None

    ok1, c1, r1 = run(c, env)
    ok2, c2, r2 = run(m, full)
    if ok1 and ok2:
        b1, b2 = view(r1), view(r2)
        if b1 == b2:
            return "ok %d %d %s" % (c1, c2, b1.hex())
        return "differ %s %s" % (b1.hex(), b2.hex())
    if not ok1 and not ok2:
        return "err %s %s" % (c1, c2)
    if ok1:
        return "err-direct-only %s" % c2
    return "err-curried-only %s" % c1


KINDS = {
    "PYRUN": k_pyrun,
    "PYSERDE": k_pyserde,
    "PYSER": k_pyser,
    "PYPFX": k_pypfx,
    "PYDE": k_pyde,
    "PYINT": k_pyint,
    "PYCURRY": k_pycurry,
    "PYUNCURRY": k_pyuncurry,
    "PYCRUN": k_pycrun,
}


def handle(line):
    toks = line.strip().split(" ")
    if len(toks) < 2:
        return "? bad-request"
    f = KINDS.get(toks[0])
    if f is None:
        return "%s bad-request" % toks[1]
    try:
        return "%s %s" % (toks[1], f(toks[2:]))
    except (KeyboardInterrupt, SystemExit):
        raise
    except BaseException as e:  # an exception the glue does not document (incl. pyo3 PanicException): reported, never hidden
        return "%s exc %s %s" % (toks[1], type(e).__name__, msg_(e)[:200])


def cmd_run():
    out = sys.stdout
    for line in sys.stdin:
        if not line.strip():
            continue
        out.write(handle(line) + "\n")
    out.flush()


# ------------------------------------------------------------------ oracles
class Report:
    def __init__(self):
        self.fails = []
        self.samples = []
        self.dist = {}
        self.evaluations = 0
        self.nontrivial = 0

    def fail(self, oracle, what):
        if len(self.fails) < 50:
            self.fails.append((oracle, what))

    def hit(self, k):
        self.dist[k] = self.dist.get(k, 0) + 1

    def sample(self, s):
        if len(self.samples) < 5:
            self.samples.append(s)

    def emit(self):
        for o, w in self.fails:
            print("FAIL %s %s" % (o, w.replace("\n", " ")))
        for s in self.samples:
            print("SAMPLE %s" % s)
        for k in sorted(self.dist):
            print("DIST %s %d" % (k, self.dist[k]))
        print("STATS evaluations=%d nontrivial=%d failures=%d" % (self.evaluations, self.nontrivial, len(self.fails)))


def h_gen(stream, seed, n, tier):
    p = subprocess.run([H_EXE, "gen", stream, str(seed), str(n), tier], stdout=subprocess.PIPE, check=True)
    return [l for l in p.stdout.decode().split("\n") if l.strip()]


def h_run(lines):
    p = subprocess.run([H_EXE, "run"], input=("\n".join(lines) + "\n").encode(), stdout=subprocess.PIPE, check=True)
    return [l for l in p.stdout.decode().split("\n") if l.strip()]


class Fresh:
    """adversarial CLVMStorage: `pair` builds *fresh child wrapper objects on every call*
    and keeps no reference to them (exactly what LazyNode's getter does, in pure Python)"""
    __slots__ = ("_v",)

    def __init__(self, v):
        self._v = v

    @property
    def atom(self):
        return None if isinstance(self._v, tuple) else self._v

    @property
    def pair(self):
        if isinstance(self._v, tuple):
            return (Fresh(self._v[0]), Fresh(self._v[1]))
        return None


class FreshShared:
    """like Fresh, but atoms are *persistent shared objects* (one object per distinct value, e.g. a NIL
    singleton for list terminators) while pairs build fresh wrappers on every call: a pair can then have
    one child the walk has already seen and one temporary child"""
    __slots__ = ("_v", "_pool")

    def __init__(self, v, pool=None):
        self._v = v
        self._pool = {} if pool is None else pool

    @property
    def atom(self):
        return None if isinstance(self._v, tuple) else self._v

    def _child(self, x):
        if isinstance(x, tuple):
            return FreshShared(x, self._pool)
        o = self._pool.get(x)
        if o is None:
            o = self._pool[x] = FreshShared(x, self._pool)
        return o

    @property
    def pair(self):
        if isinstance(self._v, tuple):
            return (self._child(self._v[0]), self._child(self._v[1]))
        return None


# (LazyNode and Fresh are the wrappers whose children are created by the `pair` accessor and would die
# as soon as the walk dropped them: finding E, repaired by /repo 6e19398; any failure is a plain failure)


def wrappers(v, blob):
    yield "Simple", lambda: simple_tree(v)
    yield "Program.new", lambda: program_tree(v)
    yield "Program.to", lambda: Program.to(v)
    yield "Program.from_bytes", lambda: Program.from_bytes(blob)
    yield "CLVMTree", lambda: CLVMTree.from_bytes(blob)
    yield "Program.wrap(CLVMTree)", lambda: Program.wrap(CLVMTree.from_bytes(blob))
    yield "LazyNode", lambda: ext.deser_legacy(blob)
    yield "Fresh", lambda: Fresh(v)
    yield "FreshShared", lambda: FreshShared(v)
    # sub-trees that are raw LazyNode handles of *different* allocators (each deserialized on its own)
    def mixed(x, depth):
        if depth == 0 or not isinstance(x, tuple):
            return ext.deser_legacy(wire_of(x))
        return Simple(None, (mixed(x[0], depth - 1), mixed(x[1], depth - 1)))
    if isinstance(v, tuple):
        yield "Simple(LazyNode x2)", lambda: mixed(v, 1)
        yield "Simple(LazyNode x4)", lambda: mixed(v, 2)
    yield "Simple(shared)", lambda: build_shared(v, lambda a: Simple(a, None), lambda l, r: Simple(None, (l, r)))[0]
    yield "Program.new(shared)", lambda: build_shared(v, Program.new_atom, Program.new_pair)[0]


def oracle_c27(seed, n, tier):
    rep = Report()
    lines = h_gen("pytrees", seed, n, tier)
    seen = set()
    for line in lines:
        _, tid, hx = line.split(" ")
        blob0 = bytes.fromhex(hx)
        v0 = nested(blob0)
        variants = [(v0, blob0, hx)]
        if len(blob0) < 400:
            for m in mirrored(v0):
                w = wire_of(m)
                variants.append((m, w, w.hex()))
        for v, blob, hx in variants:
          npairs = blob.count(b"\xff")  # upper bound, only for the distribution
          for name, mk in wrappers(v, blob):
            rep.evaluations += 1
            key = (name, hx)
            if key not in seen:
                seen.add(key)
                if isinstance(v, tuple):
                    rep.nontrivial += 1
            try:
                obj = mk()
                lazy = ext.clvm_tree_to_lazy_node(obj)
                enc = ext.ser_2026(lazy)
                back = ext.deser_2026(enc)
                got = view(back)
                direct = view(lazy)
            except (KeyboardInterrupt, SystemExit):
                raise
            except BaseException as e:  # pyo3's PanicException derives from BaseException
                rep.fail("c27_roundtrip", "%s class=%s tree=%s raised %s: %s" % (tid, name, hx[:400], type(e).__name__, str(e)[:200]))
                continue
            rep.hit("class:" + name)
            rep.hit("pairs<=%d" % (1 if npairs <= 1 else 8 if npairs <= 8 else 64 if npairs <= 64 else 100000))
            if got == blob and direct == blob:
                rep.sample("%s %s -> %s" % (name, hx[:40], enc.hex()[:60]))
                continue
            desc = "class=%s tree=%s ser_2026=%s decoded=%s lazy_view=%s" % (name, hx, enc.hex(), got.hex(), direct.hex())
            rep.fail("c27_roundtrip", desc)
            rep.hit("mismatch:" + name)
    rep.emit()


def oracle_c28run(seed, n, tier):
    """`running a curried program equals running the module with the curried arguments prepended`:
    both runs through the wheel and through the Rust core; result equal, cost offset as documented."""
    rep = Report()
    lines = [l for l in h_gen("pycurry", seed, 3 * n, tier) if l.startswith("PYCRUN")]
    rs = h_run(lines)
    offsets = {}
    for line, r in zip(lines, rs):
        rep.evaluations += 1
        toks = line.split(" ")
        mine = handle(line)
        if mine != r:
            rep.fail("c28_curry_run", "request=%s python=%s rust=%s" % (line, mine, r))
            continue
        f = mine.split(" ")
        rep.hit(f[1])
        if f[1] == "ok":
            rep.nontrivial += 1
            nargs = len(items_of(nested(unhex(toks[3]))))
            off = int(f[2]) - int(f[3])
            rep.hit("offset_args%d=%d" % (nargs, off))
            # the cost offset depends on the number of curried arguments only, and is affine in it
            offsets.setdefault(nargs, (off, line))
            if offsets[nargs][0] != off:
                rep.fail("c28_curry_run", "cost offset for %d curried arguments is %d here but %d for %s: request=%s"
                         % (nargs, off, offsets[nargs][0], offsets[nargs][1], line))
            rep.sample("%s -> %s" % (line[:80], mine[:80]))
        elif f[1] in ("differ", "err-direct-only", "err-curried-only"):
            # cost budget is generous: a one-sided failure or a different result falsifies the property
            rep.fail("c28_curry_run", "request=%s reply=%s" % (line, mine))
    if 0 in offsets and 1 in offsets:
        step = offsets[1][0] - offsets[0][0]
        for n, (off, line) in sorted(offsets.items()):
            if off != offsets[0][0] + n * step:
                rep.fail("c28_curry_run", "cost offset not affine in the number of arguments: %d args -> %d, expected %d + %d*%d: request=%s"
                         % (n, off, offsets[0][0], n, step, line))
    rep.emit()


def oracle_c26heap(seed, n, tier):
    """run_serialized_chia_program vs the Rust core on a program whose heap use crosses the wheel's
    500,000,000-byte LIMIT_HEAP cap (28 doublings of a one-byte atom, 536,870,910 bytes), under every
    single mempool flag, LIMIT_HEAP, MEMPOOL_MODE and no flag: the cap must depend on LIMIT_HEAP alone"""
    rep = Report()
    nil = b""
    x = (b"\x01", b"\x01")  # (q . 1)
    body = (b"\x01", (b"\x0e", (b"\x01", (b"\x01", nil))))  # (q . (concat 1 1))
    for _ in range(28):
        x = (b"\x02", (body, (x, nil)))
    prog = wire_of((b"\x0d", (x, nil))).hex()
    small = wire_of((b"\x0d", ((b"\x01", b"abc"), nil))).hex()
    lines = []
    for i, fl in enumerate([0, 0x1, 0x2, 0x10, 0x200, 0x40, 0x4, 0x4 | 0x2, 0x1 | 0x2 | 0x4 | 0x10 | 0x200]):
        lines.append("PYRUN h%d %08x 0 %s 80" % (i, fl, prog))
        lines.append("PYRUN s%d %08x 0 %s 80" % (i, fl, small))
    rs = h_run(lines)
    for line, r in zip(lines, rs):
        rep.evaluations += 1
        rep.nontrivial += 1
        py = handle(line)
        rep.hit("rust:" + " ".join(r.split(" ")[1:3])[:40])
        if py != r:
            rep.fail("c26_heap_limit", "request=%s rust=%s python=%s" % (line[:120] + "…", r[:200], py[:200]))
        else:
            rep.sample("%s -> %s" % (line[:60], r[:80]))
    rep.emit()


def oracle_c26big(seed, n, tier):
    """serializers of the wheel vs the Rust core around the 2,000,000-byte output cap of node_to_bytes:
    ser_legacy has the cap (in the core), ser_backrefs and ser_2026 have none"""
    rep = Report()
    blobs = []
    for ln in (1_999_990, 1_999_996, 1_999_997, 2_100_000):
        blobs.append(("atom%d" % ln, _prefix(bytes(ln)) + bytes([0x5a]) * ln))
    items = b""
    for i in range(40):
        a = bytes([i + 1]) * 65536
        items += b"\xff" + _prefix(a) + a
    blobs.append(("list40x64k", items + b"\x80"))
    lines = []
    k = 0
    for name, blob in blobs:
        for de, se in (("legacy", "backrefs"), ("legacy", "legacy"), ("legacy", "2026"), ("backrefs", "backrefs")):
            lines.append("PYSERDE b%d %s %s %s" % (k, de, se, blob.hex()))
            k += 1
    rs = h_run(lines)
    for line, r in zip(lines, rs):
        rep.evaluations += 1
        rep.nontrivial += 1
        py = handle(line)
        rep.hit("rust:" + " ".join(r.split(" ")[1:2]))
        head = " ".join(line.split(" ")[:4])
        if py != r:
            rep.fail("c26_big_output", "request=%s <%d hex digits> rust=%s python=%s" % (head, len(line.split(" ")[4]), r[:80], py[:80]))
        else:
            rep.sample("%s -> %s" % (head, r[:60]))
    rep.emit()


ORACLES = {"c26big": oracle_c26big, "c27": oracle_c27, "c28run": oracle_c28run, "c26heap": oracle_c26heap}


def main():
    if len(sys.argv) < 2:
        raise SystemExit(__doc__)
    if sys.argv[1] == "run":
        cmd_run()
    elif sys.argv[1] == "oracle":
        name, seed, n = sys.argv[2], int(sys.argv[3]), int(sys.argv[4])
        tier = sys.argv[5] if len(sys.argv) > 5 else "quick"
        ORACLES[name](seed, n, tier)
    else:
        raise SystemExit(__doc__)


if __name__ == "__main__":
    main()
