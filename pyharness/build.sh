#!/bin/sh
# Builds the wheel's extension module from /repo's *current working tree* (offline, no maturin)
# and stages an importable package:  <stage>/clvm_rs/{*.py, clvm_rs.abi3.so}.
# Idempotent (cargo is incremental; the python files are re-copied on every call, they may have
# been edited).  Nothing is written inside /repo (external CARGO_TARGET_DIR).
# Prints the staged path (to be put on PYTHONPATH) on the last line of stdout.
set -e
VERIF="$(cd "$(dirname "$0")/.." && pwd)"
REPO="${VERIF_REPO:-/repo}"
TARGET="${VERIF_WHEEL_TARGET:-$VERIF/.build/wheel}"
STAGE="${VERIF_PYSTAGE:-$VERIF/.build/pystage}"   # ph.py honours VERIF_PYSTAGE too
PY="$(pyenv which python3 2>/dev/null || command -v python3)"
(cd "$REPO" && CARGO_NET_OFFLINE=true CARGO_TARGET_DIR="$TARGET" PYO3_PYTHON="$PY" \
    cargo build -p clvm_rs --offline 1>&2)
SO="$TARGET/debug/libclvm_rs.so"
[ -f "$SO" ] || { echo "build.sh: $SO not produced" 1>&2; exit 1; }
TMP="$STAGE.tmp.$$"
rm -rf "$TMP"
mkdir -p "$TMP/clvm_rs"
cp "$REPO"/wheel/python/clvm_rs/*.py "$REPO"/wheel/python/clvm_rs/*.pyi "$REPO"/wheel/python/clvm_rs/py.typed "$TMP/clvm_rs/" 2>/dev/null || \
    cp "$REPO"/wheel/python/clvm_rs/*.py "$TMP/clvm_rs/"
cp "$SO" "$TMP/clvm_rs/clvm_rs.abi3.so"
if [ -d "$STAGE" ] && diff -rq -x __pycache__ "$TMP" "$STAGE" >/dev/null 2>&1; then
    rm -rf "$TMP"          # unchanged: keep the staged copy (other checks may be importing it right now)
else
    rm -rf "$STAGE.old.$$"
    [ -d "$STAGE" ] && mv "$STAGE" "$STAGE.old.$$"
    mv "$TMP" "$STAGE"
    rm -rf "$STAGE.old.$$"
fi
echo "$STAGE"
