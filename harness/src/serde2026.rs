//! C20 (serde_2026) and C24 (interning).
//!
//! `SER    <id> 2026:<level> <dag>`                        -> `ok <blob-hex>`
//! `DE     <id> 2026 <bytes> <max_atom_len> <strict>`      -> `ok <tree-hex> <consumed>`
//! `DE     <id> len2026 <bytes> <max_atom_len> <strict>`   -> `ok <length>`
//! `INTERN <id> <dag>`                                     -> `ok <#atoms> <#pairs> <tree-hex> <atoms> <pairs>`
//!
//! dag = `;`-separated post-order node list built in ONE allocator, root last:
//! `a:HEX` new_atom, `h:HEX` heap atom made by `new_concat` of two views, `v:HEX` substring view
//! (`new_substr`) of a longer heap atom, `p:i,j` new_pair of earlier nodes (shared nodes = same NodePtr).
//!
//! Finding I (allocate-before-read of the declared atom length) was repaired in /repo 090b8ec.  A decode
//! with a large `max_atom_len` whose probe fails is still executed in a child process (`h one DE …`,
//! address space limited, 20 s timeout): a death by signal is the reply `abort`, a hang `timeout` — both
//! are plain violations now, and blobs declaring lengths anywhere up to 2^55 are part of the streams.
use crate::rng::Rng;
use crate::trees;
use crate::util::*;
use chia_sha2::Sha256;
use clvmr::allocator::{Allocator, NodePtr, SExp};
use clvmr::serde::{
    intern_tree, node_from_bytes, node_from_bytes_backrefs, node_from_bytes_backrefs_old, node_to_bytes,
};
use clvmr::serde_2026::{
    deserialize_2026, deserialize_2026_from_stream, serialize_2026, serialized_length_serde_2026,
};
use std::collections::{HashMap, HashSet};
use std::io::Cursor;

pub const MAGIC: [u8; 6] = [0xfd, 0xff, b'2', b'0', b'2', b'6'];
/// requests with a larger `max_atom_len` and a failing probe run in a child process
const SAFE_ALLOC: usize = 1 << 24;
/// unfolded-tree bound for anything that is printed as a classic serialization
const MAX_UNFOLDED: u64 = 6000;

// ------------------------------------------------------------------ DAGs

#[derive(Clone, Debug)]
pub enum DN {
    A(Vec<u8>),
    H(Vec<u8>),
    V(Vec<u8>),
    P(usize, usize),
}

pub fn render_dag(d: &[DN]) -> String {
    d.iter()
        .map(|n| match n {
            DN::A(b) => format!("a:{}", hex_or_dash(b)),
            DN::H(b) => format!("h:{}", hex_or_dash(b)),
            DN::V(b) => format!("v:{}", hex_or_dash(b)),
            DN::P(l, r) => format!("p:{},{}", l, r),
        })
        .collect::<Vec<_>>()
        .join(";")
}

pub fn parse_dag(s: &str) -> Option<Vec<DN>> {
    let mut out = Vec::new();
    for item in s.split(';') {
        let (k, v) = item.split_once(':')?;
        out.push(match k {
            "a" => DN::A(parse_hex(v)?),
            "h" => DN::H(parse_hex(v)?),
            "v" => DN::V(parse_hex(v)?),
            "p" => {
                let (l, r) = v.split_once(',')?;
                let (l, r) = (l.parse().ok()?, r.parse().ok()?);
                if l >= out.len() || r >= out.len() {
                    return None;
                }
                DN::P(l, r)
            }
            _ => return None,
        });
    }
    if out.is_empty() { None } else { Some(out) }
}

/// a `Bytes` atom that is a view into a longer buffer
fn view_atom(a: &mut Allocator, b: &[u8]) -> NodePtr {
    let mut big = vec![0xa5u8; 3];
    big.extend_from_slice(b);
    big.extend_from_slice(&[0xff; 5]);
    let n = a.new_atom(&big).unwrap();
    a.new_substr(n, 3, 3 + b.len() as u32).unwrap()
}

/// a `Bytes` atom with its own copy of the bytes, made by concatenating two views
fn concat_atom(a: &mut Allocator, b: &[u8]) -> NodePtr {
    let k = b.len() / 2;
    let p1 = view_atom(a, &b[..k]);
    let p2 = view_atom(a, &b[k..]);
    a.new_concat(b.len(), &[p1, p2]).unwrap()
}

pub fn build_dag(a: &mut Allocator, d: &[DN]) -> Vec<NodePtr> {
    let mut nodes: Vec<NodePtr> = Vec::with_capacity(d.len());
    // the longest view built so far: a later view whose bytes occur in it becomes a substring of the same
    // heap atom (many distinct long atoms over one buffer, as the substr operator produces them) — the
    // source allocator's heap is then much smaller than the sum of its atoms' lengths
    let mut base: Option<(NodePtr, Vec<u8>)> = None;
    for n in d {
        let p = match n {
            DN::A(b) => a.new_atom(b).unwrap(),
            DN::H(b) => concat_atom(a, b),
            DN::V(b) => {
                let hit = base.as_ref().and_then(|(n0, bytes)| {
                    if b.len() >= 8 && bytes.len() >= b.len() { bytes.windows(b.len()).position(|w| w == &b[..]).map(|i| (*n0, i)) } else { None }
                });
                match hit {
                    Some((n0, i)) => a.new_substr(n0, i as u32, (i + b.len()) as u32).unwrap(),
                    None => {
                        let v = view_atom(a, b);
                        if base.as_ref().map(|(_, x)| x.len() < b.len()).unwrap_or(true) {
                            base = Some((v, b.clone()));
                        }
                        v
                    }
                }
            }
            DN::P(l, r) => a.new_pair(nodes[*l], nodes[*r]).unwrap(),
        };
        nodes.push(p);
    }
    nodes
}

/// number of nodes of the unfolded tree below each DAG node (saturating)
pub fn unfolded(d: &[DN]) -> Vec<u64> {
    let mut v: Vec<u64> = Vec::with_capacity(d.len());
    for n in d {
        v.push(match n {
            DN::P(l, r) => 1u64.saturating_add(v[*l]).saturating_add(v[*r]),
            _ => 1,
        });
    }
    v
}

/// hash-consing: equal ids <=> equal trees, across allocators and DAGs
#[derive(Default)]
pub struct Canon {
    atoms: HashMap<Vec<u8>, usize>,
    pairs: HashMap<(usize, usize), usize>,
    next: usize,
    pub is_pair: Vec<bool>,
}

impl Canon {
    fn atom(&mut self, b: &[u8]) -> usize {
        if let Some(i) = self.atoms.get(b) {
            return *i;
        }
        let i = self.next;
        self.next += 1;
        self.is_pair.push(false);
        self.atoms.insert(b.to_vec(), i);
        i
    }
    fn pair(&mut self, l: usize, r: usize) -> usize {
        if let Some(i) = self.pairs.get(&(l, r)) {
            return *i;
        }
        let i = self.next;
        self.next += 1;
        self.is_pair.push(true);
        self.pairs.insert((l, r), i);
        i
    }
    pub fn dag(&mut self, d: &[DN]) -> Vec<usize> {
        let mut ids = Vec::with_capacity(d.len());
        for n in d {
            let i = match n {
                DN::A(b) | DN::H(b) | DN::V(b) => self.atom(b),
                DN::P(l, r) => self.pair(ids[*l], ids[*r]),
            };
            ids.push(i);
        }
        ids
    }
    pub fn node(&mut self, a: &Allocator, root: NodePtr, memo: &mut HashMap<NodePtr, usize>) -> usize {
        let mut st = vec![root];
        while let Some(n) = st.pop() {
            if memo.contains_key(&n) {
                continue;
            }
            match a.sexp(n) {
                SExp::Atom => {
                    let i = self.atom(a.atom(n).as_ref());
                    memo.insert(n, i);
                }
                SExp::Pair(l, r) => match (memo.get(&l).copied(), memo.get(&r).copied()) {
                    (Some(li), Some(ri)) => {
                        let i = self.pair(li, ri);
                        memo.insert(n, i);
                    }
                    (lo, ro) => {
                        st.push(n);
                        if ro.is_none() {
                            st.push(r);
                        }
                        if lo.is_none() {
                            st.push(l);
                        }
                    }
                },
            }
        }
        memo[&root]
    }
}

/// tree hash by the definition, one SHA-256 per DAG node
fn ref_hashes(d: &[DN]) -> Vec<[u8; 32]> {
    let mut hs: Vec<[u8; 32]> = Vec::with_capacity(d.len());
    for n in d {
        let mut s = Sha256::new();
        match n {
            DN::A(b) | DN::H(b) | DN::V(b) => {
                s.update([1u8]);
                s.update(b);
            }
            DN::P(l, r) => {
                s.update([2u8]);
                s.update(hs[*l]);
                s.update(hs[*r]);
            }
        }
        hs.push(s.finalize());
    }
    hs
}

fn reachable(d: &[DN], root: usize) -> Vec<bool> {
    let mut seen = vec![false; d.len()];
    let mut st = vec![root];
    while let Some(i) = st.pop() {
        if seen[i] {
            continue;
        }
        seen[i] = true;
        if let DN::P(l, r) = &d[i] {
            st.push(*l);
            st.push(*r);
        }
    }
    seen
}

// ------------------------------------------------------------------ independent 2026 writer / header walker

/// varint with `extra` more prefix bytes than necessary (0 = shortest)
fn put_varint(out: &mut Vec<u8>, v: i64, extra: usize) {
    let mut k = 0usize;
    loop {
        let bits = 7 + 7 * k as u32;
        let lo = -(1i64 << (bits - 1));
        let hi = (1i64 << (bits - 1)) - 1;
        if v >= lo && v <= hi {
            break;
        }
        k += 1;
        assert!(k < 8);
    }
    let k = (k + extra).min(7);
    let bits = 7 + 7 * k as u32;
    let u = (v as u64) & ((1u64 << bits) - 1);
    let prefix: u8 = if k == 0 { 0 } else { (((1u16 << k) - 1) << (8 - k)) as u8 };
    out.push(prefix | (u >> (8 * k)) as u8);
    for i in (0..k).rev() {
        out.push((u >> (8 * i)) as u8);
    }
}

fn get_varint(b: &[u8], pos: &mut usize, strict: bool) -> Option<i64> {
    let first = *b.get(*pos)?;
    let k = first.leading_ones() as usize;
    if k >= 8 || b.len() < *pos + 1 + k {
        return None;
    }
    let mut u: u64 = (first & (0x7fu8 >> k)) as u64;
    for i in 0..k {
        u = (u << 8) | b[*pos + 1 + i] as u64;
    }
    *pos += 1 + k;
    let bits = 7 + 7 * k as u32;
    let v = if u >> (bits - 1) != 0 { (u as i64) - (1i64 << bits) } else { u as i64 };
    if strict {
        let mut o = Vec::new();
        put_varint(&mut o, v, 0);
        if o.len() != 1 + k {
            return None;
        }
    }
    Some(v)
}

/// Independent walk of the atom-table header: does the decoder reach a `buf.resize(length, 0)` with a
/// declared `length` of at least `threshold` (<= max_atom_len) before any other failure?
fn declares_huge_atom(blob: &[u8], max_atom_len: usize, strict: bool, threshold: u64) -> Option<u64> {
    if blob.len() < 6 || blob[..6] != MAGIC {
        return None;
    }
    let b = &blob[6..];
    let mut pos = 0usize;
    let groups = get_varint(b, &mut pos, strict)?;
    if groups < 0 {
        return None;
    }
    for _ in 0..groups {
        let lv = get_varint(b, &mut pos, strict)?;
        let (len, count) = if lv < 0 {
            let len = (-lv) as u64;
            if len > max_atom_len as u64 {
                return None;
            }
            let c = get_varint(b, &mut pos, strict)?;
            if c < 0 {
                return None;
            }
            (len, c as u64)
        } else {
            if lv as u64 > max_atom_len as u64 {
                return None;
            }
            (lv as u64, 1)
        };
        if len == 0 || count == 0 {
            return None;
        }
        if len >= threshold {
            return Some(len);
        }
        let skip = len.checked_mul(count)?;
        if (b.len() - pos) as u64 >= skip {
            pos += skip as usize;
        } else {
            return None;
        }
    }
    None
}

/// a structurally free-form blob: groups in any order, instruction stream with both cons opcodes
pub struct Blob {
    pub groups: Vec<Vec<Vec<u8>>>,
    /// write a single-atom group in the `-len, count` form
    pub neg_form: Vec<bool>,
    pub instrs: Vec<i64>,
}

impl Blob {
    pub fn encode(&self, pad: &mut dyn FnMut() -> usize) -> Vec<u8> {
        let mut o = MAGIC.to_vec();
        put_varint(&mut o, self.groups.len() as i64, pad());
        for (g, neg) in self.groups.iter().zip(&self.neg_form) {
            let len = g[0].len() as i64;
            if g.len() == 1 && !*neg {
                put_varint(&mut o, len, pad());
            } else {
                put_varint(&mut o, -len, pad());
                put_varint(&mut o, g.len() as i64, pad());
            }
            for a in g {
                o.extend_from_slice(a);
            }
        }
        put_varint(&mut o, self.instrs.len() as i64, pad());
        for i in &self.instrs {
            put_varint(&mut o, *i, pad());
        }
        o
    }
}

fn random_blob(rng: &mut Rng) -> Blob {
    let ngroups = rng.below(4) as usize;
    let mut groups = Vec::new();
    let mut neg_form = Vec::new();
    let mut natoms = 0usize;
    for _ in 0..ngroups {
        let len = *rng.pick(&[1usize, 1, 2, 3, 4, 5, 31, 32, 33, 64]);
        let cnt = 1 + rng.below(3) as usize;
        groups.push((0..cnt).map(|_| rng.bytes(len)).collect::<Vec<_>>());
        neg_form.push(rng.chance(1, 4));
        natoms += cnt;
    }
    // instruction stream by simulating the stack; sizes of the unfolded trees are tracked
    let mut instrs = Vec::new();
    let mut stack: Vec<u64> = Vec::new();
    let mut pairs: Vec<u64> = Vec::new();
    let steps = 1 + rng.below(40);
    for _ in 0..steps {
        match rng.below(10) {
            0 | 1 => {
                instrs.push(0);
                stack.push(1);
            }
            2 | 3 | 4 if natoms > 0 => {
                instrs.push(2 + rng.below(natoms as u64) as i64);
                stack.push(1);
            }
            5 | 6 | 7 if stack.len() >= 2 => {
                let x = stack.pop().unwrap();
                let y = stack.pop().unwrap();
                let s = 1 + x + y;
                if s > MAX_UNFOLDED {
                    stack.push(y);
                    stack.push(x);
                    continue;
                }
                instrs.push(if rng.chance(1, 2) { 1 } else { -1 });
                pairs.push(s);
                stack.push(s);
            }
            8 if !pairs.is_empty() => {
                let k = rng.below(pairs.len() as u64) as usize;
                instrs.push(-(k as i64) - 2);
                stack.push(pairs[k]);
            }
            _ => {
                instrs.push(0);
                stack.push(1);
            }
        }
    }
    while stack.len() > 1 {
        let x = stack.pop().unwrap();
        let y = stack.pop().unwrap();
        let s = 1 + x + y;
        if s > MAX_UNFOLDED {
            // give up on well-formedness: the decoder must reject the surplus stack
            break;
        }
        instrs.push(if rng.chance(1, 2) { 1 } else { -1 });
        pairs.push(s);
        stack.push(s);
    }
    Blob { groups, neg_form, instrs }
}

// ------------------------------------------------------------------ running requests

fn parse_max(s: &str) -> usize {
    s.parse::<u64>().unwrap() as usize
}

/// node count of the unfolded tree below `n` (saturating), without unfolding it
fn unfolded_node(a: &Allocator, root: NodePtr) -> u64 {
    let mut memo: HashMap<NodePtr, u64> = HashMap::new();
    let mut st = vec![root];
    while let Some(n) = st.pop() {
        if memo.contains_key(&n) {
            continue;
        }
        match a.sexp(n) {
            SExp::Atom => {
                memo.insert(n, 1);
            }
            SExp::Pair(l, r) => match (memo.get(&l).copied(), memo.get(&r).copied()) {
                (Some(x), Some(y)) => {
                    memo.insert(n, 1u64.saturating_add(x).saturating_add(y));
                }
                (lo, ro) => {
                    st.push(n);
                    if ro.is_none() {
                        st.push(r);
                    }
                    if lo.is_none() {
                        st.push(l);
                    }
                }
            },
        }
    }
    memo[&root]
}

fn de_inproc(blob: &[u8], max_atom_len: usize, strict: bool) -> String {
    let mut a = Allocator::new();
    let mut c = Cursor::new(blob);
    match deserialize_2026_from_stream(&mut a, &mut c, max_atom_len, strict) {
        Ok(n) => {
            if unfolded_node(&a, n) > 50 * MAX_UNFOLDED {
                return format!("ok too-big-to-print {}", c.position());
            }
            format!("ok {} {}", trees::to_hex(&trees::from_node(&a, n)), c.position())
        }
        Err(e) => fmt_err(&e),
    }
}

/// may `deserialize_2026` allocate a declared length the generators did not vet?
fn may_abort(blob: &[u8], max_atom_len: usize, strict: bool) -> bool {
    max_atom_len > SAFE_ALLOC && serialized_length_serde_2026(blob, max_atom_len, strict).is_err()
}

/// run one request in a child process; a death by signal is `abort`
fn in_child(kind: &str, args: &[&str]) -> String {
    use std::os::unix::process::ExitStatusExt;
    let exe = std::env::current_exe().unwrap();
    // the harness binary may be re-linked by a concurrent `./check` while a long run is in progress:
    // an exec failure of the shell (126 / 127) is retried
    let mut last = String::new();
    for _attempt in 0..100 {
        let mut child = std::process::Command::new("sh")
            .arg("-c")
            .arg("ulimit -v 16777216 2>/dev/null; exec \"$0\" \"$@\"")
            .arg(&exe)
            .arg("one")
            .arg(kind)
            .arg("child")
            .args(args)
            .env("VERIF_CHILD", "1")
            .env("RUST_BACKTRACE", "0")
            .stdout(std::process::Stdio::piped())
            .stderr(std::process::Stdio::null())
            .spawn()
            .unwrap();
        let start = std::time::Instant::now();
        loop {
            match child.try_wait().unwrap() {
                Some(_) => break,
                None if start.elapsed().as_secs() >= 20 => {
                    let _ = child.kill();
                    let _ = child.wait();
                    return "timeout".to_string();
                }
                None => std::thread::sleep(std::time::Duration::from_millis(2)),
            }
        }
        let out = child.wait_with_output().unwrap();
        if out.status.signal().is_some() || out.status.code() == Some(134) {
            return "abort".to_string();
        }
        let s = String::from_utf8_lossy(&out.stdout).trim().to_string();
        match s.strip_prefix("child ") {
            Some(r) if out.status.success() => return r.to_string(),
            _ => {}
        }
        last = format!("child-failed {:?} {}", out.status.code(), s);
        if !matches!(out.status.code(), Some(126) | Some(127)) {
            break;
        }
        std::thread::sleep(std::time::Duration::from_millis(200));
    }
    last
}

fn de_any(blob_hex: &str, blob: &[u8], max_atom_len: usize, strict: bool) -> String {
    if may_abort(blob, max_atom_len, strict) && std::env::var("VERIF_CHILD").is_err() {
        in_child("DE", &["2026", blob_hex, &(max_atom_len as u64).to_string(), if strict { "1" } else { "0" }])
    } else {
        de_inproc(blob, max_atom_len, strict)
    }
}

pub fn run_de(args: &[&str]) -> String {
    let b = parse_hex(args[1]).unwrap();
    let max = parse_max(args[2]);
    let strict = args[3] == "1";
    match args[0] {
        "2026" => de_any(args[1], &b, max, strict),
        "len2026" => match serialized_length_serde_2026(&b, max, strict) {
            Ok(n) => format!("ok {}", n),
            Err(e) => fmt_err(&e),
        },
        _ => "bad-request".into(),
    }
}

pub fn run_ser(args: &[&str]) -> String {
    let level: u32 = args[0].strip_prefix("2026:").unwrap().parse().unwrap();
    let d = parse_dag(args[1]).unwrap();
    let mut a = Allocator::new();
    let nodes = build_dag(&mut a, &d);
    match serialize_2026(&a, *nodes.last().unwrap(), level) {
        Ok(b) => format!("ok {}", hex::encode(b)),
        Err(e) => fmt_err(&e),
    }
}

pub fn run_intern(args: &[&str]) -> String {
    let d = parse_dag(args[0]).unwrap();
    let mut a = Allocator::new();
    let nodes = build_dag(&mut a, &d);
    match intern_tree(&a, *nodes.last().unwrap()) {
        Err(e) => fmt_err(&e),
        Ok(t) => {
            let apos: HashMap<NodePtr, usize> = t.atoms.iter().enumerate().map(|(i, n)| (*n, i)).collect();
            let ppos: HashMap<NodePtr, usize> = t.pairs.iter().enumerate().map(|(i, n)| (*n, i)).collect();
            let show = |n: NodePtr| -> String {
                if let Some(i) = apos.get(&n) {
                    format!("A{}", i)
                } else {
                    format!("P{}", ppos[&n])
                }
            };
            let atoms: Vec<String> = t.atoms.iter().map(|n| hex_or_dash(t.allocator.atom(*n).as_ref())).collect();
            let pairs: Vec<String> = t
                .pairs
                .iter()
                .map(|n| match t.allocator.sexp(*n) {
                    SExp::Pair(l, r) => format!("{}.{}", show(l), show(r)),
                    _ => "?".into(),
                })
                .collect();
            let tilde = |v: Vec<String>| if v.is_empty() { "~".to_string() } else { v.join(",") };
            format!(
                "ok {} {} {} {} {}",
                t.atoms.len(),
                t.pairs.len(),
                trees::to_hex(&trees::from_node(&t.allocator, t.root)),
                tilde(atoms),
                tilde(pairs)
            )
        }
    }
}

// ------------------------------------------------------------------ generators

fn rbytes(rng: &mut Rng, lo: u64, span: u64) -> Vec<u8> {
    let n = lo + rng.below(span);
    rng.bytes(n as usize)
}

fn pool_atom(rng: &mut Rng, pool: &[Vec<u8>]) -> Vec<u8> {
    if rng.chance(3, 5) { rng.pick(pool).clone() } else { trees::random_atom(rng, 40) }
}

fn atom_node(rng: &mut Rng, b: Vec<u8>) -> DN {
    match rng.below(3) {
        0 => DN::A(b),
        1 => DN::H(b),
        _ => DN::V(b),
    }
}

/// random DAG with heavy sharing; the root's unfolded size stays below `cap`
pub fn random_dag(rng: &mut Rng, max_nodes: usize, cap: u64) -> Vec<DN> {
    let mut pool: Vec<Vec<u8>> = vec![vec![], vec![1], vec![0x80], vec![0], vec![0, 0x80], vec![0xff], vec![1, 0]];
    for _ in 0..rng.below(5) {
        pool.push(trees::random_atom(rng, 40));
    }
    if rng.chance(1, 3) {
        // families of inline small atoms that agree in their low bits (24, 16, 8) and differ only above:
        // any key that packs node indices / values into too few bits merges them
        let low = rng.below(1 << 24) as u32;
        for top in [0u32, 1, 2, 3] {
            let v = (top << 24) | low;
            let b = v.to_be_bytes();
            let skip = b.iter().take_while(|x| **x == 0).count();
            let mut a = b[skip..].to_vec();
            if !a.is_empty() && a[0] & 0x80 != 0 {
                a.insert(0, 0);
            }
            pool.push(a);
        }
        pool.push(vec![0x01, 0x00, 0x00, (low & 0xff) as u8]);
        pool.push(vec![(low & 0x7f) as u8]);
    }
    if rng.chance(1, 4) {
        // near-twin heap atoms: equal except for the last / first / middle byte, or one a prefix of the other,
        // at the lengths where keys, hashes and inline buffers change size
        let len = *rng.pick(&[5usize, 8, 16, 31, 32, 33, 48, 64, 65, 96]);
        let base = rng.bytes(len);
        let mut t1 = base.clone();
        t1[len - 1] ^= 1;
        let mut t2 = base.clone();
        t2[0] ^= 0x80;
        let mut t3 = base.clone();
        t3[len / 2] ^= 0x10;
        let mut t4 = base.clone();
        t4.push(base[len - 1]);
        pool.clear();
        pool.extend([base.clone(), t1, t2, t3, t4, base[..len - 1].to_vec(), vec![], vec![1]]);
    }
    if rng.chance(1, 8) {
        // many distinct long views over one buffer (see build_dag): interning must copy each of them
        let len = 150 + rng.below(200) as usize;
        let buf = rng.bytes(len);
        let mut d: Vec<DN> = vec![DN::V(buf.clone())];
        let k = 6 + rng.below(12) as usize;
        for i in 0..k {
            let lo = rng.below(12) as usize;
            let hi = len - rng.below(12) as usize;
            d.push(DN::V(buf[lo..hi].to_vec()));
            d.push(DN::P(d.len() - 1, if i == 0 { 0 } else { d.len() - 2 }));
        }
        return d;
    }
    let n = 1 + rng.below(max_nodes as u64) as usize;
    let mut d: Vec<DN> = Vec::new();
    let mut size: Vec<u64> = Vec::new();
    let style = rng.below(8);
    for i in 0..n {
        let make_pair = i >= 2 && rng.chance(if style == 0 { 4 } else { 3 }, 5);
        if make_pair {
            let pick = |rng: &mut Rng, i: usize| -> usize {
                if rng.chance(1, 2) { i - 1 - rng.below((i as u64).min(4)) as usize } else { rng.below(i as u64) as usize }
            };
            let (l, r) = if style == 1 { (i - 1, i - 1) } else { (pick(rng, i), pick(rng, i)) };
            let s = 1u64.saturating_add(size[l]).saturating_add(size[r]);
            if s <= cap {
                d.push(DN::P(l, r));
                size.push(s);
                continue;
            }
        }
        let b = pool_atom(rng, &pool);
        d.push(atom_node(rng, b));
        size.push(1);
    }
    // the root is the last node: usually make it a pair over recent nodes
    if d.len() >= 2 && !matches!(d.last(), Some(DN::P(..))) && rng.chance(7, 8) {
        let i = d.len();
        let l = i - 1 - rng.below((i as u64).min(3)) as usize;
        let r = i - 1 - rng.below((i as u64).min(6)) as usize;
        if 1u64.saturating_add(size[l]).saturating_add(size[r]) <= cap {
            d.push(DN::P(l, r));
        }
    }
    d
}

fn tree_dag(t: &trees::T, rng: &mut Rng, out: &mut Vec<DN>) -> usize {
    // iterative post-order; every leaf and pair is its own node (no sharing)
    enum Op<'a> {
        Visit(&'a trees::T),
        Cons,
    }
    let mut ops = vec![Op::Visit(t)];
    let mut vals: Vec<usize> = vec![];
    while let Some(op) = ops.pop() {
        match op {
            Op::Visit(trees::T::Atom(b)) => {
                out.push(atom_node(rng, b.clone()));
                vals.push(out.len() - 1);
            }
            Op::Visit(trees::T::Pair(l, r)) => {
                ops.push(Op::Cons);
                ops.push(Op::Visit(r));
                ops.push(Op::Visit(l));
            }
            Op::Cons => {
                let r = vals.pop().unwrap();
                let l = vals.pop().unwrap();
                out.push(DN::P(l, r));
                vals.push(out.len() - 1);
            }
        }
    }
    vals.pop().unwrap()
}

fn any_dag(rng: &mut Rng, cap: u64) -> Vec<DN> {
    match rng.below(6) {
        0 => {
            let t = trees::random_tree(rng, 60, 40);
            let mut d = Vec::new();
            tree_dag(&t, rng, &mut d);
            d
        }
        1 => random_dag(rng, 6, cap),
        2 => random_dag(rng, 120, cap),
        _ => random_dag(rng, 40, cap),
    }
}

const THIRD_BYTES: [u8; 32] = [
    0, 1, 2, 3, 4, 0x10, 0x3e, 0x3f, 0x40, 0x41, 0x7d, 0x7e, 0x7f, 0x80, 0x81, 0xbf, 0xc0, 0xc1, 0xdf, 0xe0, 0xef, 0xf0, 0xf7, 0xf8,
    0xfb, 0xfc, 0xfd, 0xfe, 0xff, 0x55, 0xaa, 0x99,
];
pub const LEVELS: [u32; 4] = [0, 1, 7, u32::MAX];
pub const MAX_ATOM_LENS: [u64; 7] = [0, 1, 31, 32, 1 << 20, 1 << 32, u64::MAX];

fn ser_real(d: &[DN], level: u32) -> Vec<u8> {
    let mut a = Allocator::new();
    let nodes = build_dag(&mut a, d);
    serialize_2026(&a, *nodes.last().unwrap(), level).unwrap()
}

/// blobs whose decoded tree would be too big to print are not sent as DE cases
fn printable(blob: &[u8]) -> bool {
    let mut a = Allocator::new();
    match deserialize_2026(&mut a, blob, SAFE_ALLOC, false) {
        Ok(n) => unfolded_node(&a, n) <= MAX_UNFOLDED,
        Err(_) => true,
    }
}

/// blobs that declare an atom length far beyond the bytes that follow (the inputs of finding I and its
/// neighbourhood: lengths that could be allocated and zeroed, and lengths no process can allocate)
fn huge_blobs() -> Vec<Vec<u8>> {
    let mut v = Vec::new();
    for (len, extra) in [
        (1i64 << 45, 0usize),
        (1i64 << 45, 1),
        ((1i64 << 55) - 1, 0),
        (1i64 << 50, 0),
        ((1i64 << 24) + 1, 0),
        (1i64 << 25, 1),
        (1i64 << 30, 0),
        (1i64 << 32, 0),
        ((1i64 << 32) + 1, 0),
        (1i64 << 33, 0),
        (1i64 << 36, 0),
        (1i64 << 40, 0),
        (1i64 << 44, 0),
    ] {
        // one group, positive form
        let mut o = MAGIC.to_vec();
        put_varint(&mut o, 1, 0);
        put_varint(&mut o, len, extra);
        o.extend_from_slice(&[0x41, 0x01, 0x02]);
        v.push(o);
        // negative form with a count
        let mut o = MAGIC.to_vec();
        put_varint(&mut o, 2, 0);
        put_varint(&mut o, 1, 0);
        o.push(0x41);
        put_varint(&mut o, -len, extra);
        put_varint(&mut o, 3, 0);
        o.extend_from_slice(&[0x41, 0x01, 0x02]);
        v.push(o);
    }
    v
}

fn mutate(rng: &mut Rng, b: &[u8]) -> Vec<u8> {
    let mut m = b.to_vec();
    let body = 6.min(m.len());
    for _ in 0..1 + rng.below(3) {
        if m.len() <= body {
            break;
        }
        let i = body + rng.below((m.len() - body) as u64) as usize;
        match rng.below(5) {
            0 => m[i] ^= 1 << rng.below(8),
            1 => m[i] = rng.next() as u8,
            2 => {
                m.remove(i);
            }
            3 => m.insert(i, *rng.pick(&[0u8, 1, 2, 0x7f, 0x7e, 0x40, 0x80, 0xc0, 0xff])),
            _ => m[i] = m[i].wrapping_add(1),
        }
    }
    m
}

pub fn generate(name: &str, rng: &mut Rng, n: usize, tier: &str) -> Vec<String> {
    let mut out = Vec::new();
    let mut id = 0usize;
    let mut push = |k: &str, s: String| {
        out.push(format!("{} s{} {}", k, id, s));
        id += 1;
    };
    if name == "intern" {
        for d in fixed_dags() {
            push("INTERN", render_dag(&d));
        }
        for _ in 0..n {
            let d = any_dag(rng, MAX_UNFOLDED);
            push("INTERN", render_dag(&d));
        }
        return out;
    }
    // ---- serde2026
    let de = |push: &mut dyn FnMut(&str, String), b: &[u8], max: u64, strict: bool| {
        push("DE", format!("2026 {} {} {}", hex_or_dash(b), max, strict as u8));
        push("DE", format!("len2026 {} {} {}", hex_or_dash(b), max, strict as u8));
    };
    // finding I and its neighbourhood: every max_atom_len
    for b in huge_blobs() {
        for max in MAX_ATOM_LENS {
            for strict in [false, true] {
                de(&mut push, &b, max, strict);
            }
        }
    }
    // exhaustive short bodies after the magic
    let maxlen = if tier == "thorough" { 3 } else { 2 };
    for len in 0..=maxlen {
        let total = 1u64 << (8 * len);
        for x in 0..total {
            // 3-byte bodies (thorough): all first two bytes x 32 representative third bytes
            if len == 3 && !THIRD_BYTES.contains(&(x as u8)) {
                continue;
            }
            let mut b = MAGIC.to_vec();
            b.extend((0..len).rev().map(|i| (x >> (8 * i)) as u8));
            let h = hex::encode(&b);
            let strict = if len >= 2 { (x >> 3) & 1 } else { 0 };
            push("DE", format!("2026 {} 1048576 {}", h, strict));
            if len <= 1 {
                push("DE", format!("2026 {} 1048576 1", h));
                push("DE", format!("len2026 {} 1048576 0", h));
                push("DE", format!("len2026 {} 18446744073709551615 1", h));
                push("DE", format!("2026 {} 0 0", h));
            } else if x % 7 == 0 {
                push("DE", format!("len2026 {} 1048576 {}", h, strict));
            }
        }
    }
    // every proper prefix of the magic, and wrong magics
    for k in 0..6 {
        de(&mut push, &MAGIC[..k], 1 << 20, true);
        let mut m = MAGIC.to_vec();
        m[k] ^= 1;
        m.extend_from_slice(&[0, 1, 0]);
        de(&mut push, &m, 1 << 20, false);
    }
    for d in fixed_dags() {
        for level in LEVELS {
            push("SER", format!("2026:{} {}", level, render_dag(&d)));
        }
    }
    for i in 0..n {
        // serializer on DAGs (deep sharing allowed: the blob stays small)
        let deep = i % 5 == 0;
        let d = any_dag(rng, if deep { 1 << 40 } else { MAX_UNFOLDED });
        let level = *rng.pick(&LEVELS);
        push("SER", format!("2026:{} {}", level, render_dag(&d)));
        if deep {
            continue;
        }
        let blob = ser_real(&d, level);
        let maxlen_in_tree = d
            .iter()
            .map(|n| match n {
                DN::P(..) => 0,
                DN::A(b) | DN::H(b) | DN::V(b) => b.len(),
            })
            .max()
            .unwrap_or(0) as u64;
        match i % 4 {
            0 => {
                // valid blob under every max_atom_len, tight bounds included
                for max in [maxlen_in_tree, maxlen_in_tree.saturating_sub(1), *rng.pick(&MAX_ATOM_LENS)] {
                    de(&mut push, &blob, max, rng.chance(1, 2));
                }
                let mut t = blob.clone();
                t.extend(rbytes(rng, 1, 4));
                de(&mut push, &t, 1 << 20, true);
            }
            1 => {
                // truncations
                let cut = 6 + rng.below((blob.len() - 5) as u64) as usize;
                de(&mut push, &blob[..cut.min(blob.len())], *rng.pick(&MAX_ATOM_LENS), rng.chance(1, 2));
                let cut = rng.below(blob.len() as u64 + 1) as usize;
                de(&mut push, &blob[..cut], 1 << 20, rng.chance(1, 2));
            }
            2 => {
                for _ in 0..3 {
                    let m = mutate(rng, &blob);
                    if printable(&m) {
                        de(&mut push, &m, *rng.pick(&MAX_ATOM_LENS), rng.chance(1, 2));
                    }
                }
            }
            _ => {
                // free-form blobs: any group order, both cons opcodes, over-long varints
                let bl = random_blob(rng);
                let exact = bl.encode(&mut || 0);
                de(&mut push, &exact, *rng.pick(&[31u64, 32, 64, 1 << 20, u64::MAX]), true);
                let mut r2 = Rng::new(rng.next());
                let lenient = bl.encode(&mut || if r2.chance(1, 3) { 1 + r2.below(3) as usize } else { 0 });
                de(&mut push, &lenient, 1 << 20, false);
                de(&mut push, &lenient, 1 << 20, true);
                let m = mutate(rng, &exact);
                if printable(&m) {
                    de(&mut push, &m, *rng.pick(&MAX_ATOM_LENS), rng.chance(1, 2));
                }
                // random bytes after the magic
                let mut rb = MAGIC.to_vec();
                rb.extend(rbytes(rng, 0, 24));
                if printable(&rb) {
                    de(&mut push, &rb, *rng.pick(&MAX_ATOM_LENS), rng.chance(1, 2));
                }
            }
        }
    }
    out
}

fn fixed_dags() -> Vec<Vec<DN>> {
    let a = |b: &[u8]| DN::A(b.to_vec());
    let mut v = vec![
        vec![a(&[])],
        vec![DN::H(vec![])],
        vec![a(&[1])],
        vec![DN::V(vec![1, 2, 3])],
        vec![a(&[]), DN::P(0, 0)],
        vec![a(&[1]), DN::H(vec![1]), DN::P(0, 1), DN::V(vec![1]), DN::P(2, 3), DN::P(4, 2)],
        vec![a(&[1]), a(&[2]), DN::P(0, 1), DN::P(0, 1), DN::P(2, 3)],
        vec![a(&[7; 40]), a(&[8; 40]), a(&[9; 39]), DN::P(0, 1), DN::P(3, 2), a(&[]), DN::P(4, 5)],
    ];
    // doubling chain: 2^30 unfolded nodes would not print, keep it printable here
    let mut d = vec![a(&[5])];
    for i in 0..10 {
        d.push(DN::P(i, i));
    }
    v.push(d);
    // 130 distinct atoms: atom indices beyond the one-byte varint range
    let mut d: Vec<DN> = (0..130u32).map(|i| a(&[(i >> 7) as u8 + 1, i as u8])).collect();
    let mut last = 0;
    for i in 1..130 {
        d.push(DN::P(last, i));
        last = d.len() - 1;
    }
    v.push(d);
    v
}

// ------------------------------------------------------------------ oracles

fn no_panic<R>(f: impl FnOnce() -> R) -> Option<R> {
    std::panic::catch_unwind(std::panic::AssertUnwindSafe(f)).ok()
}

fn check_roundtrip(rep: &mut OracleReport, rng: &mut Rng, d: &[DN]) {
    let root = d.len() - 1;
    let mut a = Allocator::new();
    let nodes = build_dag(&mut a, d);
    let mut canon = Canon::default();
    let ids = canon.dag(d);
    let desc = || render_dag(d);
    let mut first: Option<Vec<u8>> = None;
    for level in LEVELS {
        rep.evaluations += 1;
        let blob = match no_panic(|| serialize_2026(&a, nodes[root], level)) {
            None => {
                rep.fail("ser2026_total", format!("serialize_2026 panicked level={} dag={}", level, desc()));
                return;
            }
            Some(Err(e)) => {
                rep.fail("ser2026_total", format!("serialize_2026 failed {:?} level={} dag={}", e, level, desc()));
                return;
            }
            Some(Ok(b)) => b,
        };
        if !blob.starts_with(&MAGIC) {
            rep.fail("ser2026_magic", format!("blob {} lacks the magic dag={}", hex::encode(&blob), desc()));
        }
        match &first {
            None => first = Some(blob.clone()),
            Some(f) => {
                if *f != blob {
                    rep.fail("ser2026_levels", format!("level {} gives a different blob dag={}", level, desc()));
                }
            }
        }
    }
    let blob = first.unwrap();
    if blob.len() > 12 {
        rep.nontrivial += 1;
    }
    rep.hit(&format!("blob_len_log2_{}", 64 - (blob.len() as u64).leading_zeros()));
    rep.sample(format!("dag={} blob={}", desc(), hex::encode(&blob)));
    let maxlen = d
        .iter()
        .map(|n| match n {
            DN::P(..) => 0,
            DN::A(b) | DN::H(b) | DN::V(b) => b.len(),
        })
        .max()
        .unwrap_or(0);
    for strict in [true, false] {
        for max in [maxlen, 1 << 20, usize::MAX] {
            rep.evaluations += 1;
            let mut b = Allocator::new();
            match no_panic(|| {
                let r = deserialize_2026(&mut b, &blob, max, strict);
                (b, r)
            }) {
                None => rep.fail("de_ser_2026", format!("deserialize_2026 panicked strict={} dag={}", strict, desc())),
                Some((_, Err(e))) => rep.fail(
                    "de_ser_2026",
                    format!("deserialize_2026(serialize_2026) failed {:?} strict={} max_atom_len={} dag={}", e, strict, max, desc()),
                ),
                Some((b, Ok(n))) => {
                    let mut memo = HashMap::new();
                    if canon.node(&b, n, &mut memo) != ids[root] {
                        rep.fail("de_ser_2026", format!("round trip changed the tree strict={} dag={}", strict, desc()));
                    }
                }
            }
        }
        // length probe on the blob followed by unrelated bytes
        rep.evaluations += 1;
        let mut ext = blob.clone();
        ext.extend(rbytes(rng, 0, 5));
        match no_panic(|| serialized_length_serde_2026(&ext, usize::MAX, strict)) {
            Some(Ok(l)) if l == blob.len() as u64 => {}
            other => rep.fail(
                "len_ser_2026",
                format!("serialized_length_serde_2026 = {:?}, blob length {} strict={} dag={}", other, blob.len(), strict, desc()),
            ),
        }
    }
    check_rejected(rep, &blob);
}

/// classic and both back-reference decoders must reject anything that starts with the magic
fn check_rejected(rep: &mut OracleReport, blob: &[u8]) {
    rep.evaluations += 1;
    let h = || hex::encode(&blob[..blob.len().min(64)]);
    let mut a = Allocator::new();
    match no_panic(move || node_from_bytes(&mut a, blob).is_ok()) {
        Some(false) => {}
        r => rep.fail("magic_rejected_classic", format!("node_from_bytes accepted/panicked ({:?}) on {}", r, h())),
    }
    let mut a = Allocator::new();
    match no_panic(move || node_from_bytes_backrefs(&mut a, blob).is_ok()) {
        Some(false) => {}
        r => rep.fail("magic_rejected_backrefs", format!("node_from_bytes_backrefs accepted/panicked ({:?}) on {}", r, h())),
    }
    let mut a = Allocator::new();
    match no_panic(move || node_from_bytes_backrefs_old(&mut a, blob).is_ok()) {
        Some(false) => {}
        r => rep.fail("magic_rejected_backrefs_old", format!("node_from_bytes_backrefs_old accepted/panicked ({:?}) on {}", r, h())),
    }
}

/// totality and probe = consumed on an arbitrary byte string
fn check_blob(rep: &mut OracleReport, blob: &[u8], max: usize, strict: bool) {
    rep.evaluations += 1;
    let hexb = hex_or_dash(blob);
    let what = || format!("blob={} max_atom_len={} strict={}", hexb, max as u64, strict as u8);
    let probe = match no_panic(|| serialized_length_serde_2026(blob, max, strict)) {
        None => {
            rep.fail("len2026_total", format!("serialized_length_serde_2026 panicked {}", what()));
            return;
        }
        Some(r) => r,
    };
    let de = de_any(&hexb, blob, max, strict);
    let kind = de.split(' ').next().unwrap_or("").to_string();
    rep.hit(&format!("de_{}", if kind == "err" { de.replace(' ', "_") } else { kind.clone() }));
    match kind.as_str() {
        "ok" => {
            rep.nontrivial += 1;
            let consumed: u64 = de.rsplit(' ').next().unwrap().parse().unwrap();
            if probe.as_ref().ok() != Some(&consumed) {
                rep.fail("len_eq_consumed", format!("decoder consumed {} but the probe says {:?} {}", consumed, probe, what()));
            }
        }
        "err" => {}
        "abort" | "timeout" => {
            let declared = declares_huge_atom(blob, max, strict, SAFE_ALLOC as u64 + 1);
            rep.fail(
                "de2026_total",
                format!("deserialize_2026 {} (declared atom length reached: {:?}) {}", kind, declared, what()),
            );
        }
        _ => rep.fail("de2026_total", format!("deserialize_2026: {} {}", de, what())),
    }
    if blob.starts_with(&MAGIC) {
        check_rejected(rep, blob);
    }
}

pub fn oracle(name: &str, rng: &mut Rng, n: usize, tier: &str) -> OracleReport {
    let mut rep = OracleReport::default();
    match name {
        "serde2026_roundtrip" => {
            for d in fixed_dags() {
                check_roundtrip(&mut rep, rng, &d);
            }
            for i in 0..n {
                let d = any_dag(rng, if i % 3 == 0 { 1 << 50 } else { MAX_UNFOLDED });
                check_roundtrip(&mut rep, rng, &d);
            }
        }
        "serde2026_blobs" => {
            for b in huge_blobs() {
                for max in MAX_ATOM_LENS {
                    check_blob(&mut rep, &b, max as usize, false);
                    check_blob(&mut rep, &b, max as usize, true);
                }
            }
            let maxlen = if tier == "thorough" { 2 } else { 1 };
            for len in 0..=maxlen {
                for x in 0..(1u64 << (8 * len)) {
                    let mut b = MAGIC.to_vec();
                    b.extend((0..len).rev().map(|i| (x >> (8 * i)) as u8));
                    check_blob(&mut rep, &b, 1 << 20, x & 1 == 1);
                }
            }
            for i in 0..n {
                let d = any_dag(rng, MAX_UNFOLDED);
                let blob = ser_real(&d, 0);
                let max = *rng.pick(&MAX_ATOM_LENS) as usize;
                let strict = rng.chance(1, 2);
                match i % 5 {
                    0 => check_blob(&mut rep, &mutate(rng, &blob), max, strict),
                    1 => {
                        let cut = rng.below(blob.len() as u64 + 1) as usize;
                        check_blob(&mut rep, &blob[..cut], max, strict)
                    }
                    2 => {
                        let bl = random_blob(rng);
                        let mut r2 = Rng::new(rng.next());
                        let b = bl.encode(&mut || if r2.chance(1, 3) { 1 + r2.below(3) as usize } else { 0 });
                        check_blob(&mut rep, &b, max, false);
                        check_blob(&mut rep, &b, max, true);
                        check_blob(&mut rep, &mutate(rng, &b), max, strict);
                    }
                    3 => {
                        let mut rb = MAGIC.to_vec();
                        rb.extend(rbytes(rng, 0, 32));
                        check_blob(&mut rep, &rb, max, strict);
                    }
                    _ => {
                        let rb = rbytes(rng, 0, 32);
                        check_blob(&mut rep, &rb, max, strict);
                    }
                }
            }
        }
        "intern" => {
            for d in fixed_dags() {
                check_intern(&mut rep, &d);
            }
            for i in 0..n {
                let d = any_dag(rng, if i % 3 == 0 { 1 << 50 } else { MAX_UNFOLDED });
                check_intern(&mut rep, &d);
            }
        }
        _ => panic!("unknown oracle {name}"),
    }
    rep
}

/// C24 on one DAG
fn check_intern(rep: &mut OracleReport, d: &[DN]) {
    rep.evaluations += 1;
    let root = d.len() - 1;
    let desc = || render_dag(d);
    let mut a = Allocator::new();
    let nodes = build_dag(&mut a, d);
    let t = match no_panic(|| intern_tree(&a, nodes[root])) {
        Some(Ok(t)) => t,
        r => {
            rep.fail("intern_total", format!("intern_tree failed/panicked ({:?}) dag={}", r.map(|x| x.err()), desc()));
            return;
        }
    };
    let mut canon = Canon::default();
    let ids = canon.dag(d);
    let sizes = unfolded(d);
    // same tree (hence same serialization); the classic serialization itself when it is printable
    let mut memo = HashMap::new();
    if canon.node(&t.allocator, t.root, &mut memo) != ids[root] {
        rep.fail("intern_preserves", format!("interned tree differs from the source dag={}", desc()));
    }
    if sizes[root] <= MAX_UNFOLDED {
        let s1 = node_to_bytes(&a, nodes[root]).unwrap();
        let s2 = node_to_bytes(&t.allocator, t.root).unwrap();
        if s1 != s2 {
            rep.fail("intern_serialization", format!("classic serialization differs dag={}", desc()));
        }
    }
    // same tree hash, against the definition
    let hs = ref_hashes(d);
    if t.tree_hash() != hs[root] {
        rep.fail("intern_treehash", format!("tree_hash of the interned tree differs from the definition dag={}", desc()));
    }
    // atoms pairwise distinct byte strings
    let contents: HashSet<Vec<u8>> = t.atoms.iter().map(|n| t.allocator.atom(*n).as_ref().to_vec()).collect();
    if contents.len() != t.atoms.len() {
        rep.fail("intern_atoms_distinct", format!("{} atoms, {} distinct dag={}", t.atoms.len(), contents.len(), desc()));
    }
    // pairs pairwise distinct sub-trees
    let pids: HashSet<usize> = t.pairs.iter().map(|n| canon.node(&t.allocator, *n, &mut memo)).collect();
    if pids.len() != t.pairs.len() {
        rep.fail("intern_pairs_distinct", format!("{} pairs, {} distinct dag={}", t.pairs.len(), pids.len(), desc()));
    }
    // counts, computed independently: distinct atom values / distinct sub-trees below the root
    let seen = reachable(d, root);
    let mut da = HashSet::new();
    let mut dp = HashSet::new();
    let mut src_atoms = HashSet::new();
    let mut src_pairs = HashSet::new();
    for i in 0..d.len() {
        if seen[i] {
            if canon.is_pair[ids[i]] {
                dp.insert(ids[i]);
                src_pairs.insert(nodes[i]);
            } else {
                da.insert(ids[i]);
                src_atoms.insert(nodes[i]);
            }
        }
    }
    if t.atoms.len() != da.len() || t.pairs.len() != dp.len() {
        rep.fail(
            "intern_counts",
            format!("interned {}/{} atoms/pairs, distinct values/sub-trees {}/{} dag={}", t.atoms.len(), t.pairs.len(), da.len(), dp.len(), desc()),
        );
    }
    if t.atoms.len() > src_atoms.len() || t.pairs.len() > src_pairs.len() {
        rep.fail(
            "intern_le_source",
            format!("interned {}/{} exceeds the source's {}/{} dag={}", t.atoms.len(), t.pairs.len(), src_atoms.len(), src_pairs.len(), desc()),
        );
    }
    if t.pairs.len() < src_pairs.len() || t.atoms.len() < src_atoms.len() {
        rep.nontrivial += 1;
    }
    rep.hit(&format!("pairs_log2_{}", 64 - (t.pairs.len() as u64).leading_zeros()));
    if sizes[root] > MAX_UNFOLDED {
        rep.hit("deep_sharing");
    }
    rep.sample(format!("dag={} atoms={} pairs={}", desc(), t.atoms.len(), t.pairs.len()));
}
