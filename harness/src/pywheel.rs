//! C26–C28: the Rust-core side of the Python-wheel correspondence.
//!
//! Every request kind here is answered three ways: by this file (the Rust core `clvmr` plus a
//! *replica* of the few lines of glue in `wheel/src/api.rs` / `adapt_response.rs`: flag truncation,
//! heap-limit choice, format dispatch, error adaptation), by `pyharness/ph.py` (the real wheel built
//! from /repo/wheel, and the pure-Python helpers), and — for the kinds it models — by `clvm_model`.
//!
//! kinds
//!   PYRUN   <flags-hex> <budget> <prog-hex> <env-hex>   ok <cost> <result-hex> | err <msg_> <blob-hex|noblob>
//!   PYSERDE <deser-fn> <ser-fn> <hex>                   ok <hex> | err <msg_>
//!   PYGLUE  flags:<hex> | auto:<hex> | e2026:<hex>:<Kind> | msg:<Kind>     (glue replica vs Lean glue model)
//!   PYSER   <tree-hex>                                  ok <hex>                     (C28, ser.py)
//!   PYPFX   <len> <first-byte>                          ok <prefix-hex> | err        (C28, size_blob_for_blob)
//!   PYDE    <hex>                                       ok <tree-hex> <consumed> | err   (C28, sexp_from_stream)
//!   PYINT   to:<int> | from:<hex>                       ok <hex> | ok <int>          (C28, casts.py)
//!   PYCURRY <mod-hex> <args-list-hex>                   ok <curried-hex> <treehash-hex>
//!   PYUNCURRY <prog-hex>                                ok <mod-hex> <args-list-hex> | ok <prog-hex> none
//!   PYCRUN  <mod-hex> <args-list-hex> <env-hex>         ok <cost curried> <cost direct> <result-hex> | err …
use crate::rng::Rng;
use crate::util::*;
use clvmr::allocator::{Allocator, NodePtr, SExp};
use clvmr::chia_dialect::{ChiaDialect, ClvmFlags, MEMPOOL_MODE};
use clvmr::error::EvalErr;
use clvmr::run_program::run_program;
use clvmr::serde::{node_from_bytes, node_from_bytes_backrefs, node_from_stream, node_to_bytes, node_to_bytes_backrefs};
use clvmr::serde_2026::{SERDE_2026_MAGIC_PREFIX, deserialize_2026, deserialize_2026_body_from_stream, serialize_2026};
use num_bigint::BigInt;
use std::io::Cursor;

// ------------------------------------------------------------------ replica of the wheel glue
/// wheel/src/api.rs: `Allocator::new_limited(500000000)` under LIMIT_HEAP
pub const WHEEL_HEAP_LIMIT: usize = 500000000;
/// wheel/src/api.rs: PY_DEFAULT_MAX_ATOM_LEN
pub const PY_DEFAULT_MAX_ATOM_LEN: usize = 1 << 20;

pub fn wheel_flags(word: u32) -> ClvmFlags {
    ClvmFlags::from_bits_truncate(word)
}

pub fn wheel_allocator(flags: ClvmFlags) -> Allocator {
    if flags.contains(ClvmFlags::LIMIT_HEAP) { Allocator::new_limited(WHEEL_HEAP_LIMIT) } else { Allocator::new() }
}

fn msg_(s: &str) -> String {
    s.replace(' ', "_")
}

// ------------------------------------------------------------------ trees of the harness
#[derive(Clone, Debug, PartialEq, Eq)]
pub enum T {
    A(Vec<u8>),
    P(Box<T>, Box<T>),
}

pub fn atom(b: &[u8]) -> T {
    T::A(b.to_vec())
}
pub fn pair(l: T, r: T) -> T {
    T::P(Box::new(l), Box::new(r))
}
pub fn nil() -> T {
    T::A(vec![])
}
pub fn list(v: Vec<T>) -> T {
    let mut r = nil();
    for x in v.into_iter().rev() {
        r = pair(x, r);
    }
    r
}
pub fn quote(t: T) -> T {
    pair(atom(&[1]), t)
}
pub fn int_atom(v: &BigInt) -> T {
    if *v == BigInt::from(0) {
        return nil();
    }
    T::A(v.to_signed_bytes_be())
}

fn wire_prefix(out: &mut Vec<u8>, b: &[u8]) {
    let n = b.len() as u64;
    if n == 0 {
        out.push(0x80);
    } else if n == 1 && b[0] < 0x80 {
    } else if n < 0x40 {
        out.push(0x80 | n as u8);
    } else if n < 0x2000 {
        out.extend_from_slice(&[0xc0 | (n >> 8) as u8, n as u8]);
    } else if n < 0x100000 {
        out.extend_from_slice(&[0xe0 | (n >> 16) as u8, (n >> 8) as u8, n as u8]);
    } else if n < 0x8000000 {
        out.extend_from_slice(&[0xf0 | (n >> 24) as u8, (n >> 16) as u8, (n >> 8) as u8, n as u8]);
    } else {
        out.extend_from_slice(&[0xf8 | (n >> 32) as u8, (n >> 24) as u8, (n >> 16) as u8, (n >> 8) as u8, n as u8]);
    }
}

/// wire form of a tree (harness canonicaliser; not the crate's serializer, no size limit)
pub fn wire(t: &T) -> Vec<u8> {
    let mut out = Vec::new();
    let mut st = vec![t];
    while let Some(x) = st.pop() {
        match x {
            T::A(b) => {
                wire_prefix(&mut out, b);
                out.extend_from_slice(b);
            }
            T::P(l, r) => {
                out.push(0xff);
                st.push(r);
                st.push(l);
            }
        }
    }
    out
}

/// wire form of an allocator node, read through the public `sexp`/`atom` views
pub fn wire_node(a: &Allocator, n: NodePtr) -> Vec<u8> {
    let mut out = Vec::new();
    let mut st = vec![n];
    while let Some(x) = st.pop() {
        match a.sexp(x) {
            SExp::Atom => {
                let at = a.atom(x);
                let b: &[u8] = at.as_ref();
                wire_prefix(&mut out, b);
                out.extend_from_slice(b);
            }
            SExp::Pair(l, r) => {
                out.push(0xff);
                st.push(r);
                st.push(l);
            }
        }
    }
    out
}

pub fn to_node(a: &mut Allocator, t: &T) -> NodePtr {
    // iterative post-order
    enum W<'a> {
        V(&'a T),
        C,
    }
    let mut st = vec![W::V(t)];
    let mut vals: Vec<NodePtr> = vec![];
    while let Some(w) = st.pop() {
        match w {
            W::V(T::A(b)) => vals.push(a.new_atom(b).unwrap()),
            W::V(T::P(l, r)) => {
                st.push(W::C);
                st.push(W::V(r));
                st.push(W::V(l));
            }
            W::C => {
                let r = vals.pop().unwrap();
                let l = vals.pop().unwrap();
                vals.push(a.new_pair(l, r).unwrap());
            }
        }
    }
    vals.pop().unwrap()
}

pub fn from_node(a: &Allocator, n: NodePtr) -> T {
    match a.sexp(n) {
        SExp::Atom => T::A(a.atom(n).as_ref().to_vec()),
        SExp::Pair(l, r) => pair(from_node(a, l), from_node(a, r)),
    }
}

// ------------------------------------------------------------------ PYRUN
pub fn py_run(word: u32, budget: u64, prog: &[u8], env: &[u8]) -> String {
    let flags = wheel_flags(word);
    let mut a = wheel_allocator(flags);
    // `.map_err(eval_to_py)?`  ⇒ ValueError(str): one argument, no blob
    let p = match node_from_bytes(&mut a, prog) {
        Ok(p) => p,
        Err(e) => return format!("err {} noblob", msg_(&e.to_string())),
    };
    let e = match node_from_bytes(&mut a, env) {
        Ok(p) => p,
        Err(e) => return format!("err {} noblob", msg_(&e.to_string())),
    };
    let d = ChiaDialect::new(flags);
    match run_program(&mut a, &d, p, e, budget) {
        Ok(r) => format!("ok {} {}", r.0, hex::encode(wire_node(&a, r.1))),
        // adapt_response: ValueError((eval_err.to_string(), LazyNode(node_ptr)))
        Err(e) => format!("err {} {}", msg_(&e.to_string()), hex::encode(wire_node(&a, e.node_ptr()))),
    }
}

// ------------------------------------------------------------------ PYSERDE
fn parse_opts(parts: &[&str]) -> (usize, bool) {
    let maxlen = parts.get(1).map(|s| s.parse().unwrap()).unwrap_or(PY_DEFAULT_MAX_ATOM_LEN);
    let strict = parts.get(2).map(|s| *s == "1").unwrap_or(true);
    (maxlen, strict)
}

/// replica of deser_legacy / deser_backrefs / deser_2026 / deser_auto (wheel/src/api.rs)
pub fn wheel_deser(a: &mut Allocator, f: &str, blob: &[u8]) -> Result<NodePtr, String> {
    // `api:<fmt>[:…]` = the same call made through the pure-Python wrapper clvm_rs.serde.deserialize
    let f = f.strip_prefix("api:").unwrap_or(f);
    let parts: Vec<&str> = f.split(':').collect();
    match parts[0] {
        "legacy" => node_from_bytes(a, blob).map_err(|e| e.to_string()),
        "backrefs" => node_from_bytes_backrefs(a, blob).map_err(|e| e.to_string()),
        "2026" => {
            let (maxlen, strict) = parse_opts(&parts);
            deserialize_2026(a, blob, maxlen, strict).map_err(|e| {
                if !blob.starts_with(SERDE_2026_MAGIC_PREFIX.as_slice()) {
                    "deser_2026: blob is missing the serde_2026 magic prefix".to_string()
                } else {
                    e.to_string()
                }
            })
        }
        "auto" => {
            let (maxlen, strict) = parse_opts(&parts);
            if let Some(body) = blob.strip_prefix(SERDE_2026_MAGIC_PREFIX.as_slice()) {
                deserialize_2026_body_from_stream(a, &mut Cursor::new(body), maxlen, strict).map_err(|e| e.to_string())
            } else {
                node_from_bytes_backrefs(a, blob).map_err(|e| e.to_string())
            }
        }
        _ => Err("bad-request".into()),
    }
}

pub fn wheel_ser(a: &Allocator, n: NodePtr, f: &str) -> Result<Vec<u8>, String> {
    let f = f.strip_prefix("api:").unwrap_or(f);
    let parts: Vec<&str> = f.split(':').collect();
    match parts[0] {
        "legacy" => node_to_bytes(a, n).map_err(|e| e.to_string()),
        "backrefs" => node_to_bytes_backrefs(a, n).map_err(|e| e.to_string()),
        "2026" => {
            let level: u32 = parts.get(1).map(|s| s.parse().unwrap()).unwrap_or(0);
            serialize_2026(a, n, level).map_err(|e| e.to_string())
        }
        // the LazyNode `.atom` / `.pair` views: the tree itself
        "view" => Ok(wire_node(a, n)),
        _ => Err("bad-request".into()),
    }
}

fn py_serde(df: &str, sf: &str, blob: &[u8]) -> String {
    let mut a = Allocator::new();
    let n = match wheel_deser(&mut a, df, blob) {
        Ok(n) => n,
        Err(m) => return format!("err {}", msg_(&m)),
    };
    match wheel_ser(&a, n, sf) {
        Ok(b) => format!("ok {}", hex_or_dash(&b)),
        Err(m) => format!("err {}", msg_(&m)),
    }
}

// ------------------------------------------------------------------ PYGLUE
const UNIT_KINDS: [&str; 9] = [
    "SerializationError",
    "SerializationBackreferenceError",
    "OutOfMemory",
    "PathIntoAtom",
    "TooManyPairs",
    "TooManyAtoms",
    "CostExceeded",
    "UnknownSoftforkExtension",
    "SoftforkCostMismatch",
];
const NODE_KINDS: [&str; 16] = [
    "InternalError",
    "InvalidOpArg",
    "InvalidAllocArg",
    "Raise",
    "InvalidNilTerminator",
    "DivisionByZero",
    "ValueStackLimitReached",
    "EnvironmentStackLimitReached",
    "ShiftTooLarge",
    "Reserved",
    "Invalid",
    "Unimplemented",
    "BLSPairingIdentityFailed",
    "BLSVerifyFailed",
    "Secp256Failed",
    "SoftforkStackDepthExceeded",
];

fn err_of_kind(k: &str, n: NodePtr) -> Option<EvalErr> {
    Some(match k {
        "SerializationError" => EvalErr::SerializationError,
        "SerializationBackreferenceError" => EvalErr::SerializationBackreferenceError,
        "OutOfMemory" => EvalErr::OutOfMemory,
        "PathIntoAtom" => EvalErr::PathIntoAtom,
        "TooManyPairs" => EvalErr::TooManyPairs,
        "TooManyAtoms" => EvalErr::TooManyAtoms,
        "CostExceeded" => EvalErr::CostExceeded,
        "UnknownSoftforkExtension" => EvalErr::UnknownSoftforkExtension,
        "SoftforkCostMismatch" => EvalErr::SoftforkCostMismatch,
        "Raise" => EvalErr::Raise(n),
        "InvalidNilTerminator" => EvalErr::InvalidNilTerminator(n),
        "DivisionByZero" => EvalErr::DivisionByZero(n),
        "ValueStackLimitReached" => EvalErr::ValueStackLimitReached(n),
        "EnvironmentStackLimitReached" => EvalErr::EnvironmentStackLimitReached(n),
        "ShiftTooLarge" => EvalErr::ShiftTooLarge(n),
        "Reserved" => EvalErr::Reserved(n),
        "Invalid" => EvalErr::Invalid(n),
        "Unimplemented" => EvalErr::Unimplemented(n),
        "BLSPairingIdentityFailed" => EvalErr::BLSPairingIdentityFailed(n),
        "BLSVerifyFailed" => EvalErr::BLSVerifyFailed(n),
        "Secp256Failed" => EvalErr::Secp256Failed(n),
        "SoftforkStackDepthExceeded" => EvalErr::SoftforkStackDepthExceeded,
        "InternalError" => EvalErr::InternalError(n, "payload".to_string()),
        "InvalidOpArg" => EvalErr::InvalidOpArg(n, "payload".to_string()),
        "InvalidAllocArg" => EvalErr::InvalidAllocArg(n, "payload".to_string()),
        _ => return None,
    })
}

fn py_glue(arg: &str) -> String {
    let parts: Vec<&str> = arg.split(':').collect();
    match parts[0] {
        // flag word ↦ truncated word, heap limit the wheel's allocator gets, flags of the dialect
        "flags" => {
            let w = u32::from_str_radix(parts[1], 16).unwrap();
            let f = wheel_flags(w);
            let lim: u64 = if f.contains(ClvmFlags::LIMIT_HEAP) { WHEEL_HEAP_LIMIT as u64 } else { u32::MAX as u64 };
            format!("ok {:08x} {}", f.bits(), lim)
        }
        // which decoder deser_auto hands the blob to, and the bytes it hands over
        "auto" => {
            let b = parse_hex(parts[1]).unwrap();
            match b.strip_prefix(SERDE_2026_MAGIC_PREFIX.as_slice()) {
                Some(body) => format!("ok 2026 {}", hex_or_dash(body)),
                None => format!("ok backrefs {}", hex_or_dash(&b)),
            }
        }
        // message of a failing deser_2026
        "e2026" => {
            let b = parse_hex(parts[1]).unwrap();
            let Some(e) = err_of_kind(parts[2], NodePtr::NIL) else { return "bad-request".into() };
            let m = if !b.starts_with(SERDE_2026_MAGIC_PREFIX.as_slice()) {
                "deser_2026: blob is missing the serde_2026 magic prefix".to_string()
            } else {
                e.to_string()
            };
            format!("ok {}", msg_(&m))
        }
        // adapt_response on an error: message and whether the blob is the error's node or nil
        "msg" => {
            let mut a = Allocator::new();
            let n = a.new_atom(b"marker-node").unwrap();
            let Some(e) = err_of_kind(parts[1], n) else { return "bad-request".into() };
            format!("ok {} {}", msg_(&e.to_string()), if e.node_ptr() == n { "node" } else { "nil" })
        }
        _ => "bad-request".into(),
    }
}

// ------------------------------------------------------------------ C28 kinds
fn py_ser(tree: &[u8]) -> String {
    let mut a = Allocator::new();
    let Ok(n) = node_from_bytes(&mut a, tree) else { return "bad-request".into() };
    match node_to_bytes(&a, n) {
        Ok(b) => format!("ok {}", hex::encode(b)),
        Err(e) => fmt_err(&e),
    }
}

/// prefix the crate's `write_atom` emits for an atom of `len` bytes starting with `first`.
/// The body is never materialised: a sink that keeps only the first bytes.
fn py_pfx(len: u64, first: u8) -> String {
    struct Head(Vec<u8>, u64);
    impl std::io::Write for Head {
        fn write(&mut self, b: &[u8]) -> std::io::Result<usize> {
            if self.0.len() < 16 {
                let k = b.len().min(16 - self.0.len());
                self.0.extend_from_slice(&b[..k]);
            }
            self.1 += b.len() as u64;
            Ok(b.len())
        }
        fn flush(&mut self) -> std::io::Result<()> {
            Ok(())
        }
    }
    // a lazily mapped zero buffer: pages are never touched except the first
    let mut v = vec![0u8; len as usize];
    if len > 0 {
        v[0] = first;
    }
    let mut h = Head(vec![], 0);
    match clvmr::serde::write_atom::write_atom(&mut h, &v) {
        Ok(()) => {
            let plen = (h.1 - len) as usize;
            format!("ok {}", hex_or_dash(&h.0[..plen.min(h.0.len())]))
        }
        Err(_) => "err".to_string(),
    }
}

fn py_de(blob: &[u8]) -> String {
    let mut a = Allocator::new();
    let mut c = Cursor::new(blob);
    match node_from_stream(&mut a, &mut c) {
        Ok(n) => format!("ok {} {}", hex::encode(wire_node(&a, n)), c.position()),
        Err(_) => "err".to_string(),
    }
}

fn py_int(arg: &str) -> String {
    let parts: Vec<&str> = arg.split(':').collect();
    let mut a = Allocator::new();
    match parts[0] {
        "to" => {
            let v: BigInt = parts[1].parse().unwrap();
            let n = a.new_number(v).unwrap();
            format!("ok {}", hex_or_dash(a.atom(n).as_ref()))
        }
        "from" => {
            let b = parse_hex(parts[1]).unwrap();
            let n = a.new_atom(&b).unwrap();
            format!("ok {}", a.number(n))
        }
        _ => "bad-request".into(),
    }
}

fn list_items(t: &T) -> Option<Vec<T>> {
    let mut v = vec![];
    let mut c = t;
    loop {
        match c {
            T::A(b) if b.is_empty() => return Some(v),
            T::A(_) => return None,
            T::P(l, r) => {
                v.push((**l).clone());
                c = r;
            }
        }
    }
}

/// `(a (q . mod) (c (q . a1) (c (q . a2) … 1)))` — the documented curry form
pub fn curry_spec(m: &T, args: &[T]) -> T {
    let mut fixed = atom(&[1]);
    for x in args.iter().rev() {
        fixed = list(vec![atom(&[4]), quote(x.clone()), fixed]);
    }
    list(vec![atom(&[2]), quote(m.clone()), fixed])
}

fn tree_hash(t: &T) -> [u8; 32] {
    match t {
        T::A(b) => clvmr::treehash::tree_hash_atom(b),
        T::P(l, r) => clvmr::treehash::tree_hash_pair(&tree_hash(l), &tree_hash(r)),
    }
}

fn parse_tree(h: &str) -> Option<T> {
    let b = parse_hex(h)?;
    let mut a = Allocator::new();
    let mut c = Cursor::new(&b[..]);
    let n = node_from_stream(&mut a, &mut c).ok()?;
    if c.position() as usize != b.len() {
        return None;
    }
    Some(from_node(&a, n))
}

fn py_curry(m: &str, args: &str) -> String {
    let (Some(m), Some(al)) = (parse_tree(m), parse_tree(args)) else { return "bad-request".into() };
    let Some(items) = list_items(&al) else { return "bad-request".into() };
    let c = curry_spec(&m, &items);
    // the wheel side reports curry_hash(mod, hashes of args) and tree_hash(curried): both must be this
    let th = hex::encode(tree_hash(&c));
    format!("ok {} {} {}", hex::encode(wire(&c)), th, th)
}

/// inverse of `curry_spec` on its image, `none` elsewhere (specification of uncurry)
fn uncurry_spec(p: &T) -> Option<(T, Vec<T>)> {
    let top = list_items(p)?;
    if top.len() != 3 || top[0] != atom(&[2]) {
        return None;
    }
    let T::P(q, m) = &top[1] else { return None };
    if **q != atom(&[1]) {
        return None;
    }
    let mut args = vec![];
    let mut core = top[2].clone();
    while core != atom(&[1]) {
        let it = list_items(&core)?;
        if it.len() != 3 || it[0] != atom(&[4]) {
            return None;
        }
        let T::P(q, x) = &it[1] else { return None };
        if **q != atom(&[1]) {
            return None;
        }
        args.push((**x).clone());
        core = it[2].clone();
    }
    Some(((**m).clone(), args))
}

fn py_uncurry(p: &str) -> String {
    let Some(p) = parse_tree(p) else { return "bad-request".into() };
    match uncurry_spec(&p) {
        Some((m, args)) => format!("ok {} {}", hex::encode(wire(&m)), hex::encode(wire(&list(args)))),
        None => format!("ok {} none", hex::encode(wire(&p))),
    }
}

fn run_tree(p: &T, e: &T, budget: u64) -> Result<(u64, T), String> {
    let mut a = Allocator::new();
    let pn = to_node(&mut a, p);
    let en = to_node(&mut a, e);
    match run_program(&mut a, &ChiaDialect::new(ClvmFlags::empty()), pn, en, budget) {
        Ok(r) => Ok((r.0, from_node(&a, r.1))),
        Err(e) => Err(msg_(&e.to_string())),
    }
}

/// run (curry m args) on env, and m on (args ++ env); reply both costs and the (common) result
fn py_crun(m: &str, args: &str, env: &str) -> String {
    let (Some(m), Some(al), Some(env)) = (parse_tree(m), parse_tree(args), parse_tree(env)) else {
        return "bad-request".into();
    };
    let Some(items) = list_items(&al) else { return "bad-request".into() };
    let c = curry_spec(&m, &items);
    let mut full = env.clone();
    for x in items.iter().rev() {
        full = pair(x.clone(), full);
    }
    let budget = 100_000_000;
    match (run_tree(&c, &env, budget), run_tree(&m, &full, budget)) {
        (Ok((c1, r1)), Ok((c2, r2))) => {
            if r1 == r2 {
                format!("ok {} {} {}", c1, c2, hex::encode(wire(&r1)))
            } else {
                format!("differ {} {}", hex::encode(wire(&r1)), hex::encode(wire(&r2)))
            }
        }
        (Err(e1), Err(e2)) => format!("err {} {}", e1, e2),
        (Ok(_), Err(e)) => format!("err-direct-only {}", e),
        (Err(e), Ok(_)) => format!("err-curried-only {}", e),
    }
}

pub fn run(kind: &str, args: &[&str]) -> String {
    match kind {
        "PYRUN" => {
            let w = u32::from_str_radix(args[0], 16).unwrap();
            let budget: u64 = args[1].parse().unwrap();
            py_run(w, budget, &parse_hex(args[2]).unwrap(), &parse_hex(args[3]).unwrap())
        }
        "PYSERDE" => py_serde(args[0], args[1], &parse_hex(args[2]).unwrap()),
        "PYGLUE" => py_glue(args[0]),
        "PYSER" => py_ser(&parse_hex(args[0]).unwrap()),
        "PYPFX" => py_pfx(args[0].parse().unwrap(), u8::from_str_radix(args[1], 16).unwrap()),
        "PYDE" => py_de(&parse_hex(args[0]).unwrap()),
        "PYINT" => py_int(args[0]),
        "PYCURRY" => py_curry(args[0], args[1]),
        "PYUNCURRY" => py_uncurry(args[0]),
        "PYCRUN" => py_crun(args[0], args[1], args[2]),
        _ => "bad-request".into(),
    }
}

// ================================================================== generators
fn edge_ints(rng: &mut Rng) -> BigInt {
    let k = rng.below(12);
    match k {
        0 => BigInt::from(0),
        1 => BigInt::from(rng.range(-3, 3)),
        2 => BigInt::from(rng.range(-130, 130)),
        3 => BigInt::from(*rng.pick(&[127i64, 128, -128, -129, 255, 256, 32767, 32768, -32768, -32769])),
        4 => BigInt::from(*rng.pick(&[(1i64 << 26) - 1, 1 << 26, (1 << 31) - 1, 1 << 31, -(1 << 31), (1 << 32), i64::MAX, i64::MIN])),
        5 => BigInt::from(rng.next() as i64),
        6 => BigInt::from(rng.next() as i64) * BigInt::from(rng.next() as i64),
        7 => {
            let n = rng.below(40) as usize + 1;
            BigInt::from_signed_bytes_be(&rng.bytes(n))
        }
        _ => BigInt::from(rng.range(-1000, 100000)),
    }
}

fn rbytes(rng: &mut Rng, max: u64, plus: usize) -> Vec<u8> {
    let n = rng.below(max) as usize + plus;
    rng.bytes(n)
}

fn small_bytes(rng: &mut Rng) -> Vec<u8> {
    let n = match rng.below(10) {
        0 => 0,
        1 => 1,
        2 => 32,
        3 => rng.below(200) as usize,
        _ => rng.below(12) as usize,
    };
    rng.bytes(n)
}

/// value tree for environments / quoted data
pub fn gen_value(rng: &mut Rng, depth: u32) -> T {
    if depth == 0 || rng.chance(2, 5) {
        return match rng.below(5) {
            0 => int_atom(&edge_ints(rng)),
            1 => T::A(small_bytes(rng)),
            2 => nil(),
            3 => {
                // short atoms that are *not* canonical integers (redundant leading 00 / ff bytes): any
                // conversion through a number would change them
                let k = rng.below(3) as usize + 1;
                let mut b = vec![if rng.chance(3, 4) { 0u8 } else { 0xff }; k];
                let extra_ = rng.below(3) as usize;
                b.extend(rng.bytes(extra_));
                if rng.chance(1, 2) {
                    let l = b.len();
                    b[l - 1] = *rng.pick(&[0x01u8, 0x7f, 0x80, 0xff, 0x00]);
                }
                T::A(b)
            }
            _ => atom(&[rng.below(128) as u8]),
        };
    }
    if rng.chance(1, 2) {
        let n = rng.below(5) as usize;
        list((0..n).map(|_| gen_value(rng, depth - 1)).collect())
    } else {
        pair(gen_value(rng, depth - 1), gen_value(rng, depth - 1))
    }
}

fn op(code: &[u8], args: Vec<T>) -> T {
    let mut v = vec![atom(code)];
    v.extend(args);
    list(v)
}

/// a mostly type-correct expression evaluating to an atom (integer / bytes)
fn gen_atom_expr(rng: &mut Rng, depth: u32, env_len: usize) -> T {
    if depth == 0 || rng.chance(1, 4) {
        return match rng.below(6) {
            0 | 1 => quote(int_atom(&edge_ints(rng))),
            2 => quote(T::A(small_bytes(rng))),
            3 if env_len > 0 => {
                // path to the k-th element of the environment list: k times `rest` (bit 1), then
                // `first` (bit 0), then the terminating 1 bit:  (2^k - 1) + 2^(k+1)
                let k = rng.below(env_len as u64) as u32;
                let p = (BigInt::from(1) << k) - 1 + (BigInt::from(1) << (k + 1));
                int_atom(&p)
            }
            4 => quote(int_atom(&BigInt::from(rng.range(0, 40)))),
            _ => quote(int_atom(&BigInt::from(rng.range(-5, 5)))),
        };
    }
    let d = depth - 1;
    let e = |rng: &mut Rng| gen_atom_expr(rng, d, env_len);
    match rng.below(34) {
        0 | 1 | 2 => {
            let n = rng.below(4) as usize;
            op(&[16], (0..n).map(|_| e(rng)).collect())
        }
        3 | 4 => {
            let n = rng.below(4) as usize;
            op(&[17], (0..n).map(|_| e(rng)).collect())
        }
        5 | 6 => {
            let n = rng.below(4) as usize;
            op(&[18], (0..n).map(|_| e(rng)).collect())
        }
        7 => op(&[19], vec![e(rng), e(rng)]),
        8 => op(&[5], vec![op(&[20], vec![e(rng), e(rng)])]),
        9 => op(&[21], vec![e(rng), e(rng)]),
        10 => op(&[9], vec![e(rng), e(rng)]),
        11 => op(&[10], vec![e(rng), e(rng)]),
        12 => {
            let n = rng.below(4) as usize;
            op(&[11], (0..n).map(|_| e(rng)).collect())
        }
        13 => op(&[12], vec![e(rng), quote(int_atom(&BigInt::from(rng.range(0, 4)))), quote(int_atom(&BigInt::from(rng.range(0, 8))))]),
        14 => op(&[13], vec![e(rng)]),
        15 => {
            let n = rng.below(4) as usize;
            op(&[14], (0..n).map(|_| e(rng)).collect())
        }
        16 => op(&[22], vec![e(rng), quote(int_atom(&BigInt::from(rng.range(-70, 70))))]),
        17 => op(&[23], vec![e(rng), quote(int_atom(&BigInt::from(rng.range(-70, 70))))]),
        18 => {
            let n = rng.below(4) as usize;
            op(&[*rng.pick(&[24u8, 25, 26])], (0..n).map(|_| e(rng)).collect())
        }
        19 => op(&[27], vec![e(rng)]),
        20 => op(&[*rng.pick(&[32u8, 33, 34])], vec![e(rng), e(rng)]),
        21 => op(&[3], vec![e(rng), e(rng), e(rng)]),
        22 => op(&[5], vec![op(&[4], vec![e(rng), e(rng)])]),
        23 => op(&[6], vec![op(&[4], vec![e(rng), e(rng)])]),
        24 => op(&[7], vec![e(rng)]),
        // apply a quoted sub-program on a fresh environment
        25 => {
            let body = gen_atom_expr(rng, d, 2);
            op(&[2], vec![quote(body), op(&[4], vec![e(rng), op(&[4], vec![e(rng), quote(nil())])])])
        }
        // operators behind flags / hard-fork switches
        26 => op(&[63], vec![quote(gen_value(rng, 3))]),
        27 => op(&[62], vec![e(rng)]),
        28 => op(&[60], vec![e(rng), e(rng), e(rng)]),
        29 => op(&[61], vec![e(rng), e(rng)]),
        30 => op(&[48], vec![quote(T::A(rng.bytes(32))), quote(T::A(rng.bytes(32))), quote(int_atom(&BigInt::from(rng.next() >> 8)))]),
        // unknown operators (NO_UNKNOWN_OPS), reserved 0xffff prefix
        31 => {
            let code = match rng.below(4) {
                0 => vec![rng.pick(&[0x25u8, 0x40, 0x80, 0xc0, 0x3f]).to_owned()],
                1 => vec![rng.next() as u8 | 1, rng.next() as u8],
                2 => vec![0xff, 0xff, rng.next() as u8],
                _ => rng.bytes(3),
            };
            let n = rng.below(3) as usize;
            op(&code, (0..n).map(|_| e(rng)).collect())
        }
        // softfork guard: (softfork cost extension program env)
        32 => {
            let inner = gen_atom_expr(rng, d.min(1), 0);
            op(&[36], vec![quote(int_atom(&BigInt::from(rng.range(1, 3000)))), quote(int_atom(&BigInt::from(rng.range(0, 3)))), quote(inner), quote(nil())])
        }
        // raise
        _ => op(&[8], vec![e(rng)]),
    }
}

fn gen_env(rng: &mut Rng) -> (T, usize) {
    let n = rng.below(5) as usize;
    let items: Vec<T> = (0..n)
        .map(|_| if rng.chance(3, 4) { int_atom(&edge_ints(rng)) } else { T::A(small_bytes(rng)) })
        .collect();
    (list(items), n)
}

fn gen_flags(rng: &mut Rng) -> u32 {
    let defined: [u32; 13] = [0x1, 0x2, 0x4, 0x8, 0x10, 0x20, 0x40, 0x100, 0x200, 0x400, 0x800, 0x1000, 0x2000];
    match rng.below(10) {
        0 | 1 => 0,
        2 => MEMPOOL_MODE.bits(),
        3 => *rng.pick(&defined),
        4 => {
            let mut w = 0;
            for b in defined {
                if rng.chance(1, 2) {
                    w |= b;
                }
            }
            w
        }
        5 => rng.next() as u32,
        6 => 0xffff_ffff,
        7 => MEMPOOL_MODE.bits() | (rng.next() as u32 & 0xffff_c080),
        8 => 1u32 << rng.below(32),
        _ => (rng.next() as u32) & 0x3fff,
    }
}

/// the known cost of (prog, env) under `word`, if it succeeds within a generous budget
fn probe_cost(word: u32, prog: &[u8], env: &[u8]) -> Option<u64> {
    let r = py_run(word, 20_000_000, prog, env);
    let t: Vec<&str> = r.split(' ').collect();
    if t[0] == "ok" { t[1].parse().ok() } else { None }
}

fn budgets(rng: &mut Rng, word: u32, prog: &[u8], env: &[u8]) -> u64 {
    match rng.below(9) {
        0 => 0,
        1 => rng.below(200),
        2 | 3 | 4 => match probe_cost(word, prog, env) {
            Some(c) => match rng.below(4) {
                0 => c.saturating_sub(1),
                1 => c,
                2 => c + 1,
                _ => c / 2,
            },
            None => 20_000_000,
        },
        5 => u64::MAX,
        6 => 11_000_000_000,
        _ => 20_000_000,
    }
}

// ---- op-tests corpus: `op args… => result | cost`
fn optest_atom(v: &str) -> Option<T> {
    if v == "0" {
        return Some(nil());
    }
    if let Some(h) = v.strip_prefix("0x") {
        return hex::decode(h).ok().map(T::A);
    }
    if v.starts_with('"') {
        return Some(T::A(v.trim_matches('"').as_bytes().to_vec()));
    }
    if let Ok(n) = v.parse::<BigInt>() {
        return Some(int_atom(&n));
    }
    let v = v.strip_prefix('#').unwrap_or(v);
    let code: &[u8] = match v {
        "q" => &[1], "a" => &[2], "i" => &[3], "c" => &[4], "f" => &[5], "r" => &[6], "l" => &[7], "x" => &[8],
        "=" => &[9], ">s" => &[10], "sha256" => &[11], "substr" => &[12], "strlen" => &[13], "concat" => &[14],
        "+" => &[16], "-" => &[17], "*" => &[18], "/" => &[19], "divmod" => &[20], ">" => &[21], "ash" => &[22],
        "lsh" => &[23], "logand" => &[24], "logior" => &[25], "logxor" => &[26], "lognot" => &[27],
        "point_add" | "g1_add" => &[29], "pubkey_for_exp" => &[30], "not" => &[32], "any" => &[33], "all" => &[34],
        "softfork" => &[36], "coinid" => &[48], "g1_subtract" => &[49], "g1_multiply" => &[50], "g1_negate" => &[51],
        "g2_add" => &[52], "g2_subtract" => &[53], "g2_multiply" => &[54], "g2_negate" => &[55], "g1_map" => &[56],
        "g2_map" => &[57], "bls_pairing_identity" => &[58], "bls_verify" => &[59], "modpow" => &[60], "%" => &[61],
        "secp256k1_verify" => &[0x13, 0xd6, 0x1f, 0x00], "secp256r1_verify" => &[0x1c, 0x3a, 0x8f, 0x00],
        "secp256k1_verify_64" => &[64], "secp256r1_verify_65" => &[65], "keccak256" => &[62], "sha256tree" => &[63],
        "unknown" => &[0x00], "unknown_add" => &[0x40], "unknown_mul" => &[0x80], "unknown_concat" => &[0xc0],
        "unknown_x2" => &[0x01, 0x00], "unknown_add_x2" => &[0x01, 0x40], "unknown_mul_x2" => &[0x01, 0x80],
        "unknown_concat_x2" => &[0x01, 0xc0],
        _ => return None,
    };
    Some(atom(code))
}

fn optest_tokens(s: &str) -> Vec<String> {
    let mut out = vec![];
    let cs: Vec<char> = s.chars().collect();
    let mut i = 0;
    while i < cs.len() {
        let c = cs[i];
        if c.is_whitespace() {
            i += 1;
        } else if c == '(' || c == ')' {
            out.push(c.to_string());
            i += 1;
        } else if c == '"' {
            let mut j = i + 1;
            while j < cs.len() && cs[j] != '"' {
                j += 1;
            }
            out.push(cs[i..(j + 1).min(cs.len())].iter().collect());
            i = j + 1;
        } else {
            let mut j = i;
            while j < cs.len() && !cs[j].is_whitespace() && cs[j] != '(' && cs[j] != ')' {
                j += 1;
            }
            out.push(cs[i..j].iter().collect());
            i = j;
        }
    }
    out
}

/// parses a sequence of expressions up to `)` or the end; returns the items and an optional dotted tail
fn optest_seq(toks: &[String], pos: &mut usize) -> Option<(Vec<T>, Option<T>)> {
    let mut items = vec![];
    while *pos < toks.len() {
        let t = toks[*pos].as_str();
        if t == ")" {
            *pos += 1;
            return Some((items, None));
        }
        if t == "." {
            *pos += 1;
            let tail = optest_expr(toks, pos)?;
            if *pos < toks.len() && toks[*pos] == ")" {
                *pos += 1;
            }
            return Some((items, Some(tail)));
        }
        items.push(optest_expr(toks, pos)?);
    }
    Some((items, None))
}

fn optest_expr(toks: &[String], pos: &mut usize) -> Option<T> {
    let t = toks.get(*pos)?.as_str();
    *pos += 1;
    if t == "(" {
        let (items, tail) = optest_seq(toks, pos)?;
        let mut r = tail.unwrap_or_else(nil);
        for x in items.into_iter().rev() {
            r = pair(x, r);
        }
        Some(r)
    } else {
        optest_atom(t)
    }
}

/// `(op (q . a1) (q . a2) …)` for every well-formed vector line
fn optest_programs() -> Vec<T> {
    let repo = std::env::var("VERIF_REPO").unwrap_or_else(|_| "/repo".into());
    let mut files: Vec<_> = match std::fs::read_dir(format!("{repo}/op-tests")) {
        Ok(d) => d.filter_map(|e| e.ok()).map(|e| e.path()).filter(|p| p.extension().map(|x| x == "txt").unwrap_or(false)).collect(),
        Err(_) => vec![],
    };
    files.sort();
    let mut out = vec![];
    for f in files {
        let Ok(text) = std::fs::read_to_string(&f) else { continue };
        for line in text.lines() {
            let line = line.trim();
            if line.is_empty() || line.starts_with(';') {
                continue;
            }
            let Some((lhs, _)) = line.split_once("=>") else { continue };
            let toks = optest_tokens(lhs);
            if toks.is_empty() {
                continue;
            }
            let mut pos = 0;
            let Some(opatom) = optest_expr(&toks, &mut pos) else { continue };
            let Some((args, tail)) = optest_seq(&toks, &mut pos) else { continue };
            if tail.is_some() {
                continue;
            }
            let mut v = vec![opatom];
            v.extend(args.into_iter().map(quote));
            out.push(list(v));
        }
    }
    out
}

fn corpus_programs(max_hex_len: usize) -> Vec<(Vec<u8>, Vec<u8>)> {
    let repo = std::env::var("VERIF_REPO").unwrap_or_else(|_| "/repo".into());
    let mut names: Vec<_> = match std::fs::read_dir(format!("{repo}/tests/programs")) {
        Ok(d) => d.filter_map(|e| e.ok()).map(|e| e.path()).filter(|p| p.extension().map(|x| x == "hex").unwrap_or(false)).collect(),
        Err(_) => vec![],
    };
    names.sort();
    let mut out = vec![];
    for p in names {
        let Ok(h) = std::fs::read_to_string(&p) else { continue };
        let h = h.trim();
        if h.len() > max_hex_len {
            continue;
        }
        let Ok(prog) = hex::decode(h) else { continue };
        let envp = p.with_extension("envhex");
        let env = std::fs::read_to_string(&envp).ok().and_then(|s| hex::decode(s.trim()).ok()).unwrap_or_else(|| vec![0x80]);
        out.push((prog, env));
    }
    out
}

fn gen_pyrun(rng: &mut Rng, n: usize, tier: &str) -> Vec<String> {
    let mut out = vec![];
    let mut id = 0usize;
    let mut push = |out: &mut Vec<String>, w: u32, b: u64, p: &[u8], e: &[u8]| {
        out.push(format!("PYRUN r{} {:08x} {} {} {}", id, w, b, hex_or_dash(p), hex_or_dash(e)));
        id += 1;
    };
    // malformed serialisations (parse errors are raised before the run)
    for (p, e) in [(&[][..], &[0x80u8][..]), (&[0xff][..], &[0x80][..]), (&[0x01][..], &[][..]), (&[0xff, 0x01][..], &[0x80][..]),
                   (&[0xfe, 0, 0, 0, 0, 0, 1, 0x41][..], &[0x80][..]), (&[0x01][..], &[0xc0][..]), (&[0x01, 0xff][..], &[0x80, 0x01][..])] {
        push(&mut out, 0, 100, p, e);
    }
    // the allocator limit the wheel chooses under LIMIT_HEAP (500 000 000 bytes): a program whose heap use
    // ends a few bytes below / at / above that limit, with and without the flag (budget 0 = unlimited).
    // R_0 = 64 bytes, R_i = (concat R_{i-1} R_{i-1}); after R_21 the heap holds 1 + 64*(2^22 - 1) bytes;
    // a last concat of four substrings (views, no allocation) adds exactly the missing amount.
    {
        let k = 21u32;
        let mut prog = quote(T::A(vec![0x41; 64]));
        for _ in 0..k {
            prog = op(&[2], vec![quote(op(&[14], vec![atom(&[1]), atom(&[1])])), prog]);
        }
        // + 68: measured on the unchanged tree (the 4-byte strlen result and one more 64-byte copy are also
        // on the heap); with this offset delta -1 is the last run that fits and delta 0 the first that does not
        let used: i64 = 1 + 64 * ((1i64 << (k + 1)) - 1) + 68;
        let deltas: &[i64] = if tier == "thorough" { &[-2, -1, 0, 1, 2] } else { &[-1, 0] };
        for &d in deltas {
            let x = WHEEL_HEAP_LIMIT as i64 - used + d;
            let piece = x / 4;
            let sizes = [piece, piece, piece, x - 3 * piece];
            let subs: Vec<T> = sizes.iter().map(|n| op(&[12], vec![atom(&[1]), nil(), quote(int_atom(&BigInt::from(*n)))])).collect();
            let last = op(&[2], vec![quote(op(&[13], vec![op(&[14], subs)])), prog.clone()]);
            let flagsets: &[u32] = if tier == "thorough" { &[0x4, 0x0, 0xffff_fffb] } else { &[0x4] };
            for &w in flagsets {
                push(&mut out, w, 0, &wire(&last), &[0x80]);
            }
        }
    }
    // blobs in the *other* wire formats (back-references, serde_2026) and with the 0xfe marker in node
    // position, as program and as environment: run_serialized_chia_program reads the classic format only
    {
        let classic_env = [0xffu8, 0x64, 0x80];
        let others: Vec<Vec<u8>> = vec![
            vec![0xff, 0x64, 0xfe, 0x02],
            vec![0xff, 0xff, 0x01, 0x02, 0xfe, 0x02],
            vec![0xfe, 0x01],
            vec![0xff, 0x01, 0xfe, 0x02],
            vec![0xff, 0x86, 0x66, 0x6f, 0x6f, 0x62, 0x61, 0x72, 0xfe, 0x02],
            {
                let mut a = Allocator::new();
                let x = a.new_atom(b"hello world, hello world").unwrap();
                let p = a.new_pair(x, x).unwrap();
                node_to_bytes_backrefs(&a, p).unwrap()
            },
            {
                let mut a = Allocator::new();
                let x = a.new_atom(b"abc").unwrap();
                let p = a.new_pair(x, x).unwrap();
                serialize_2026(&a, p, 1).unwrap_or_default()
            },
        ];
        for o in &others {
            for w in [0u32, MEMPOOL_MODE.bits()] {
                push(&mut out, w, 0, &[0x01], o); // program `1` returns the environment
                push(&mut out, w, 0, o, &classic_env);
                push(&mut out, w, 0, &[0xff, 0x10, 0xff, 0x02, 0xff, 0x03, 0x80], o);
            }
        }
    }
    // the repository's program files
    let maxhex = if tier == "thorough" { 3_000_000 } else { 100_000 };
    for (p, e) in corpus_programs(maxhex) {
        let w = if rng.chance(1, 2) { 0 } else { gen_flags(rng) };
        // never 0 here: a zero budget means *unlimited*, and these programs recurse
        let b = *rng.pick(&[1u64, 1000, 1_000_000, 30_000_000]);
        push(&mut out, w, b, &p, &e);
    }
    // op-tests vectors
    let ops = optest_programs();
    let take = if tier == "thorough" { ops.len() } else { (n / 3).min(ops.len()) };
    for i in 0..take {
        let t = if tier == "thorough" { &ops[i] } else { &ops[rng.below(ops.len() as u64) as usize] };
        let p = wire(t);
        let w = match rng.below(4) {
            0 => 0,
            1 => 0x2000,
            2 => MEMPOOL_MODE.bits(),
            _ => gen_flags(rng),
        };
        let b = if rng.chance(1, 3) { budgets(rng, w, &p, &[0x80]) } else { 50_000_000 };
        push(&mut out, w, b, &p, &[0x80]);
    }
    // generated programs
    while out.len() < n + 7 {
        let (env, k) = gen_env(rng);
        let depth = rng.range(1, 5) as u32;
        let mut prog = if rng.chance(1, 12) { gen_value(rng, 4) } else { gen_atom_expr(rng, depth, k) };
        for _ in 0..3 {
            // avoid the trivial `(q . x)` at top level
            if matches!(&prog, T::P(l, _) if **l == atom(&[1])) {
                prog = gen_atom_expr(rng, depth.max(2), k);
            }
        }
        let (p, e) = (wire(&prog), wire(&env));
        let w = gen_flags(rng);
        let b = budgets(rng, w, &p, &e);
        push(&mut out, w, b, &p, &e);
    }
    out
}

/// trees with shared substructure (so that back-references / interning have something to find)
pub fn gen_shared_tree(rng: &mut Rng, depth: u32) -> T {
    let mut pool: Vec<T> = (0..4).map(|_| gen_value(rng, 2)).collect();
    pool.push(T::A(rng.bytes(40)));
    fn go(rng: &mut Rng, depth: u32, pool: &Vec<T>) -> T {
        if depth == 0 || rng.chance(1, 4) {
            if rng.chance(1, 2) { pool[rng.below(pool.len() as u64) as usize].clone() } else { gen_value(rng, 1) }
        } else {
            pair(go(rng, depth - 1, pool), go(rng, depth - 1, pool))
        }
    }
    go(rng, depth, &pool)
}

fn gen_pyserde(rng: &mut Rng, n: usize, _tier: &str) -> Vec<String> {
    let mut out = vec![];
    let sers = ["legacy", "backrefs", "2026:0", "2026:1", "2026:4294967295", "view"];
    let mut id = 0usize;
    let mut push = |out: &mut Vec<String>, d: &str, s: &str, b: &[u8]| {
        out.push(format!("PYSERDE s{} {} {} {}", id, d, s, hex_or_dash(b)));
        id += 1;
    };
    // fixed: the keyword limits must reach the decoder on every path that accepts them (direct calls and
    // the pure-Python wrapper, explicit "2026" and "auto")
    {
        let mut a = Allocator::new();
        let x = a.new_atom(b"hello").unwrap();
        let y = a.new_atom(b"world").unwrap();
        let p = a.new_pair(x, y).unwrap();
        let blob = serialize_2026(&a, p, 0).unwrap();
        let classic = node_to_bytes(&a, p).unwrap();
        // the same blob with its first varint written in the two-byte (overlong) form: accepted in lenient
        // mode only; every entry point's *default* is strict
        if blob.len() > 7 && blob[6] < 0x40 {
            let mut over = blob[..6].to_vec();
            over.extend_from_slice(&[0x80, blob[6]]);
            over.extend_from_slice(&blob[7..]);
            for pre in ["", "api:"] {
                for d in ["auto", "2026", "auto:1048576:0", "auto:1048576:1", "2026:1048576:0"] {
                    push(&mut out, &format!("{pre}{d}"), "view", &over);
                }
            }
        }
        for pre in ["", "api:"] {
            for fmt in ["auto", "2026"] {
                for cap in [0usize, 4, 5, 6, 1 << 20] {
                    for strict in [0, 1] {
                        push(&mut out, &format!("{pre}{fmt}:{cap}:{strict}"), "view", &blob);
                    }
                }
                push(&mut out, &format!("{pre}{fmt}"), "view", &blob);
            }
            push(&mut out, &format!("{pre}auto:4:1"), "view", &classic);
        }
    }
    // fixed: empty / truncated / magic-only inputs through every decoder
    let magic = SERDE_2026_MAGIC_PREFIX.to_vec();
    let mut fixed: Vec<Vec<u8>> = vec![vec![], vec![0x80], vec![0xff], vec![0xfe], vec![0xfe, 0x01], magic.clone(), magic[..5].to_vec(),
                                       vec![0xfd, 0xff, 0x32], vec![0xfe, 0, 0, 0, 0, 0, 1, 0x41], vec![0xfc, 0, 0, 0, 0, 1, 0x41]];
    let mut m1 = magic.clone();
    m1.extend_from_slice(&[0x80]);
    fixed.push(m1);
    for b in &fixed {
        for d in ["legacy", "backrefs", "2026", "auto", "2026:8:0", "auto:8:0"] {
            push(&mut out, d, "view", b);
        }
    }
    while out.len() < n + fixed.len() * 6 {
        let depth = rng.range(0, 7) as u32;
        let t = if rng.chance(1, 2) { gen_shared_tree(rng, depth) } else { gen_value(rng, depth.min(5)) };
        let mut a = Allocator::new();
        let node = to_node(&mut a, &t);
        // an encoding of the tree in one of the three formats …
        let (blob, natural): (Vec<u8>, &str) = match rng.below(3) {
            0 => (node_to_bytes(&a, node).unwrap_or_default(), "legacy"),
            1 => (node_to_bytes_backrefs(&a, node).unwrap_or_default(), "backrefs"),
            _ => (serialize_2026(&a, node, 0).unwrap_or_default(), "2026"),
        };
        let mut blob = blob;
        // … sometimes damaged
        match rng.below(10) {
            0 if !blob.is_empty() => {
                let i = rng.below(blob.len() as u64) as usize;
                blob[i] ^= 1 << rng.below(8);
            }
            1 if !blob.is_empty() => blob.truncate(rng.below(blob.len() as u64) as usize),
            2 => blob.extend(rbytes(rng, 3, 1)),
            _ => {}
        }
        // … through the matching decoder, `auto`, or a mismatching one
        let d = match rng.below(8) {
            0 | 1 | 2 => natural.to_string(),
            3 | 4 => "auto".to_string(),
            5 => format!("{}:{}:{}", if rng.chance(1, 2) { "auto" } else { "2026" }, *rng.pick(&[0usize, 1, 8, 40, 1 << 20]), rng.below(2)),
            _ => rng.pick(&["legacy", "backrefs", "2026", "auto"]).to_string(),
        };
        let s = *rng.pick(&sers);
        // a third of the requests go through the pure-Python wrappers clvm_rs.serde.{deserialize, serialize}
        let (d, s) = if rng.chance(1, 3) {
            (format!("api:{}", d), if s == "view" { s.to_string() } else { format!("api:{}", s) })
        } else {
            (d, s.to_string())
        };
        push(&mut out, &d, &s, &blob);
    }
    out
}

fn gen_pyglue(rng: &mut Rng, n: usize, _tier: &str) -> Vec<String> {
    let mut out = vec![];
    let mut id = 0usize;
    let mut push = |out: &mut Vec<String>, s: String| {
        out.push(format!("PYGLUE g{} {}", id, s));
        id += 1;
    };
    for b in 0..32 {
        push(&mut out, format!("flags:{:08x}", 1u32 << b));
        push(&mut out, format!("flags:{:08x}", !(1u32 << b)));
    }
    push(&mut out, "flags:00000000".into());
    push(&mut out, "flags:ffffffff".into());
    push(&mut out, format!("flags:{:08x}", MEMPOOL_MODE.bits()));
    for k in UNIT_KINDS.iter().chain(NODE_KINDS.iter()) {
        push(&mut out, format!("msg:{}", k));
    }
    let magic = SERDE_2026_MAGIC_PREFIX.to_vec();
    // every prefix of the magic, the magic with one byte changed, magic + body
    for l in 0..=magic.len() {
        push(&mut out, format!("auto:{}", hex_or_dash(&magic[..l])));
        push(&mut out, format!("e2026:{}:SerializationError", hex_or_dash(&magic[..l])));
    }
    for i in 0..magic.len() {
        let mut m = magic.clone();
        m[i] ^= 1 << rng.below(8);
        m.extend(rng.bytes(2));
        push(&mut out, format!("auto:{}", hex::encode(&m)));
        push(&mut out, format!("e2026:{}:SerializationError", hex::encode(&m)));
    }
    for _ in 0..n {
        match rng.below(3) {
            0 => push(&mut out, format!("flags:{:08x}", gen_flags(rng))),
            1 => {
                let mut b = if rng.chance(1, 2) { magic.clone() } else { rbytes(rng, 8, 0) };
                b.extend(rbytes(rng, 6, 0));
                push(&mut out, format!("auto:{}", hex_or_dash(&b)));
            }
            _ => {
                let mut b = if rng.chance(1, 2) { magic.clone() } else { rbytes(rng, 8, 0) };
                b.extend(rbytes(rng, 6, 0));
                let k = *rng.pick(&UNIT_KINDS);
                push(&mut out, format!("e2026:{}:{}", hex_or_dash(&b), k));
            }
        }
    }
    out
}

// ---- C28 generators
/// does the *Python* reader (`_atom_from_stream`) reach a size prefix of 7 bytes (first byte 0xfe)
/// with the six following bytes present, before anything else goes wrong?  (The inputs on which the
/// readers disagreed before the repair of finding H.)
pub fn reaches_7byte_prefix(b: &[u8]) -> bool {
    let mut pos = 0usize;
    let mut todo = 1usize; // number of objects still to read
    while todo > 0 {
        if pos >= b.len() {
            return false;
        }
        let x = b[pos];
        pos += 1;
        if x == 0xff {
            todo += 1; // one object replaced by two
            continue;
        }
        todo -= 1;
        if x <= 0x7f || x == 0x80 {
            continue;
        }
        let k = x.leading_ones() as usize; // 1..=7
        if k == 7 {
            return b.len() - pos >= 6;
        }
        if b.len() - pos < k - 1 {
            return false;
        }
        let mut size: u64 = (x & (0xffu8 >> k)) as u64;
        for i in 0..k - 1 {
            size = (size << 8) | b[pos + i] as u64;
        }
        pos += k - 1;
        if size >= 0x400000000 || ((b.len() - pos) as u64) < size {
            return false;
        }
        pos += size as usize;
    }
    false
}


fn size_prefix(k: usize, size: u64) -> Vec<u8> {
    // a k-byte size prefix (k leading ones) holding `size`, whether or not it is the shortest
    let mut v = vec![0u8; k];
    for i in 0..k {
        v[k - 1 - i] = (size >> (8 * i)) as u8;
    }
    let lead: u8 = if k >= 8 { 0xff } else { !(0xffu8 >> k) };
    v[0] = (v[0] & (0xffu8.checked_shr(k as u32).unwrap_or(0))) | lead;
    v
}

fn gen_pyde(rng: &mut Rng, n: usize, tier: &str) -> Vec<String> {
    let mut out = vec![];
    let mut id = 0usize;
    let mut push = |out: &mut Vec<String>, b: &[u8]| {
        // inputs that reach a 7-byte size prefix (former finding H, repaired by /repo 61f724c) are marked
        // in the id for the input distribution only; a disagreement on them is a plain failure
        let tag = if reaches_7byte_prefix(b) { "d7_" } else { "d" };
        out.push(format!("PYDE {}{} {}", tag, id, hex_or_dash(b)));
        id += 1;
    };
    // exhaustive short inputs
    let maxlen = if tier == "thorough" { 3 } else { 2 };
    push(&mut out, &[]);
    for len in 1..=maxlen {
        for x in 0..(1u64 << (8 * len)) {
            let b: Vec<u8> = (0..len).rev().map(|i| (x >> (8 * i)) as u8).collect();
            if len == 3 && b[0] < 0x80 {
                // a one-byte atom followed by two unread bytes: covered by the 1- and 2-byte inputs
                continue;
            }
            push(&mut out, &b);
        }
    }
    // structured: every prefix length 1..=7 (and the 8-ones byte 0xff), sizes at the class boundaries,
    // body complete / one byte short / one byte long, alone and inside a pair
    let bounds: [u64; 14] = [0, 1, 0x3f, 0x40, 0x41, 0x1fff, 0x2000, 0xfffff, 0x100000, 0x7ffffff, 0x8000000, 0x3ffffffff, 0x400000000, 0xffffffffffff];
    for k in 1..=7usize {
        for &size in &bounds {
            let avail = if k == 7 { 48 } else { 7 * k };
            if size >> avail != 0 {
                continue; // does not fit in the k-byte prefix
            }
            let pre = size_prefix(k, size);
            // header only, truncated header
            push(&mut out, &pre);
            if k > 1 {
                push(&mut out, &pre[..k - 1]);
            }
            if size <= 0x2001 {
                for delta in [-1i64, 0, 1] {
                    let body = (size as i64 + delta).max(0) as usize;
                    let mut b = pre.clone();
                    b.extend(std::iter::repeat(0x41).take(body));
                    push(&mut out, &b);
                    let mut p = vec![0xff];
                    p.extend(&b);
                    p.push(0x80);
                    push(&mut out, &p);
                    let mut p = vec![0xff, 0x01];
                    p.extend(&b);
                    push(&mut out, &p);
                }
            }
        }
    }
    // the documented example of finding H and its 6-byte neighbour
    push(&mut out, &[0xfe, 0, 0, 0, 0, 0, 1, 0x41]);
    push(&mut out, &[0xfc, 0, 0, 0, 0, 1, 0x41]);
    push(&mut out, &[0xfe, 0, 0, 0, 0, 0, 0]);
    push(&mut out, &[0xfc, 0, 0, 0, 0, 0]);
    // random: valid serialisations, damaged, with trailing bytes, random bytes
    for _ in 0..n {
        let mut b = match rng.below(5) {
            0 => rbytes(rng, 12, 0),
            _ => {
                let d = rng.range(0, 5) as u32;
                wire(&gen_value(rng, d))
            }
        };
        match rng.below(8) {
            0 if !b.is_empty() => {
                let i = rng.below(b.len() as u64) as usize;
                b[i] = *rng.pick(&[0xffu8, 0xfe, 0xfc, 0xf8, 0xf0, 0xe0, 0xc0, 0x80, 0x00]);
            }
            1 if !b.is_empty() => b.truncate(rng.below(b.len() as u64) as usize),
            2 => b.extend(rbytes(rng, 4, 1)),
            3 => {
                // a non-minimal but legal longer prefix for a short atom
                let k = rng.range(2, 7) as usize;
                let size = rng.below(5);
                let mut x = size_prefix(k, size);
                x.extend(rng.bytes(size as usize));
                b = if rng.chance(1, 2) { x } else { let mut p = vec![0xff]; p.extend(&x); p.extend(&b); p };
            }
            _ => {}
        }
        push(&mut out, &b);
    }
    out
}

fn gen_pyser(rng: &mut Rng, n: usize, tier: &str) -> Vec<String> {
    let mut out = vec![];
    let mut id = 0usize;
    // atoms at the prefix-class boundaries (bodies materialised: lengths up to 2^20 only; beyond: PYPFX)
    let mut lens: Vec<usize> = vec![0, 1, 2, 0x3f, 0x40, 0x41, 0x1fff, 0x2000, 0x2001];
    if tier == "thorough" {
        lens.extend([0xfffff, 0x100000, 0x100001]);
    }
    for l in lens {
        for first in [0x00u8, 0x7f, 0x80, 0xff] {
            let mut b = vec![0x55u8; l];
            if l > 0 {
                b[0] = first;
            }
            out.push(format!("PYSER t{} {}", id, hex::encode(wire(&T::A(b.clone())))));
            id += 1;
            if l <= 0x41 {
                out.push(format!("PYSER t{} {}", id, hex::encode(wire(&pair(T::A(b.clone()), T::A(b))))));
                id += 1;
            }
        }
    }
    for b in 0..=255u8 {
        out.push(format!("PYSER t{} {}", id, hex::encode(wire(&atom(&[b])))));
        id += 1;
    }
    for _ in 0..n {
        let d = rng.range(0, 6) as u32;
        let t = if rng.chance(1, 3) { gen_shared_tree(rng, d) } else { gen_value(rng, d) };
        out.push(format!("PYSER t{} {}", id, hex::encode(wire(&t))));
        id += 1;
    }
    // length-only prefix queries, up to and beyond the format's 2^34 limit
    for l in [0u64, 1, 0x3f, 0x40, 0x1fff, 0x2000, 0xfffff, 0x100000, 0x7ffffff, 0x8000000, 0x8000001, 0x3ffffffff, 0x400000000, 0x400000001] {
        if l > 0x8000001 && tier != "thorough" {
            // 16 GiB of lazily mapped zero pages: thorough tier only
            continue;
        }
        for first in [0x00u8, 0x7f, 0x80] {
            out.push(format!("PYPFX p{} {} {:02x}", id, l, first));
            id += 1;
        }
    }
    out
}

fn gen_pyint(rng: &mut Rng, n: usize, tier: &str) -> Vec<String> {
    let mut out = vec![];
    let mut id = 0usize;
    let mut vals: Vec<BigInt> = vec![];
    for k in 0..=130u32 {
        let p = BigInt::from(1) << k;
        for d in [-1i32, 0, 1] {
            vals.push(&p + d);
            vals.push(-&p + d);
        }
    }
    for v in -300i32..=300 {
        vals.push(BigInt::from(v));
    }
    for _ in 0..n {
        vals.push(edge_ints(rng));
    }
    for v in vals {
        out.push(format!("PYINT i{} to:{}", id, v));
        id += 1;
    }
    // all byte strings of ≤ 2 bytes (quick) / and a sample of 3 bytes
    out.push(format!("PYINT i{} from:-", id));
    id += 1;
    for x in 0..=0xffu32 {
        out.push(format!("PYINT i{} from:{:02x}", id, x));
        id += 1;
    }
    for x in 0..=0xffffu32 {
        if tier == "thorough" || x % 7 == 0 || x < 0x200 || x >= 0xfe00 || (0x7f00..0x8100).contains(&x) {
            out.push(format!("PYINT i{} from:{:04x}", id, x));
            id += 1;
        }
    }
    for _ in 0..n {
        let b = match rng.below(3) {
            0 => {
                let mut b = vec![*rng.pick(&[0u8, 0xff]); rng.below(4) as usize];
                b.extend(rbytes(rng, 4, 0));
                b
            }
            _ => rbytes(rng, 40, 0),
        };
        out.push(format!("PYINT i{} from:{}", id, hex_or_dash(&b)));
        id += 1;
    }
    out
}

fn gen_module(rng: &mut Rng) -> (T, usize) {
    // a module that uses its arguments: sums / concatenates a few environment paths
    let k = rng.below(4) as usize + 1;
    let d = rng.range(1, 3) as u32;
    (gen_atom_expr(rng, d, k), k)
}

fn gen_pycurry(rng: &mut Rng, n: usize, _tier: &str) -> Vec<String> {
    let mut out = vec![];
    for i in 0..n {
        let (m, k) = gen_module(rng);
        let m = if rng.chance(1, 6) { gen_value(rng, 3) } else { m };
        let nargs = rng.below(k as u64 + 1) as usize;
        let args: Vec<T> = (0..nargs).map(|_| if rng.chance(3, 4) { int_atom(&edge_ints(rng)) } else { gen_value(rng, 2) }).collect();
        let al = list(args.clone());
        match i % 3 {
            0 => out.push(format!("PYCURRY c{} {} {}", i, hex::encode(wire(&m)), hex::encode(wire(&al)))),
            1 => {
                // uncurry: a curried program, a damaged one, or an arbitrary tree
                let p = match rng.below(4) {
                    0 => gen_value(rng, 4),
                    1 => {
                        let c = curry_spec(&m, &args);
                        damage(rng, &c)
                    }
                    _ => curry_spec(&m, &args),
                };
                out.push(format!("PYUNCURRY c{} {}", i, hex::encode(wire(&p))));
            }
            _ => {
                let rest: Vec<T> = (0..(k - nargs)).map(|_| int_atom(&edge_ints(rng))).collect();
                out.push(format!("PYCRUN c{} {} {} {}", i, hex::encode(wire(&m)), hex::encode(wire(&al)), hex::encode(wire(&list(rest)))));
            }
        }
    }
    out
}

/// replace one random node of the tree by a small different value
fn damage(rng: &mut Rng, t: &T) -> T {
    match t {
        T::P(l, r) if rng.chance(3, 4) => {
            if rng.chance(1, 2) { pair(damage(rng, l), (**r).clone()) } else { pair((**l).clone(), damage(rng, r)) }
        }
        _ => match rng.below(4) {
            0 => nil(),
            1 => atom(&[rng.below(6) as u8]),
            2 => pair(t.clone(), nil()),
            _ => atom(&[1]),
        },
    }
}

pub fn generate(name: &str, rng: &mut Rng, n: usize, tier: &str) -> Vec<String> {
    match name {
        "pyrun" => gen_pyrun(rng, n, tier),
        "pyserde" => gen_pyserde(rng, n, tier),
        "pyglue" => gen_pyglue(rng, n, tier),
        "pyde" => gen_pyde(rng, n, tier),
        "pyser" => gen_pyser(rng, n, tier),
        "pyint" => gen_pyint(rng, n, tier),
        "pycurry" => gen_pycurry(rng, n, tier),
        "pytrees" => gen_trees(rng, n, tier),
        _ => panic!("unknown stream {name}"),
    }
}

/// trees for the C27 oracle of pyharness (one hex per line); kept here so that every random
/// choice of the Python side also derives from the harness PRNG
pub fn gen_trees(rng: &mut Rng, n: usize, _tier: &str) -> Vec<String> {
    let mut out = vec![];
    // near-twin atoms in one tree: same length and equal except for one byte (the last, the first, the
    // middle one), or one a prefix of the other — at the lengths where keys, hashes and inline buffers
    // change size. De-duplicating maps must tell them apart.
    {
        let mut k = 0;
        for len in [1usize, 2, 3, 4, 5, 8, 15, 16, 17, 31, 32, 33, 47, 48, 49, 63, 64, 65, 96, 255, 256, 257] {
            let base = rng.bytes(len);
            for which in 0..4 {
                let mut twin = base.clone();
                match which {
                    0 => twin[len - 1] ^= 0x01,
                    1 => twin[0] ^= 0x80,
                    2 => twin[len / 2] ^= 0x10,
                    _ => twin.push(base[len - 1]),
                }
                let shorter = base[..len - 1].to_vec();
                let t = list(vec![T::A(base.clone()), T::A(twin.clone()), T::P(Box::new(T::A(twin)), Box::new(T::A(base.clone()))), T::A(shorter), T::A(base.clone())]);
                out.push(format!("TREE w{} {}", k, hex::encode(wire(&t))));
                k += 1;
            }
        }
    }
    for i in 0..n {
        let depth = (i % 9) as u32;
        let t = match rng.below(3) {
            0 => gen_shared_tree(rng, depth),
            1 => gen_value(rng, depth.min(6)),
            _ => {
                // long right spine (a list) of small atoms: many sibling objects
                let k = rng.below(30) as usize;
                list((0..k).map(|_| gen_value(rng, 1)).collect())
            }
        };
        out.push(format!("TREE x{} {}", i, hex::encode(wire(&t))));
    }
    out
}
