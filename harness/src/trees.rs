//! Plain trees for the harness: random generation, an independent classic encoder (wire form),
//! building into an `Allocator` and reading back.
use crate::rng::Rng;
use clvmr::allocator::{Allocator, NodePtr, SExp};

#[derive(Clone, Debug, PartialEq, Eq, Hash)]
pub enum T {
    Atom(Vec<u8>),
    Pair(Box<T>, Box<T>),
}

impl T {
    pub fn nil() -> T {
        T::Atom(vec![])
    }
    pub fn pair(l: T, r: T) -> T {
        T::Pair(Box::new(l), Box::new(r))
    }
    pub fn list(items: Vec<T>) -> T {
        let mut r = T::nil();
        for i in items.into_iter().rev() {
            r = T::pair(i, r);
        }
        r
    }
    pub fn nodes(&self) -> usize {
        let mut n = 0;
        let mut st = vec![self];
        while let Some(t) = st.pop() {
            n += 1;
            if let T::Pair(l, r) = t {
                st.push(l);
                st.push(r);
            }
        }
        n
    }
}

pub fn wire_prefix(b: &[u8], out: &mut Vec<u8>) {
    let n = b.len() as u64;
    if n == 0 {
        out.push(0x80);
    } else if n == 1 && b[0] < 0x80 {
    } else if n < 0x40 {
        out.push(0x80 + n as u8);
    } else if n < 0x2000 {
        out.extend_from_slice(&[0xc0 + (n >> 8) as u8, n as u8]);
    } else if n < 0x100000 {
        out.extend_from_slice(&[0xe0 + (n >> 16) as u8, (n >> 8) as u8, n as u8]);
    } else if n < 0x8000000 {
        out.extend_from_slice(&[0xf0 + (n >> 24) as u8, (n >> 16) as u8, (n >> 8) as u8, n as u8]);
    } else {
        out.extend_from_slice(&[0xf8 + (n >> 32) as u8, (n >> 24) as u8, (n >> 16) as u8, (n >> 8) as u8, n as u8]);
    }
}

/// wire form = classic serialization, written here independently of clvmr
pub fn encode(t: &T) -> Vec<u8> {
    let mut out = Vec::new();
    let mut st = vec![t];
    while let Some(t) = st.pop() {
        match t {
            T::Atom(b) => {
                wire_prefix(b, &mut out);
                out.extend_from_slice(b);
            }
            T::Pair(l, r) => {
                out.push(0xff);
                st.push(r);
                st.push(l);
            }
        }
    }
    out
}

pub fn to_hex(t: &T) -> String {
    hex::encode(encode(t))
}

/// independent wire decoder (iterative)
pub fn decode(b: &[u8]) -> Option<T> {
    let mut pos = 0usize;
    let mut ops: Vec<bool> = vec![false];
    let mut vals: Vec<T> = vec![];
    while let Some(op) = ops.pop() {
        if op {
            let r = vals.pop()?;
            let l = vals.pop()?;
            vals.push(T::pair(l, r));
            continue;
        }
        let f = *b.get(pos)?;
        pos += 1;
        if f == 0xff {
            ops.push(true);
            ops.push(false);
            ops.push(false);
        } else if f < 0x80 {
            vals.push(T::Atom(vec![f]));
        } else {
            let k = (f.leading_ones() - 1) as usize;
            if k > 5 {
                return None;
            }
            let mut len = (f & (0xffu8 >> (k + 1))) as u64;
            for _ in 0..k {
                len = (len << 8) | *b.get(pos)? as u64;
                pos += 1;
            }
            let len = len as usize;
            if b.len() < pos + len {
                return None;
            }
            vals.push(T::Atom(b[pos..pos + len].to_vec()));
            pos += len;
        }
    }
    if pos != b.len() || vals.len() != 1 {
        return None;
    }
    vals.pop()
}

pub fn from_hex(s: &str) -> Option<T> {
    decode(&crate::util::parse_hex(s)?)
}

pub fn build(a: &mut Allocator, t: &T) -> clvmr::error::Result<NodePtr> {
    // iterative post-order
    enum Op<'a> {
        Visit(&'a T),
        Cons,
    }
    let mut ops = vec![Op::Visit(t)];
    let mut vals: Vec<NodePtr> = vec![];
    while let Some(op) = ops.pop() {
        match op {
            Op::Visit(T::Atom(b)) => vals.push(a.new_atom(b)?),
            Op::Visit(T::Pair(l, r)) => {
                ops.push(Op::Cons);
                ops.push(Op::Visit(r));
                ops.push(Op::Visit(l));
            }
            Op::Cons => {
                let r = vals.pop().unwrap();
                let l = vals.pop().unwrap();
                vals.push(a.new_pair(l, r)?);
            }
        }
    }
    Ok(vals.pop().unwrap())
}

pub fn from_node(a: &Allocator, n: NodePtr) -> T {
    enum Op {
        Visit(NodePtr),
        Cons,
    }
    let mut ops = vec![Op::Visit(n)];
    let mut vals: Vec<T> = vec![];
    while let Some(op) = ops.pop() {
        match op {
            Op::Visit(n) => match a.sexp(n) {
                SExp::Atom => vals.push(T::Atom(a.atom(n).as_ref().to_vec())),
                SExp::Pair(l, r) => {
                    ops.push(Op::Cons);
                    ops.push(Op::Visit(r));
                    ops.push(Op::Visit(l));
                }
            },
            Op::Cons => {
                let r = vals.pop().unwrap();
                let l = vals.pop().unwrap();
                vals.push(T::pair(l, r));
            }
        }
    }
    vals.pop().unwrap()
}

/// atoms biased to the interesting classes: empty, single byte < 0x80 / ≥ 0x80, small canonical
/// integers, non-canonical integers, lengths at the prefix boundaries, a small pool for repetition
pub fn random_atom(rng: &mut Rng, max_len: usize) -> Vec<u8> {
    match rng.below(12) {
        0 => vec![],
        1 => vec![rng.below(0x80) as u8],
        2 => vec![0x80 + rng.below(0x80) as u8],
        3 => {
            let v = rng.below(1 << 27) as u32;
            let b = v.to_be_bytes();
            let skip = b.iter().take_while(|x| **x == 0).count();
            let mut r = b[skip..].to_vec();
            if !r.is_empty() && r[0] & 0x80 != 0 {
                r.insert(0, 0);
            }
            r
        }
        4 => {
            // non-canonical: redundant leading 0x00 / 0xff
            let mut r = vec![if rng.chance(1, 2) { 0 } else { 0xff }; rng.below(3) as usize + 1];
            let k = rng.below(4) as usize;
            r.extend(rng.bytes(k));
            r
        }
        5 => {
            let l = *rng.pick(&[0x3e, 0x3f, 0x40, 0x41, 31, 32, 33, 48, 96]);
            rng.bytes(l.min(max_len.max(1)))
        }
        6 => vec![b'a' + rng.below(3) as u8; rng.below(4) as usize + 1],
        _ => {
            let l = rng.below(max_len as u64 + 1) as usize;
            let cap = if rng.chance(3, 4) { 8 } else { max_len };
            rng.bytes(l.min(cap))
        }
    }
}

pub fn random_tree(rng: &mut Rng, max_nodes: usize, max_atom: usize) -> T {
    fn go(rng: &mut Rng, budget: &mut usize, depth: usize, max_atom: usize, pool: &mut Vec<T>) -> T {
        if *budget == 0 || depth > 60 || rng.chance(2, 5) {
            if !pool.is_empty() && rng.chance(1, 4) {
                return rng.pick(pool).clone();
            }
            return T::Atom(random_atom(rng, max_atom));
        }
        *budget = budget.saturating_sub(1);
        if !pool.is_empty() && rng.chance(1, 6) {
            return rng.pick(pool).clone();
        }
        let l = go(rng, budget, depth + 1, max_atom, pool);
        let r = go(rng, budget, depth + 1, max_atom, pool);
        let t = T::pair(l, r);
        if pool.len() < 8 && rng.chance(1, 3) {
            pool.push(t.clone());
        }
        t
    }
    let mut budget = rng.below(max_nodes as u64 + 1) as usize;
    let mut pool = vec![];
    let style = rng.below(10);
    if style == 0 {
        // long proper list
        let n = rng.below(max_nodes as u64 / 2 + 1) as usize;
        return T::list((0..n).map(|_| T::Atom(random_atom(rng, max_atom))).collect());
    }
    if style == 1 {
        // left spine
        let mut t = T::Atom(random_atom(rng, max_atom));
        for _ in 0..rng.below(max_nodes as u64 / 2 + 1) {
            t = T::pair(t, T::Atom(random_atom(rng, max_atom)));
        }
        return t;
    }
    go(rng, &mut budget, 0, max_atom, &mut pool)
}
