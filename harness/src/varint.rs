//! C21: varints of serde_2026.
use crate::rng::Rng;
use crate::util::*;
use clvmr::serde_2026::{read_varint, write_varint};
use std::io::Cursor;

pub fn run(args: &[&str]) -> String {
    let parts: Vec<&str> = args[0].split(':').collect();
    match parts[0] {
        "w" => {
            let v: i64 = parts[1].parse().unwrap();
            let mut buf = Vec::new();
            write_varint(&mut buf, v).unwrap();
            format!("ok {}", hex::encode(buf))
        }
        "r" => {
            let b = parse_hex(parts[1]).unwrap();
            let strict = parts[2] == "1";
            let mut c = Cursor::new(&b[..]);
            match read_varint(&mut c, strict) {
                Ok(v) => format!("ok {} {}", v, c.position()),
                Err(e) => fmt_err(&e),
            }
        }
        _ => "bad-request".into(),
    }
}

fn boundary_values() -> Vec<i64> {
    let mut v = vec![0, 1, -1];
    for k in 0..8 {
        let bits = 7 + 7 * k;
        let hi = 1i64 << (bits - 1);
        for d in [-2i64, -1, 0, 1] {
            v.push(hi + d);
            v.push(-hi + d);
        }
    }
    v
}

pub fn generate(rng: &mut Rng, n: usize, tier: &str) -> Vec<String> {
    let mut out = Vec::new();
    let mut id = 0;
    let mut push = |s: String| {
        out.push(format!("VARINT v{} {}", id, s));
        id += 1;
    };
    for v in boundary_values() {
        push(format!("w:{}", v));
    }
    // exhaustive short encodings
    let maxlen = if tier == "thorough" { 3 } else { 2 };
    for len in 1..=maxlen {
        let total = 1u64 << (8 * len);
        for x in 0..total {
            let b: Vec<u8> = (0..len).rev().map(|i| (x >> (8 * i)) as u8).collect();
            push(format!("r:{}:0", hex::encode(&b)));
            push(format!("r:{}:1", hex::encode(&b)));
        }
    }
    for _ in 0..n {
        // values of every size class
        let bits = rng.range(1, 56) as u32;
        let mag = (rng.next() & ((1u64 << bits) - 1)) as i64;
        let v = if rng.chance(1, 2) { mag } else { -mag };
        if rng.chance(1, 3) {
            push(format!("w:{}", v));
        } else {
            // a (possibly over-long) encoding followed by trailing bytes, possibly truncated
            let k = rng.below(8) as usize;
            let mut b = rng.bytes(k + 1);
            let pre = if k == 0 { 0u8 } else { ((1u16 << k) - 1) as u8 }.wrapping_shl(8 - k as u32);
            let pre = if k == 0 { 0 } else { pre };
            b[0] = pre | (b[0] & (if k >= 7 { 0 } else { (1u8 << (7 - k)) - 1 }));
            if rng.chance(1, 2) {
                // sign-extension-heavy payloads so that over-long encodings of small values occur
                let fill = if rng.chance(1, 2) { 0x00 } else { 0xff };
                let keep = rng.below(k as u64 + 1) as usize;
                for j in 0..(k + 1 - keep).min(k + 1) {
                    if j == 0 {
                        let m = if k >= 7 { 0 } else { (1u8 << (7 - k)) - 1 };
                        b[0] = pre | (fill & m);
                    } else {
                        b[j] = fill;
                    }
                }
            }
            let extra = rng.below(3) as usize;
            b.extend(rng.bytes(extra));
            if rng.chance(1, 10) && b.len() > 1 {
                b.truncate(rng.below(b.len() as u64) as usize + 1);
            }
            push(format!("r:{}:{}", hex::encode(&b), rng.below(2)));
        }
    }
    out
}

/// direct oracle on the implementation alone (the statement of C21)
pub fn oracle(rng: &mut Rng, n: usize, _tier: &str) -> OracleReport {
    let mut rep = OracleReport::default();
    let mut vals = boundary_values();
    vals.retain(|v| *v >= -(1i64 << 55) && *v < (1i64 << 55));
    for _ in 0..n {
        let bits = rng.range(1, 55) as u32;
        let mag = (rng.next() & ((1u64 << bits) - 1)) as i64;
        vals.push(if rng.chance(1, 2) { mag } else { -mag });
    }
    let mut seen = std::collections::HashSet::new();
    for v in vals {
        rep.evaluations += 1;
        if seen.insert(v) {
            rep.nontrivial += 1;
        }
        let r = std::panic::catch_unwind(|| {
            let mut buf = Vec::new();
            write_varint(&mut buf, v).unwrap();
            buf
        });
        let Ok(buf) = r else {
            rep.fail("write_total", format!("write_varint({v}) panicked for an in-range value"));
            continue;
        };
        rep.hit(&format!("len{}", buf.len()));
        rep.sample(format!("{} -> {}", v, hex::encode(&buf)));
        for strict in [true, false] {
            let mut tail = buf.clone();
            tail.extend_from_slice(&[0xaa, 0x55]);
            let mut c = Cursor::new(&tail[..]);
            match read_varint(&mut c, strict) {
                Ok(v2) if v2 == v && c.position() as usize == buf.len() => {}
                other => rep.fail(
                    "read_write",
                    format!("v={v} enc={} strict={strict} read={:?} pos={}", hex::encode(&buf), other.map_err(|e| err_kind(&e)), c.position()),
                ),
            }
        }
        // shortest: no strictly shorter byte string of the same prefix class decodes to v;
        // and every longer sign-extended encoding is rejected in strict mode, accepted leniently.
        let k0 = buf.len() - 1;
        for k in 0..8usize {
            let bits = 7 + 7 * k as u32;
            let fits = v >= -(1i64 << (bits - 1)) && v < (1i64 << (bits - 1));
            if !fits {
                if k >= k0 {
                    rep.fail("shortest", format!("v={v} chose k={k0} but does not fit k={k}"));
                }
                continue;
            }
            if k < k0 {
                rep.fail("shortest", format!("v={v} fits k={k} but encoder chose k={k0}"));
            }
            // build the k-leading-ones encoding by hand
            let u = (v as i128 & ((1i128 << bits) - 1)) as u64;
            let mut b = vec![0u8; k + 1];
            for i in 0..=k {
                b[k - i] = (u >> (8 * i)) as u8;
            }
            let pre: u8 = if k == 0 { 0 } else { (((1u16 << k) - 1) << (8 - k)) as u8 };
            b[0] |= pre;
            let mut c = Cursor::new(&b[..]);
            match read_varint(&mut c, false) {
                Ok(v2) if v2 == v => {}
                other => rep.fail("lenient_denotes", format!("v={v} enc={} read={:?}", hex::encode(&b), other.map_err(|e| err_kind(&e)))),
            }
            let mut c = Cursor::new(&b[..]);
            let rs = read_varint(&mut c, true);
            if (k == k0) != rs.is_ok() {
                rep.fail("strict_iff_shortest", format!("v={v} enc={} k={k} k0={k0} strict ok={}", hex::encode(&b), rs.is_ok()));
            }
        }
    }
    rep
}
