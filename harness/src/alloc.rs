//! C12–C14 (+ allocator level of C04): `clvmr::allocator::Allocator`.
//!
//! `ALLOC <id> <heaplimit|-> <op>;<op>;…` — see `lean/ClvmModel/Proto/Alloc.lean` for the grammar.
//! A `Sess` is an allocator plus one slot per executed operation (node / checkpoint / nothing) and a
//! validity flag per slot; a restore to the checkpoint in slot `k` invalidates every later slot, an
//! operation with an invalid operand is skipped.  The model (`Session.step`) does exactly the same.
use crate::rng::Rng;
use crate::trees::{self, T};
use crate::util::*;
use clvmr::allocator::{
    fits_in_small_atom, len_for_value, Allocator, Checkpoint, MaybeRestore, NodePtr, NodeVisitor, ObjectType, SExp,
    TransparentCheckpoint,
};
use clvmr::number::number_from_u8;
use clvmr::serde::node_to_bytes;
use num_bigint::BigInt;

pub const MAX_ATOMS: u64 = 62_500_000;
pub const MAX_PAIRS: u64 = 62_500_000;

#[derive(Clone, Debug, PartialEq)]
pub enum Op {
    Atom(Vec<u8>),
    Small(u32),
    U64(u64),
    I64(i64),
    Num(Vec<u8>),
    Pair(usize, usize),
    Sub(usize, u32, u32),
    Cat(usize, Vec<usize>),
    GAtom(usize),
    GPair(usize),
    RGPair(usize),
    Cp,
    Tcp,
    Rst(usize),
    Trst(usize),
    Mrst(usize, usize),
    Fit(Vec<u8>),
    Lfv(u32),
}

impl Op {
    pub fn fmt(&self) -> String {
        match self {
            Op::Atom(b) => format!("atom:{}", hex_or_dash(b)),
            Op::Small(v) => format!("small:{v}"),
            Op::U64(v) => format!("u64:{v}"),
            Op::I64(v) => format!("i64:{v}"),
            Op::Num(b) => format!("num:{}", hex_or_dash(b)),
            Op::Pair(a, b) => format!("pair:{a},{b}"),
            Op::Sub(a, s, e) => format!("sub:{a},{s},{e}"),
            Op::Cat(n, xs) => {
                let mut s = format!("cat:{n}");
                for x in xs {
                    s += &format!(",{x}");
                }
                s
            }
            Op::GAtom(n) => format!("gatom:{n}"),
            Op::GPair(n) => format!("gpair:{n}"),
            Op::RGPair(n) => format!("rgpair:{n}"),
            Op::Cp => "cp".into(),
            Op::Tcp => "tcp".into(),
            Op::Rst(k) => format!("rst:{k}"),
            Op::Trst(k) => format!("trst:{k}"),
            Op::Mrst(k, a) => format!("mrst:{k},{a}"),
            Op::Fit(b) => format!("fit:{}", hex_or_dash(b)),
            Op::Lfv(v) => format!("lfv:{v}"),
        }
    }

    pub fn parse(s: &str) -> Option<Op> {
        if s == "cp" {
            return Some(Op::Cp);
        }
        if s == "tcp" {
            return Some(Op::Tcp);
        }
        let (name, args) = s.split_once(':')?;
        let xs: Vec<&str> = args.split(',').collect();
        let n = |i: usize| -> Option<usize> { xs.get(i)?.parse().ok() };
        Some(match (name, xs.len()) {
            ("atom", 1) => Op::Atom(parse_hex(xs[0])?),
            ("fit", 1) => Op::Fit(parse_hex(xs[0])?),
            ("lfv", 1) => Op::Lfv(xs[0].parse().ok()?),
            ("small", 1) => Op::Small(xs[0].parse().ok()?),
            ("u64", 1) => Op::U64(xs[0].parse().ok()?),
            ("i64", 1) => Op::I64(xs[0].parse().ok()?),
            ("num", 1) => Op::Num(parse_hex(xs[0])?),
            ("pair", 2) => Op::Pair(n(0)?, n(1)?),
            ("sub", 3) => Op::Sub(n(0)?, xs[1].parse().ok()?, xs[2].parse().ok()?),
            ("cat", _) => {
                let mut v = vec![];
                for i in 1..xs.len() {
                    v.push(n(i)?);
                }
                Op::Cat(n(0)?, v)
            }
            ("gatom", 1) => Op::GAtom(n(0)?),
            ("gpair", 1) => Op::GPair(n(0)?),
            ("rgpair", 1) => Op::RGPair(n(0)?),
            ("rst", 1) => Op::Rst(n(0)?),
            ("trst", 1) => Op::Trst(n(0)?),
            ("mrst", 2) => Op::Mrst(n(0)?, n(1)?),
            _ => return None,
        })
    }
}

pub fn fmt_ops(ops: &[Op]) -> String {
    ops.iter().map(|o| o.fmt()).collect::<Vec<_>>().join(";")
}

pub enum SlotVal {
    Node(NodePtr),
    Cp(Checkpoint),
    Tcp(TransparentCheckpoint),
    Unit,
}

pub struct Slot {
    pub val: SlotVal,
    pub valid: bool,
}

#[derive(Clone, Debug, PartialEq)]
pub enum Tag {
    Ok,
    Aborted,
    NoReplace,
    Replace,
    Err(String),
    Skip,
    Val(String),
}

impl Tag {
    pub fn fmt(&self) -> String {
        match self {
            Tag::Ok => "ok".into(),
            Tag::Aborted => "okA".into(),
            Tag::NoReplace => "okN".into(),
            Tag::Replace => "okR".into(),
            Tag::Err(k) => format!("e{k}"),
            Tag::Skip => "skip".into(),
            Tag::Val(v) => format!("ok={v}"),
        }
    }
    pub fn is_ok(&self) -> bool {
        !matches!(self, Tag::Err(_) | Tag::Skip)
    }
}

pub struct Sess {
    pub a: Allocator,
    pub slots: Vec<Slot>,
}

fn opt_u32(v: Option<u32>) -> String {
    match v {
        Some(v) => v.to_string(),
        None => "-".into(),
    }
}

impl Sess {
    pub fn new(limit: Option<usize>) -> Sess {
        Sess {
            a: match limit {
                None => Allocator::new(),
                Some(n) => Allocator::new_limited(n),
            },
            slots: vec![],
        }
    }

    pub fn node(&self, i: usize) -> Option<NodePtr> {
        match self.slots.get(i) {
            Some(Slot { val: SlotVal::Node(n), valid: true }) => Some(*n),
            _ => None,
        }
    }

    pub fn is_cp(&self, i: usize) -> bool {
        matches!(self.slots.get(i), Some(Slot { val: SlotVal::Cp(_), valid: true }))
    }

    pub fn is_tcp(&self, i: usize) -> bool {
        matches!(self.slots.get(i), Some(Slot { val: SlotVal::Tcp(_), valid: true }))
    }

    pub fn valid_nodes(&self) -> Vec<(usize, NodePtr)> {
        (0..self.slots.len()).filter_map(|i| self.node(i).map(|n| (i, n))).collect()
    }

    fn push(&mut self, val: SlotVal, valid: bool) {
        self.slots.push(Slot { val, valid });
    }

    fn invalidate_after(&mut self, k: usize) {
        for (i, s) in self.slots.iter_mut().enumerate() {
            if i > k {
                s.valid = false;
            }
        }
    }

    fn finish_node(&mut self, r: clvmr::error::Result<NodePtr>) -> Tag {
        match r {
            Ok(n) => {
                self.push(SlotVal::Node(n), true);
                Tag::Ok
            }
            Err(e) => {
                self.push(SlotVal::Unit, false);
                Tag::Err(err_kind(&e))
            }
        }
    }

    fn finish_unit(&mut self, r: clvmr::error::Result<()>) -> Tag {
        self.push(SlotVal::Unit, false);
        match r {
            Ok(()) => Tag::Ok,
            Err(e) => Tag::Err(err_kind(&e)),
        }
    }

    fn skip(&mut self) -> Tag {
        self.push(SlotVal::Unit, false);
        Tag::Skip
    }

    /// executes one operation (panics of the crate propagate)
    pub fn step(&mut self, op: &Op) -> Tag {
        match op {
            Op::Atom(b) => {
                let r = self.a.new_atom(b);
                self.finish_node(r)
            }
            Op::Small(v) => {
                let r = self.a.new_small_number(*v);
                self.finish_node(r)
            }
            Op::U64(v) => {
                let r = self.a.new_u64(*v);
                self.finish_node(r)
            }
            Op::I64(v) => {
                let r = self.a.new_i64(*v);
                self.finish_node(r)
            }
            Op::Num(b) => {
                let r = self.a.new_number(number_from_u8(b));
                self.finish_node(r)
            }
            Op::Pair(x, y) => match (self.node(*x), self.node(*y)) {
                (Some(p), Some(q)) => {
                    let r = self.a.new_pair(p, q);
                    self.finish_node(r)
                }
                _ => self.skip(),
            },
            Op::Sub(x, s, e) => match self.node(*x) {
                Some(p) => {
                    let r = self.a.new_substr(p, *s, *e);
                    self.finish_node(r)
                }
                None => self.skip(),
            },
            Op::Cat(n, xs) => {
                let ps: Vec<Option<NodePtr>> = xs.iter().map(|x| self.node(*x)).collect();
                if ps.iter().any(|p| p.is_none()) {
                    return self.skip();
                }
                let ps: Vec<NodePtr> = ps.into_iter().map(|p| p.unwrap()).collect();
                let r = self.a.new_concat(*n, &ps);
                self.finish_node(r)
            }
            Op::GAtom(n) => {
                let r = self.a.add_ghost_atom(*n);
                self.finish_unit(r)
            }
            Op::GPair(n) => {
                let r = self.a.add_ghost_pair(*n);
                self.finish_unit(r)
            }
            Op::RGPair(n) => {
                let r = self.a.remove_ghost_pair(*n);
                self.finish_unit(r)
            }
            Op::Cp => {
                let c = self.a.checkpoint();
                self.push(SlotVal::Cp(c), true);
                Tag::Ok
            }
            Op::Tcp => {
                let c = self.a.transparent_checkpoint();
                self.push(SlotVal::Tcp(c), true);
                Tag::Ok
            }
            Op::Rst(k) => {
                if !self.is_cp(*k) {
                    return self.skip();
                }
                let Sess { a, slots } = self;
                if let SlotVal::Cp(c) = &slots[*k].val {
                    a.restore_checkpoint(c);
                }
                self.invalidate_after(*k);
                self.push(SlotVal::Unit, false);
                Tag::Ok
            }
            Op::Trst(k) => {
                if !self.is_tcp(*k) {
                    return self.skip();
                }
                let Sess { a, slots } = self;
                if let SlotVal::Tcp(c) = &slots[*k].val {
                    a.restore_transparent_checkpoint(c);
                }
                self.invalidate_after(*k);
                self.push(SlotVal::Unit, false);
                Tag::Ok
            }
            Op::Mrst(k, x) => {
                let p = match (self.is_tcp(*k), self.node(*x)) {
                    (true, Some(p)) => p,
                    _ => return self.skip(),
                };
                let Sess { a, slots } = self;
                let r = if let SlotVal::Tcp(c) = &slots[*k].val { a.maybe_restore_with_node(c, p) } else { unreachable!() };
                match r {
                    Err(e) => {
                        self.push(SlotVal::Unit, false);
                        Tag::Err(err_kind(&e))
                    }
                    Ok(MaybeRestore::Aborted) => {
                        self.push(SlotVal::Unit, false);
                        Tag::Aborted
                    }
                    Ok(MaybeRestore::NoReplace) => {
                        self.invalidate_after(*k);
                        self.push(SlotVal::Node(p), true);
                        Tag::NoReplace
                    }
                    Ok(MaybeRestore::Replace(q)) => {
                        self.invalidate_after(*k);
                        self.push(SlotVal::Node(q), true);
                        Tag::Replace
                    }
                }
            }
            Op::Fit(b) => {
                self.push(SlotVal::Unit, false);
                Tag::Val(opt_u32(fits_in_small_atom(b)))
            }
            Op::Lfv(v) => {
                self.push(SlotVal::Unit, false);
                Tag::Val(len_for_value(*v).to_string())
            }
        }
    }

    pub fn counts(&self) -> (u64, u64, u64) {
        (self.a.atom_count() as u64, self.a.pair_count() as u64, self.a.heap_size() as u64)
    }

    pub fn dump(&self) -> String {
        let mut out = vec![];
        let mut prev: Option<NodePtr> = None;
        for (i, p) in self.valid_nodes() {
            let hex = hex::encode(node_to_bytes(&self.a, p).expect("node_to_bytes"));
            match self.a.node(p) {
                NodeVisitor::Pair(_, _) => {
                    let sx = if self.a.sexp(p) == SExp::Atom { "atom" } else { "pair" };
                    out.push(format!("{i}=P{hex},{sx},{}", opt_u32(self.a.small_number(p))));
                }
                v => {
                    let r = if matches!(v, NodeVisitor::U32(_)) { "S" } else { "B" };
                    let eq = match prev {
                        None => "-".to_string(),
                        Some(q) => format!("{}{}", self.a.atom_eq(p, q) as u8, self.a.atom_eq(q, p) as u8),
                    };
                    out.push(format!(
                        "{i}={r}{hex},{},{},{},{},{eq}",
                        hex_or_dash(self.a.atom(p).as_ref()),
                        self.a.atom_len(p),
                        opt_u32(self.a.small_number(p)),
                        self.a.number(p)
                    ));
                    prev = Some(p);
                }
            }
        }
        out.join(" ")
    }
}

fn parse_limit(s: &str) -> Option<Option<usize>> {
    if s == "-" { Some(None) } else { s.parse().ok().map(Some) }
}

pub fn run(args: &[&str]) -> String {
    if args.len() != 2 {
        return "bad-request".into();
    }
    let Some(limit) = parse_limit(args[0]) else { return "bad-request".into() };
    let mut ops = vec![];
    for s in args[1].split(';') {
        match Op::parse(s) {
            Some(o) => ops.push(o),
            None => return "bad-request".into(),
        }
    }
    let mut s = Sess::new(limit);
    let mut outs = vec![];
    for o in &ops {
        let t = s.step(o);
        let (a, p, h) = s.counts();
        outs.push(format!("{}/{a}/{p}/{h}", t.fmt()));
    }
    format!("ok {} | {}", outs.join(";"), s.dump())
}

// ------------------------------------------------------------------------------------------
// generators
// ------------------------------------------------------------------------------------------

fn fmt_limit(l: Option<usize>) -> String {
    match l {
        None => "-".into(),
        Some(n) => n.to_string(),
    }
}

/// atoms biased to the canonical / non-canonical small integer boundary
fn gen_atom(rng: &mut Rng, allow_big: bool) -> Vec<u8> {
    match rng.below(16) {
        0 => vec![],
        1 => vec![0],
        2 => vec![rng.below(0x80) as u8],
        3 => vec![0x80 + rng.below(0x80) as u8],
        4 => vec![0, rng.next() as u8],
        5 => vec![0, 0x80 | rng.next() as u8, rng.next() as u8],
        6 => {
            // canonical positive integer around 2^26
            let v: u32 = match rng.below(4) {
                0 => (1 << 26) - 1 - rng.below(3) as u32,
                1 => (1 << 26) + rng.below(3) as u32,
                2 => rng.below(1 << 26) as u32,
                _ => rng.below(1 << 31) as u32,
            };
            BigInt::from(v).to_signed_bytes_be()
        }
        7 => vec![0xff, rng.next() as u8],
        8 => {
            let k = rng.below(4) as usize + 1;
            let mut b = rng.bytes(k);
            b.insert(0, 0);
            b
        }
        9 | 10 if allow_big => {
            let n = 150 + rng.below(600) as usize;
            rng.bytes(n)
        }
        11 => {
            let n = rng.below(60) as usize;
            rng.bytes(n)
        }
        _ => {
            let n = rng.below(6) as usize;
            rng.bytes(n)
        }
    }
}

fn gen_num_bytes(rng: &mut Rng) -> Vec<u8> {
    let mut b = match rng.below(6) {
        0 => gen_atom(rng, false),
        1 => {
            let k = rng.below(80) as u32;
            let v = (BigInt::from(1) << k) + BigInt::from(rng.range(-2, 2));
            let v = if rng.chance(1, 2) { -v } else { v };
            v.to_signed_bytes_be()
        }
        2 => BigInt::from(rng.next() as i64 >> rng.below(64)).to_signed_bytes_be(),
        3 => BigInt::from((1i64 << 26) + rng.range(-3, 3)).to_signed_bytes_be(),
        _ => {
            let n = rng.below(12) as usize;
            rng.bytes(n)
        }
    };
    if rng.chance(1, 3) && !b.is_empty() {
        // redundant sign extension
        let fill = if b[0] & 0x80 != 0 { 0xff } else { 0 };
        for _ in 0..rng.below(3) + 1 {
            b.insert(0, fill);
        }
    }
    b
}

fn gen_u64(rng: &mut Rng) -> u64 {
    match rng.below(4) {
        0 => {
            let k = rng.below(64) as u32;
            (1u64 << k).wrapping_add(rng.range(-2, 2) as u64)
        }
        1 => rng.next() >> rng.below(64),
        2 => ((1i64 << 26) + rng.range(-3, 3)) as u64,
        _ => *rng.pick(&[0, 1, 0x7f, 0x80, 0xff, 0x100, u64::MAX, u64::MAX - 1, 1 << 63, (1 << 63) - 1]),
    }
}

fn gen_i64(rng: &mut Rng) -> i64 {
    match rng.below(4) {
        0 => {
            let k = rng.below(63) as u32;
            let v = (1i64 << k).wrapping_add(rng.range(-2, 2));
            if rng.chance(1, 2) { v.wrapping_neg() } else { v }
        }
        1 => (rng.next() as i64) >> rng.below(64),
        2 => (1i64 << 26) + rng.range(-3, 3),
        _ => *rng.pick(&[0, 1, -1, -0x80, -0x81, 0x7f, 0x80, i64::MIN, i64::MIN + 1, i64::MAX, -0x8000, -0x8001]),
    }
}

/// Generates one history by running the real allocator alongside, so that operands are valid
/// (and interesting) and denoted trees stay small.
pub struct HistGen {
    pub sess: Sess,
    pub ops: Vec<Op>,
    /// number of tree nodes denoted by the node in each slot (0 for non-node slots)
    size: Vec<usize>,
    ghost_pairs_added: usize,
    allow_big: bool,
}

impl HistGen {
    pub fn new(limit: Option<usize>, allow_big: bool) -> HistGen {
        HistGen { sess: Sess::new(limit), ops: vec![], size: vec![], ghost_pairs_added: 0, allow_big }
    }

    pub fn apply(&mut self, op: Op) -> Tag {
        let t = self.sess.step(&op);
        let i = self.sess.slots.len() - 1;
        let sz = match (&op, self.sess.node(i)) {
            (Op::Pair(x, y), Some(_)) => 1 + self.size[*x] + self.size[*y],
            (Op::Mrst(_, x), Some(_)) => self.size[*x],
            (Op::Cat(_, xs), Some(_)) if xs.len() == 1 => self.size[xs[0]],
            (_, Some(_)) => 1,
            _ => 0,
        };
        self.size.push(sz);
        match (&op, &t) {
            (Op::GPair(n), Tag::Ok) => self.ghost_pairs_added += n,
            (Op::RGPair(n), Tag::Ok) => self.ghost_pairs_added -= n,
            // a full restore may reset ghost_pairs below what was added: be conservative
            (Op::Rst(_), Tag::Ok) => self.ghost_pairs_added = 0,
            _ => {}
        }
        self.ops.push(op);
        t
    }

    fn atoms(&self) -> Vec<usize> {
        self.sess.valid_nodes().into_iter().filter(|(_, n)| n.is_atom()).map(|(i, _)| i).collect()
    }

    fn pick_recent(rng: &mut Rng, v: &[usize]) -> usize {
        if rng.chance(1, 2) && v.len() > 4 { v[v.len() - 1 - rng.below(4) as usize] } else { *rng.pick(v) }
    }

    pub fn random_op(&mut self, rng: &mut Rng) -> Op {
        let nodes: Vec<usize> = self.sess.valid_nodes().into_iter().map(|(i, _)| i).collect();
        let atoms = self.atoms();
        let cps: Vec<usize> = (0..self.sess.slots.len()).filter(|i| self.sess.is_cp(*i)).collect();
        let tcps: Vec<usize> = (0..self.sess.slots.len()).filter(|i| self.sess.is_tcp(*i)).collect();
        for _ in 0..20 {
            match rng.below(100) {
                0..=19 => return Op::Atom(gen_atom(rng, self.allow_big)),
                20..=24 => {
                    let m = if rng.chance(1, 2) { 1 << 26 } else { 70000 };
                    return Op::Small(rng.below(m) as u32);
                }
                25..=28 => return Op::U64(gen_u64(rng)),
                29..=32 => return Op::I64(gen_i64(rng)),
                33..=37 => return Op::Num(gen_num_bytes(rng)),
                38..=49 if !nodes.is_empty() => {
                    let x = Self::pick_recent(rng, &nodes);
                    let y = Self::pick_recent(rng, &nodes);
                    if self.size[x] + self.size[y] < 200 {
                        return Op::Pair(x, y);
                    }
                }
                50..=65 if !atoms.is_empty() => {
                    let x = Self::pick_recent(rng, &atoms);
                    let len = self.sess.a.atom_len(self.sess.node(x).unwrap()) as u32;
                    if rng.chance(9, 10) {
                        let s = rng.below(len as u64 + 1) as u32;
                        let e = s + rng.below((len - s) as u64 + 1) as u32;
                        return Op::Sub(x, s, e);
                    }
                    return Op::Sub(x, rng.below(len as u64 + 3) as u32, rng.below(len as u64 + 3) as u32);
                }
                66..=75 if !atoms.is_empty() => {
                    let k = *rng.pick(&[0usize, 1, 1, 2, 2, 2, 3, 4]);
                    let mut xs: Vec<usize> = (0..k).map(|_| Self::pick_recent(rng, &atoms)).collect();
                    let mut sum: usize = xs.iter().map(|x| self.sess.a.atom_len(self.sess.node(*x).unwrap())).sum();
                    if sum > 3000 {
                        continue;
                    }
                    if k >= 2 && rng.chance(1, 25) {
                        // a pair among ≥ 2 terms is an InternalError (with one term it is a panic)
                        if let Some(p) = nodes.iter().find(|i| self.sess.node(**i).unwrap().is_pair()) {
                            let at = rng.below(k as u64) as usize;
                            xs[at] = *p;
                        }
                    } else if rng.chance(1, 8) {
                        sum = match rng.below(3) {
                            0 => sum + 1,
                            1 => sum.saturating_sub(1),
                            _ => rng.below(10) as usize,
                        };
                    }
                    return Op::Cat(sum, xs);
                }
                76..=79 => return Op::Cp,
                80..=84 => return Op::Tcp,
                85..=86 if !cps.is_empty() => return Op::Rst(*rng.pick(&cps)),
                87..=89 if !tcps.is_empty() => return Op::Trst(*rng.pick(&tcps)),
                90..=95 if !tcps.is_empty() && !nodes.is_empty() => {
                    return Op::Mrst(*rng.pick(&tcps), Self::pick_recent(rng, &nodes));
                }
                96 => return Op::GAtom(rng.below(5) as usize),
                97 => return Op::GPair(rng.below(5) as usize),
                98 if self.ghost_pairs_added > 0 => return Op::RGPair(1 + rng.below(self.ghost_pairs_added as u64) as usize),
                _ => {}
            }
        }
        Op::Atom(gen_atom(rng, false))
    }

    pub fn line(&self, id: &str, limit: Option<usize>) -> String {
        format!("ALLOC {id} {} {}", fmt_limit(limit), fmt_ops(&self.ops))
    }
}

fn random_history(rng: &mut Rng, limit: Option<usize>, preload: &[Op], nops: usize) -> HistGen {
    let mut g = HistGen::new(limit, limit.is_none_or(|l| l > 5000));
    for o in preload {
        g.apply(o.clone());
    }
    // a third of the unlimited histories contain a GC scenario: transparent checkpoint, ≥ 1 KiB of
    // garbage, value-preserving restore
    let alias_heavy = preload.len() > 3 && matches!(preload[1], Op::Sub(..));
    let gc_at = if alias_heavy { Some(0) } else if g.allow_big && rng.chance(1, 3) { Some(rng.below(nops as u64 / 2 + 1) as usize) } else { None };
    let mut i = 0;
    while i < nops {
        if Some(i) == gc_at {
            g.apply(Op::Tcp);
            let k = g.ops.len() - 1;
            // sometimes the value to preserve is the *first* allocation after the checkpoint (its heap
            // offset is the checkpoint's heap length: the boundary of every "is it older than the
            // checkpoint" comparison), with the garbage made of pairs as well as bytes
            let early_keeper = if alias_heavy || rng.chance(1, 3) {
                let n = 5 + rng.below(20) as usize;
                let mut b = rng.bytes(n);
                b[0] |= 0x80;
                g.apply(Op::Atom(b));
                Some(g.ops.len() - 1)
            } else {
                None
            };
            for _ in 0..rng.below(3) + 2 {
                let n = 300 + rng.below(500) as usize;
                g.apply(Op::Atom(rng.bytes(n)));
            }
            for _ in 0..rng.below(4) {
                let o = g.random_op(rng);
                g.apply(o);
            }
            // the value to preserve: a fresh small heap atom (AfterNewBytes), a substring of an atom
            // older than the checkpoint (AfterOldBytes), or any recent node
            let old_heap: Vec<usize> = g
                .sess
                .valid_nodes()
                .into_iter()
                .filter(|(i, n)| *i < k && n.object_type() == ObjectType::Bytes)
                .map(|(i, _)| i)
                .collect();
            match rng.below(4) {
                0 | 1 => {
                    let m = if rng.chance(1, 4) { 60 } else { 30 };
                    let n = 1 + rng.below(m) as usize;
                    let mut b = rng.bytes(n);
                    b[0] |= 0x80;
                    g.apply(Op::Atom(b));
                }
                2 if !old_heap.is_empty() => {
                    let x = *rng.pick(&old_heap);
                    let len = g.sess.a.atom_len(g.sess.node(x).unwrap()) as u32;
                    let s = rng.below(len as u64 + 1) as u32;
                    let e = s + rng.below((len - s) as u64 + 1) as u32;
                    g.apply(Op::Sub(x, s, e));
                }
                _ => {}
            }
            let nodes: Vec<usize> = g.sess.valid_nodes().into_iter().map(|(i, _)| i).collect();
            if !nodes.is_empty() && g.sess.is_tcp(k) {
                let x = match early_keeper {
                    Some(kp) if g.sess.node(kp).is_some() => kp,
                    _ => if rng.chance(3, 4) { *nodes.last().unwrap() } else { HistGen::pick_recent(rng, &nodes) },
                };
                g.apply(Op::Mrst(k, x));
            }
            i += 6;
            continue;
        }
        let o = g.random_op(rng);
        g.apply(o);
        i += 1;
    }
    g
}

/// pre-loads to within 0–3 of a cap
fn limits_setup(rng: &mut Rng) -> (Option<usize>, Vec<Op>) {
    let mut pre = vec![];
    let mut limit = None;
    let which = rng.below(8);
    if which & 1 != 0 || which == 0 {
        // initial atom count is 2
        pre.push(Op::GAtom((MAX_ATOMS - 2 - rng.below(4)) as usize));
    }
    if which & 2 != 0 {
        pre.push(Op::GPair((MAX_PAIRS - rng.below(4)) as usize));
    }
    if which & 4 != 0 || which == 0 {
        let m = if rng.chance(1, 2) { 12 } else { 60 };
        limit = Some(1 + rng.below(m) as usize);
    }
    (limit, pre)
}

pub fn generate(name: &str, rng: &mut Rng, n: usize, tier: &str) -> Vec<String> {
    let mut out = vec![];
    match name {
        "alloc" => {
            // the reproducer of finding C first; the second line is the former C04 consequence (a
            // value-preserving restore used to re-tag the laundered atom as inline)
            out.push("ALLOC c0 3 small:128;sub:0,0,1;sub:0,1,2;atom:0080;sub:3,0,1".to_string());
            out.push("ALLOC c1 - atom:00;atom:80;cat:2,0,1;sub:2,0,1;tcp;atom:".to_string() + &"ab".repeat(600) + ";atom:" + &"cd".repeat(600) + ";cat:2,0,1;mrst:4,7;sub:8,0,1");
            for i in 0..n {
                let nops = if rng.chance(1, 10) { 100 + rng.below(101) as usize } else { 5 + rng.below(60) as usize };
                let g = random_history(rng, None, &[], nops);
                out.push(g.line(&format!("a{i}"), None));
            }
        }
        "alloc_limits" => {
            for l in [0usize, 1, 2, 3, 4, 5] {
                out.push(format!("ALLOC h{l} {l} atom:-;atom:01;atom:80;atom:0102;u64:1;small:0;small:1;cat:0;atom:ffff;sub:2,0,1;cat:2,2,2"));
            }
            out.push(format!("ALLOC hbig {} atom:00", u32::MAX));
            out.push(format!("ALLOC hpanic {} atom:00", u32::MAX as u64 + 1));
            for i in 0..n {
                let (limit, pre) = limits_setup(rng);
                let nops = 5 + rng.below(40) as usize;
                let g = random_history(rng, limit, &pre, nops);
                out.push(g.line(&format!("l{i}"), limit));
            }
        }
        "alloc_small" | "alloc_sub2" => {
            // exhaustive: every byte string up to 2 (quick, and `alloc_sub2` in both tiers) / 3 (thorough)
            // bytes through fits_in_small_atom, new_atom + readers, and (≤ 2 bytes) every substring
            let maxlen = if tier == "thorough" && name == "alloc_small" { 3 } else { 2 };
            let mut id = 0;
            let mut cur: Vec<Op> = vec![];
            let mut strings = 0;
            let mut flush = |cur: &mut Vec<Op>, id: &mut usize, out: &mut Vec<String>| {
                if !cur.is_empty() {
                    out.push(format!("ALLOC s{} - {}", id, fmt_ops(cur)));
                    *id += 1;
                    cur.clear();
                }
            };
            for len in 0..=maxlen {
                let total = 1u64 << (8 * len);
                for x in 0..total {
                    let b: Vec<u8> = (0..len).rev().map(|i| (x >> (8 * i)) as u8).collect();
                    cur.push(Op::Fit(b.clone()));
                    cur.push(Op::Atom(b.clone()));
                    let at = cur.len() - 1;
                    if len <= 2 {
                        for s in 0..=len as u32 {
                            for e in s..=len as u32 {
                                if (s, e) != (0, len as u32) {
                                    cur.push(Op::Sub(at, s, e));
                                }
                            }
                        }
                    }
                    strings += 1;
                    if strings % (if len <= 2 { 8 } else { 48 }) == 0 {
                        flush(&mut cur, &mut id, &mut out);
                    }
                }
                flush(&mut cur, &mut id, &mut out);
            }
            let _ = n;
        }
        "alloc_ints" => {
            let mut id = 0;
            let mut push = |ops: Vec<Op>, out: &mut Vec<String>| {
                out.push(format!("ALLOC i{} - {}", id, fmt_ops(&ops)));
                id += 1;
            };
            // edges: powers of two ± 1 through every constructor, plus len_for_value
            for k in 0..=64u32 {
                let mut ops = vec![];
                for d in [-1i128, 0, 1] {
                    let v: i128 = (1i128 << k) + d;
                    if v >= 0 && v <= u64::MAX as i128 {
                        ops.push(Op::U64(v as u64));
                    }
                    for s in [v, -v] {
                        if s >= i64::MIN as i128 && s <= i64::MAX as i128 {
                            ops.push(Op::I64(s as i64));
                        }
                        ops.push(Op::Num(BigInt::from(s).to_signed_bytes_be()));
                        let mut b = BigInt::from(s).to_signed_bytes_be();
                        b.insert(0, if s < 0 { 0xff } else { 0 });
                        ops.push(Op::Num(b));
                    }
                    if v >= 0 && v <= u32::MAX as i128 {
                        ops.push(Op::Lfv(v as u32));
                    }
                    if v >= 0 && v < (1 << 26) {
                        ops.push(Op::Small(v as u32));
                    }
                }
                push(ops, &mut out);
            }
            for k in [65u32, 71, 72, 79, 80, 127, 128, 255, 256, 511, 512] {
                let mut ops = vec![];
                for d in [-1i32, 0, 1] {
                    let v = (BigInt::from(1) << k) + BigInt::from(d);
                    ops.push(Op::Num(v.to_signed_bytes_be()));
                    ops.push(Op::Num((-v).to_signed_bytes_be()));
                }
                push(ops, &mut out);
            }
            push(vec![Op::Num(vec![]), Op::Num(vec![0]), Op::Num(vec![0, 0]), Op::Num(vec![0xff]), Op::Num(vec![0xff, 0xff]), Op::Num(vec![0x80]), Op::Num(vec![0xff, 0x80]), Op::Num(vec![0, 0x80]), Op::Num(vec![0, 0x7f])], &mut out);
            // debug_assert of new_small_number
            push(vec![Op::Small(1 << 26)], &mut out);
            push(vec![Op::Small((1 << 26) - 1)], &mut out);
            push(vec![Op::Small(u32::MAX)], &mut out);
            push(vec![Op::RGPair(1)], &mut out);
            push(vec![Op::GPair(3), Op::RGPair(2), Op::RGPair(1), Op::Lfv(u32::MAX), Op::Lfv(0x7fffffff), Op::Lfv(0x80000000)], &mut out);
            for _ in 0..n {
                let mut ops = vec![];
                for _ in 0..8 {
                    ops.push(match rng.below(5) {
                        0 => Op::U64(gen_u64(rng)),
                        1 => Op::I64(gen_i64(rng)),
                        2 => Op::Lfv(gen_u64(rng) as u32),
                        _ => Op::Num(gen_num_bytes(rng)),
                    });
                }
                push(ops, &mut out);
            }
        }
        _ => panic!("unknown alloc stream {name}"),
    }
    out
}

// ------------------------------------------------------------------------------------------
// oracles: the statements of C12 / C13 / C14 on the implementation alone, against a shadow
// model in which every atom is a separately stored byte string
// ------------------------------------------------------------------------------------------

pub const KNOWN_C: &str = "KNOWN-C-substr-inline-noncanonical";

/// minimal two's complement big-endian encoding, written independently of the crate
fn min_enc(v: &BigInt) -> Vec<u8> {
    use num_bigint::Sign;
    if v.sign() == Sign::NoSign {
        return vec![];
    }
    // find the least n with -2^(8n-1) <= v < 2^(8n-1)
    let mut n = 1u32;
    loop {
        let half = BigInt::from(1) << (8 * n - 1);
        if *v >= -half.clone() && *v < half {
            break;
        }
        n += 1;
    }
    let m: BigInt = BigInt::from(1) << (8 * n);
    let u = ((v % &m) + &m) % &m;
    let (_, mut b) = u.to_bytes_be();
    while (b.len() as u32) < n {
        b.insert(0, 0);
    }
    b
}

fn dec(b: &[u8]) -> BigInt {
    let mut v = BigInt::from(0);
    for x in b {
        v = v * 256 + BigInt::from(*x);
    }
    if !b.is_empty() && b[0] & 0x80 != 0 {
        v -= BigInt::from(1) << (8 * b.len());
    }
    v
}

struct Shadow {
    atoms: u64,
    pairs: u64,
    heap: u64,
    limit: u64,
    /// content of the node in each slot, as a tree of separately stored byte strings
    content: Vec<Option<T>>,
    /// counts recorded by `cp`
    cps: Vec<Option<(u64, u64, u64)>>,
    tainted: bool,
}

enum Expect {
    Ok,
    Err(&'static str),
    /// misuse the statement does not cover (the crate panics or reports an argument error)
    Any,
}

fn atom_of(t: &Option<T>) -> Option<&Vec<u8>> {
    match t {
        Some(T::Atom(b)) => Some(b),
        _ => None,
    }
}

impl Shadow {
    /// what the statement of C12/C13 predicts for `op`: (expected outcome, new counts, content of the new node)
    fn predict(&self, op: &Op, sess: &Sess) -> (Expect, (u64, u64, u64), Option<T>) {
        let cur = (self.atoms, self.pairs, self.heap);
        let node_content = |i: usize| -> Option<T> { if sess.node(i).is_some() { self.content[i].clone() } else { None } };
        let new_atom = |b: Vec<u8>| -> (Expect, (u64, u64, u64), Option<T>) {
            let n = b.len() as u64;
            if self.heap + n > self.limit {
                (Expect::Err("OutOfMemory"), cur, None)
            } else if self.atoms >= MAX_ATOMS {
                (Expect::Err("TooManyAtoms"), cur, None)
            } else {
                (Expect::Ok, (self.atoms + 1, self.pairs, self.heap + n), Some(T::Atom(b)))
            }
        };
        match op {
            Op::Atom(b) => new_atom(b.clone()),
            Op::Small(v) => new_atom(min_enc(&BigInt::from(*v))),
            Op::U64(v) => new_atom(min_enc(&BigInt::from(*v))),
            Op::I64(v) => new_atom(min_enc(&BigInt::from(*v))),
            Op::Num(b) => new_atom(min_enc(&dec(b))),
            Op::Pair(x, y) => match (node_content(*x), node_content(*y)) {
                (Some(l), Some(r)) => {
                    if self.pairs >= MAX_PAIRS {
                        (Expect::Err("TooManyPairs"), cur, None)
                    } else {
                        (Expect::Ok, (self.atoms, self.pairs + 1, self.heap), Some(T::pair(l, r)))
                    }
                }
                _ => (Expect::Any, cur, None),
            },
            Op::Sub(x, s, e) => {
                if self.atoms >= MAX_ATOMS {
                    return (Expect::Err("TooManyAtoms"), cur, None);
                }
                match node_content(*x) {
                    Some(T::Atom(b)) => {
                        let (s, e) = (*s as usize, *e as usize);
                        if s > b.len() || e > b.len() || e < s {
                            (Expect::Err("InvalidAllocArg"), cur, None)
                        } else {
                            // a substring shares its parent's bytes: one atom, no heap
                            (Expect::Ok, (self.atoms + 1, self.pairs, self.heap), Some(T::Atom(b[s..e].to_vec())))
                        }
                    }
                    Some(T::Pair(_, _)) => (Expect::Err("InternalError"), cur, None),
                    None => (Expect::Any, cur, None),
                }
            }
            Op::Cat(n, xs) => {
                if self.atoms >= MAX_ATOMS {
                    return (Expect::Err("TooManyAtoms"), cur, None);
                }
                if self.heap + *n as u64 > self.limit {
                    return (Expect::Err("OutOfMemory"), cur, None);
                }
                let cs: Vec<Option<T>> = xs.iter().map(|x| node_content(*x)).collect();
                if cs.iter().any(|c| c.is_none()) {
                    return (Expect::Any, cur, None);
                }
                if cs.iter().any(|c| atom_of(c).is_none()) {
                    // one pair operand alone: the crate panics (`atom_len`); outside the statement
                    return (if xs.len() == 1 { Expect::Any } else { Expect::Err("InternalError") }, cur, None);
                }
                let mut b = vec![];
                for c in &cs {
                    b.extend_from_slice(atom_of(c).unwrap());
                }
                if b.len() != *n {
                    (Expect::Err("InternalError"), cur, None)
                } else {
                    (Expect::Ok, (self.atoms + 1, self.pairs, self.heap + *n as u64), Some(T::Atom(b)))
                }
            }
            Op::GAtom(n) => {
                if self.atoms + *n as u64 > MAX_ATOMS {
                    (Expect::Err("TooManyAtoms"), cur, None)
                } else {
                    (Expect::Ok, (self.atoms + *n as u64, self.pairs, self.heap), None)
                }
            }
            Op::GPair(n) => {
                if self.pairs + *n as u64 > MAX_PAIRS {
                    (Expect::Err("TooManyPairs"), cur, None)
                } else {
                    (Expect::Ok, (self.atoms, self.pairs + *n as u64, self.heap), None)
                }
            }
            Op::RGPair(n) => (Expect::Ok, (self.atoms, self.pairs - (*n as u64).min(self.pairs), self.heap), None),
            Op::Cp | Op::Tcp | Op::Fit(_) | Op::Lfv(_) => (Expect::Ok, cur, None),
            Op::Rst(k) => match self.cps.get(*k).cloned().flatten() {
                Some(c) if sess.is_cp(*k) => (Expect::Ok, c, None),
                _ => (Expect::Any, cur, None),
            },
            Op::Trst(_) => (Expect::Ok, cur, None),
            Op::Mrst(_, x) => (Expect::Ok, cur, node_content(*x)),
        }
    }
}

fn check_reads(sess: &Sess, i: usize, p: NodePtr, t: &T, rep: &mut OracleReport, ctx: &dyn Fn() -> String) {
    // contents as seen through every read API
    let now = trees::from_node(&sess.a, p);
    if now != *t {
        rep.fail("node_stable", format!("slot {i}: denotes {} but was created as {}; {}", trees::to_hex(&now), trees::to_hex(t), ctx()));
        return;
    }
    if let T::Atom(b) = t {
        if sess.a.atom_len(p) != b.len() {
            rep.fail("atom_len", format!("slot {i}: atom_len {} for {}; {}", sess.a.atom_len(p), hex_or_dash(b), ctx()));
        }
        // small_number ⇔ minimal encoding of a value below 2^26
        let v = dec(b);
        let expect = if min_enc(&v) == *b && v >= BigInt::from(0) && v < BigInt::from(1 << 26) { Some(u32::try_from(&v).unwrap()) } else { None };
        if sess.a.small_number(p) != expect {
            rep.fail("small_number_iff", format!("slot {i}: small_number {:?}, expected {:?} for {}; {}", sess.a.small_number(p), expect, hex_or_dash(b), ctx()));
        }
        if sess.a.number(p) != v {
            rep.fail("number", format!("slot {i}: number {} expected {} for {}; {}", sess.a.number(p), v, hex_or_dash(b), ctx()));
        }
        // the second big-integer view of the same atom
        let m = sess.a.malachite_number(p);
        if m != clvmr::number::malachite_number_from_u8(b) || m.to_string() != v.to_string() {
            rep.fail("number", format!("slot {i}: malachite_number {} expected {} for {}; {}", m, v, hex_or_dash(b), ctx()));
        }
        match sess.a.node(p) {
            NodeVisitor::Buffer(x) if x == &b[..] => {}
            NodeVisitor::U32(x) if Some(x) == expect => {}
            _ => rep.fail("node_visitor", format!("slot {i}: node() disagrees with atom() for {}; {}", hex_or_dash(b), ctx())),
        }
    }
}

/// runs one history against the shadow; all failures carry the reproducing `ALLOC` line
pub fn check_history(limit: Option<usize>, ops: &[Op], rep: &mut OracleReport, every: usize) {
    let line = format!("ALLOC x {} {}", fmt_limit(limit), fmt_ops(ops));
    let mut sess = Sess::new(limit);
    let lim = limit.map(|l| l as u64).unwrap_or(u32::MAX as u64);
    let (a0, p0, h0) = sess.counts();
    let mut sh = Shadow { atoms: a0, pairs: p0, heap: h0, limit: lim, content: vec![], cps: vec![], tainted: false };
    if (a0, p0, h0) != (2, 0, 1) {
        rep.fail("initial_counts", format!("new allocator reports {a0}/{p0}/{h0}; {line}"));
    }
    let mut known_reported = false;
    for (step, op) in ops.iter().enumerate() {
        let ctx = || format!("at op {step} ({}) of: {line}", op.fmt());
        let before = sess.counts();
        let (exp, new_counts, content) = sh.predict(op, &sess);
        let parent_inline = match op {
            Op::Sub(x, _, _) => sess.node(*x).map(|p| p.object_type() == ObjectType::SmallAtom).unwrap_or(false),
            _ => false,
        };
        let mrst_type = match op {
            Op::Mrst(_, x) => sess.node(*x).map(|p| p.object_type()),
            _ => None,
        };
        let tag = sess.step(op);
        let after = sess.counts();
        rep.hit(&format!("op_{}_{}", op.fmt().split(':').next().unwrap(), match &tag { Tag::Err(k) => k.as_str(), Tag::Skip => "skip", Tag::Aborted => "aborted", Tag::NoReplace => "noreplace", Tag::Replace => "replace", _ => "ok" }));
        let slot = sess.slots.len() - 1;
        sh.content.push(None);
        sh.cps.push(None);
        if tag == Tag::Skip {
            continue;
        }
        let mut expect_counts = new_counts;
        match (&exp, &tag) {
            (Expect::Any, _) => {
                expect_counts = after;
            }
            (Expect::Ok, t) if t.is_ok() => {
                // finding C: substring of an inline atom that is not itself a canonical small integer
                if let (Op::Sub(_, s, e), true) = (op, parent_inline) {
                    let grew = after.2 as i64 - before.2 as i64;
                    let res_is_heap = sess.node(slot).map(|p| p.object_type() == ObjectType::Bytes).unwrap_or(false);
                    if res_is_heap && grew == (*e as i64 - *s as i64) && grew > 0 {
                        if !known_reported {
                            rep.fail("substr_shares_bytes", format!("{KNOWN_C}: new_substr on an inline atom appended {grew} byte(s) to the heap ({} -> {}, limit {}); {}", before.2, after.2, lim, ctx()));
                            known_reported = true;
                        }
                        rep.hit("known_C_trigger");
                        sh.tainted = true;
                        expect_counts.2 = after.2;
                    }
                }
            }
            (Expect::Err(k), Tag::Err(k2)) if k == k2 => {}
            (Expect::Ok, t) => rep.fail("fail_exact", format!("operation failed with {} although completing it exceeds no cap (counts {:?}, limit {lim}); {}", t.fmt(), before, ctx())),
            (Expect::Err(k), t) => rep.fail("fail_exact", format!("expected {k}, got {} (counts {:?}, limit {lim}); {}", t.fmt(), before, ctx())),
        }
        if !tag.is_ok() && after != before {
            rep.fail("fail_unchanged", format!("failed operation changed the counts {:?} -> {:?}; {}", before, after, ctx()));
        }
        if after != expect_counts {
            let pre = if sh.tainted { format!("{KNOWN_C} (after the trigger): ") } else { String::new() };
            rep.fail("counts", format!("{pre}counts {:?}, as-if-separately-stored {:?}; {}", after, expect_counts, ctx()));
        }
        sh.atoms = after.0;
        sh.pairs = after.1;
        sh.heap = after.2;
        if after.0 > MAX_ATOMS || after.1 > MAX_PAIRS {
            rep.fail("caps", format!("counts {:?} exceed a cap; {}", after, ctx()));
        }
        if after.2 > lim {
            let pre = if sh.tainted { format!("{KNOWN_C} (heap limit not checked): ") } else { String::new() };
            rep.fail("heap_cap", format!("{pre}heap {} exceeds limit {lim}; {}", after.2, ctx()));
        }
        if let Op::Cp = op {
            sh.cps[slot] = Some(after);
        }
        if tag.is_ok() {
            if let Some(p) = sess.node(slot) {
                match content {
                    Some(t) => {
                        check_reads(&sess, slot, p, &t, rep, &ctx);
                        sh.content[slot] = Some(t);
                    }
                    None => rep.fail("shadow", format!("no predicted content for a node result; {}", ctx())),
                }
            }
        }
        if let (Op::Mrst(..), Tag::Err(k)) = (op, &tag) {
            let pre = if sh.tainted { format!("{KNOWN_C} (after the trigger): ") } else { String::new() };
            rep.fail("maybe_restore_ok", format!("{pre}maybe_restore_with_node returned {k}; {}", ctx()));
        }
        // a replaced heap atom is re-created as a heap atom (representation preserved)
        if let (Op::Mrst(..), Tag::Replace, Some(t0)) = (op, &tag, mrst_type) {
            let t1 = sess.node(slot).map(|p| p.object_type());
            if t0 != ObjectType::Bytes || t1 != Some(ObjectType::Bytes) {
                rep.fail("maybe_restore_repr", format!("Replace turned a {:?} node into {:?}; {}", t0, t1, ctx()));
            }
        }
        // immutability: every still-valid node denotes what it denoted when it was created
        let is_restore = matches!(op, Op::Rst(_) | Op::Trst(_) | Op::Mrst(..));
        if is_restore || !tag.is_ok() || step % every == 0 || step + 1 == ops.len() {
            let vn = sess.valid_nodes();
            for (i, p) in &vn {
                if let Some(t) = &sh.content[*i] {
                    check_reads(&sess, *i, *p, t, rep, &ctx);
                }
            }
            // atom_eq ⇔ byte equality (adjacent valid atoms, both argument orders)
            let atoms: Vec<&(usize, NodePtr)> = vn.iter().filter(|(_, p)| p.is_atom()).collect();
            for w in atoms.windows(2) {
                let (i, p) = *w[0];
                let (j, q) = *w[1];
                let same = sh.content[i] == sh.content[j];
                if sess.a.atom_eq(p, q) != same || sess.a.atom_eq(q, p) != same {
                    rep.fail("atom_eq_iff", format!("atom_eq(slot {i}, slot {j}) = {}/{} but byte equality is {same}; {}", sess.a.atom_eq(p, q), sess.a.atom_eq(q, p), ctx()));
                }
            }
        }
    }
}

fn int_oracle(rng: &mut Rng, n: usize, rep: &mut OracleReport) {
    // integer constructors store the minimal encoding and read back as the same value
    let mut vals: Vec<BigInt> = vec![];
    for k in 0..=70u32 {
        for d in [-1, 0, 1] {
            let v = (BigInt::from(1) << k) + BigInt::from(d);
            vals.push(v.clone());
            vals.push(-v);
        }
    }
    for _ in 0..n {
        vals.push(dec(&gen_num_bytes(rng)));
        vals.push(BigInt::from(gen_i64(rng)));
        vals.push(BigInt::from(gen_u64(rng)));
    }
    for v in vals {
        let mut a = Allocator::new();
        let enc = min_enc(&v);
        let mut nodes = vec![("new_number", a.new_number(v.clone()).unwrap())];
        nodes.push(("new_malachite_number", a.new_malachite_number(clvmr::number::malachite_number_from_u8(&enc)).unwrap()));
        if let Ok(x) = u64::try_from(&v) {
            nodes.push(("new_u64", a.new_u64(x).unwrap()));
        }
        if let Ok(x) = i64::try_from(&v) {
            nodes.push(("new_i64", a.new_i64(x).unwrap()));
        }
        if v >= BigInt::from(0) && v < BigInt::from(1 << 26) {
            nodes.push(("new_small_number", a.new_small_number(u32::try_from(&v).unwrap()).unwrap()));
        }
        for (name, p) in nodes {
            rep.evaluations += 1;
            rep.nontrivial += 1;
            rep.hit(&format!("{name}_len{}", enc.len().min(10)));
            if a.atom(p).as_ref() != &enc[..] || a.number(p) != v {
                rep.fail("int_enc", format!("{name}({v}) stored {} (minimal encoding {}), reads back {}", hex_or_dash(a.atom(p).as_ref()), hex_or_dash(&enc), a.number(p)));
            }
        }
    }
}

fn small_oracle(tier: &str, rep: &mut OracleReport) {
    // exhaustive: fits_in_small_atom / new_atom / small_number on all short byte strings
    let maxlen = if tier == "thorough" { 3 } else { 2 };
    let mut a = Allocator::new();
    let cp = a.checkpoint();
    for len in 0..=maxlen {
        for x in 0..(1u64 << (8 * len)) {
            let b: Vec<u8> = (0..len).rev().map(|i| (x >> (8 * i)) as u8).collect();
            let v = dec(&b);
            let expect = if min_enc(&v) == b && v >= BigInt::from(0) && v < BigInt::from(1 << 26) { Some(u32::try_from(&v).unwrap()) } else { None };
            rep.evaluations += 1;
            rep.nontrivial += 1;
            if fits_in_small_atom(&b) != expect {
                rep.fail("small_number_iff", format!("fits_in_small_atom({}) = {:?}, expected {:?}", hex_or_dash(&b), fits_in_small_atom(&b), expect));
            }
            let p = a.new_atom(&b).unwrap();
            let inline = p.object_type() == ObjectType::SmallAtom;
            if a.atom(p).as_ref() != &b[..] || a.small_number(p) != expect || inline != expect.is_some() || a.atom_len(p) != b.len() {
                rep.fail("new_atom_roundtrip", format!("new_atom({}) reads back {} small_number {:?} inline {inline}", hex_or_dash(&b), hex_or_dash(a.atom(p).as_ref()), a.small_number(p)));
            }
            if let Some(v) = expect {
                if len_for_value(v) != b.len() {
                    rep.fail("len_for_value_enc", format!("len_for_value({v}) = {} but the minimal encoding has {} bytes", len_for_value(v), b.len()));
                }
            }
            if x % 4096 == 4095 {
                a.restore_checkpoint(&cp);
            }
        }
    }
    rep.hit("exhaustive_short_strings");
}

/// atom_eq ⇔ byte equality on *near-miss* pairs in every combination of representations (inline, heap
/// bytes, substring view): same low bits with a different top byte, same value with redundant leading
/// bytes, a prefix / suffix of the other, sign variants, equal bytes
fn oracle_atom_eq(rng: &mut Rng, n: usize) -> OracleReport {
    let mut rep = OracleReport::default();
    // the three ways to hold `b`: new_atom (inline when possible), laundered through concat (heap), view
    let make = |a: &mut Allocator, b: &[u8], how: u8| -> NodePtr {
        match how {
            0 => a.new_atom(b).unwrap(),
            1 => {
                let k = b.len() / 2;
                let x = a.new_atom(&b[..k]).unwrap();
                let y = a.new_atom(&b[k..]).unwrap();
                a.new_concat(b.len(), &[x, y]).unwrap()
            }
            _ => {
                let mut padded = vec![0xeeu8, 0xdd];
                padded.extend_from_slice(b);
                padded.extend_from_slice(&[0xcc, 0xbb, 0xaa, 0x99, 0x88]);
                let big = a.new_atom(&padded).unwrap();
                a.new_substr(big, 2, 2 + b.len() as u32).unwrap()
            }
        }
    };
    for i in 0..n.max(200) {
        let len = *rng.pick(&[0usize, 1, 2, 3, 4, 4, 4, 5, 8, 33]);
        let mut x = rng.bytes(len);
        if len > 0 && rng.chance(1, 2) {
            x[0] = *rng.pick(&[0x00u8, 0x01, 0x03, 0x04, 0x7f, 0x80, 0xff]);
        }
        let mut ys: Vec<Vec<u8>> = vec![x.clone()];
        if len > 0 {
            for t in [0x04u8, 0x40, 0x80, 0xfc] {
                let mut y = x.clone();
                y[0] ^= t;
                ys.push(y); // same low bits, different top byte
            }
            let mut y = vec![0u8];
            y.extend_from_slice(&x);
            ys.push(y); // same value, one more leading zero
            ys.push(x[1..].to_vec()); // suffix
            ys.push(x[..len - 1].to_vec()); // prefix
            let mut y = x.clone();
            y[len - 1] ^= 1;
            ys.push(y);
        }
        let mut a = Allocator::new();
        for y in &ys {
            for hx in 0..3u8 {
                for hy in 0..3u8 {
                    let p = make(&mut a, &x, hx);
                    let q = make(&mut a, y, hy);
                    rep.evaluations += 1;
                    rep.nontrivial += 1;
                    let same = x == *y;
                    let (r1, r2) = (a.atom_eq(p, q), a.atom_eq(q, p));
                    if r1 != same || r2 != same {
                        rep.fail("atom_eq_iff", format!("atom_eq({} as {}, {} as {}) = {}/{} but byte equality is {}", hex::encode(&x), ["new_atom", "concat", "substr"][hx as usize], hex::encode(y), ["new_atom", "concat", "substr"][hy as usize], r1, r2, same));
                    }
                }
            }
        }
        if i < 2 {
            rep.sample(format!("x={} against {} near misses x 9 representation pairs", hex::encode(&x), ys.len()));
        }
    }
    rep.hit("near-miss-pairs");
    rep
}

pub fn oracle(name: &str, rng: &mut Rng, n: usize, tier: &str) -> OracleReport {
    if name == "alloc_atom_eq" {
        return oracle_atom_eq(rng, n);
    }
    let mut rep = OracleReport::default();
    let mut seen = std::collections::HashSet::new();
    let mut known_seen = 0usize;
    let mut run = |limit: Option<usize>, g: &HistGen, rep: &mut OracleReport, every: usize| {
        rep.evaluations += 1;
        let l = g.line("x", limit);
        if g.ops.len() >= 2 && seen.insert(fnv(&l)) {
            rep.nontrivial += 1;
        }
        rep.sample(l.chars().take(200).collect());
        let ops = g.ops.clone();
        let r = std::panic::catch_unwind(std::panic::AssertUnwindSafe(|| {
            let mut local = OracleReport::default();
            check_history(limit, &ops, &mut local, every);
            local
        }));
        match r {
            Ok(local) => {
                for (o, w) in local.failures {
                    // keep room for unknown failures: at most three reports of the known finding
                    if w.starts_with(KNOWN_C) {
                        known_seen += 1;
                        if known_seen > 3 {
                            continue;
                        }
                    }
                    rep.fail(&o, w);
                }
                for (k, v) in local.dist {
                    *rep.dist.entry(k).or_insert(0) += v;
                }
            }
            Err(_) => rep.fail("no_panic", format!("the crate panicked on a history with valid operands: {}", g.line("x", limit))),
        }
    };
    match name {
        "alloc_accounting" => {
            // the stored witness of finding C
            let mut g = HistGen::new(Some(3), false);
            for o in [Op::Small(128), Op::Sub(0, 0, 1), Op::Sub(0, 1, 2)] {
                g.apply(o);
            }
            run(Some(3), &g, &mut rep, 1);
            for _ in 0..n {
                let nops = if rng.chance(1, 10) { 100 + rng.below(101) as usize } else { 5 + rng.below(60) as usize };
                let g = random_history(rng, None, &[], nops);
                run(None, &g, &mut rep, 16);
            }
        }
        "alloc_limits" => {
            for _ in 0..n {
                let (limit, pre) = limits_setup(rng);
                let nops = 5 + rng.below(40) as usize;
                let g = random_history(rng, limit, &pre, nops);
                run(limit, &g, &mut rep, 8);
            }
        }
        "alloc_nodes" => {
            small_oracle(tier, &mut rep);
            int_oracle(rng, n, &mut rep);
            for j in 0..n / 2 {
                let nops = 10 + rng.below(70) as usize;
                // every third history starts alias-heavy: a tiny heap with more atom-table entries than
                // heap bytes (substring views of one short heap atom)
                let mut pre = vec![];
                if j % 3 == 2 {
                    let l = 5 + rng.below(4) as usize;
                    let mut b = rng.bytes(l);
                    b[0] |= 0x80;
                    pre.push(Op::Atom(b));
                    for _ in 0..(l + 1 + rng.below(4) as usize) {
                        let s0 = rng.below(l as u64 - 1) as u32;
                        pre.push(Op::Sub(0, s0, (s0 + 2).min(l as u32)));
                    }
                }
                let g = random_history(rng, None, &pre, nops);
                run(None, &g, &mut rep, 1);
            }
        }
        _ => panic!("unknown alloc oracle {name}"),
    }
    rep
}
