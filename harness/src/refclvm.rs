//! C01: the implementation side of the *implementation vs reference* stream.
//!
//! REF <id> <budget> <prog-hex> <env-hex> [nocanon]
//!     -> ok <cost> <result-hex> | err <class>
//!
//! `run_program` under `ChiaDialect::new(ClvmFlags::empty())`, reported in the coarse format shared
//! with the Lean transcription of the Python `clvm` package (`ClvmModel/Spec/Ref.lean`,
//! `Proto/Ref.lean`): the `EvalErr` kind is mapped to the class the reference distinguishes, and the
//! class of a failed run is canonicalised like on the reference side (`Adapter.costCheckOrder`):
//! a second run without budget decides between `cost` and the error the program has anyway.
//! When program or environment mention opcode 36 the class is not compared (`err *`), and with the
//! trailing `nocanon` (stress programs that only terminate under a budget) neither.
//!
//! Stream `ref`: the repository's operator vectors (`op-tests/test-{core-ops,more-ops,sha256,
//! unknown-ops}.txt`, old cost model) as `((op) . args)` and as `(op (q . a1) …)`, the programs under
//! `tests/programs` (small budgets), a fixed corpus around the adapters and generated programs over
//! the classic operator set (`progs::random_program` / `progs::mutate`, restricted here), each under
//! the budget classes 0, C−1, C, C+1, random < C, u64::MAX.
use crate::progs;
use crate::rng::Rng;
use crate::trees::{self, T};
use crate::util::*;
use clvmr::allocator::Allocator;
use clvmr::chia_dialect::{ChiaDialect, ClvmFlags};
use clvmr::error::EvalErr;
use clvmr::run_program::run_program;
use num_bigint::BigInt;

/// the classes of `Clvm.Ref.RefErr`
pub fn err_class(e: &EvalErr) -> &'static str {
    match err_kind(e).as_str() {
        "CostExceeded" => "cost",
        "PathIntoAtom" => "path",
        "Raise" => "raise",
        "InvalidOpArg" | "InvalidNilTerminator" => "arg",
        "DivisionByZero" => "div0",
        "ShiftTooLarge" => "shift",
        "Reserved" => "reserved",
        "Invalid" => "invalid",
        "SoftforkCostMismatch" | "UnknownSoftforkExtension" | "SoftforkStackDepthExceeded" => "softfork",
        "ValueStackLimitReached" | "EnvironmentStackLimitReached" => "stack",
        "TooManyAtoms" | "TooManyPairs" | "OutOfMemory" => "limit",
        "Unimplemented" => "unimplemented",
        _ => "internal",
    }
}

pub enum Outcome {
    Ok(u64, T),
    Err(&'static str),
}

pub fn run_default(prog: &T, env: &T, budget: u64) -> Outcome {
    let mut a = Allocator::new();
    let p = match trees::build(&mut a, prog) {
        Ok(p) => p,
        Err(e) => return Outcome::Err(err_class(&e)),
    };
    let e = match trees::build(&mut a, env) {
        Ok(p) => p,
        Err(e) => return Outcome::Err(err_class(&e)),
    };
    match run_program(&mut a, &ChiaDialect::new(ClvmFlags::empty()), p, e, budget) {
        Ok(red) => Outcome::Ok(red.0, trees::from_node(&a, red.1)),
        Err(e) => Outcome::Err(err_class(&e)),
    }
}

pub fn mentions36(t: &T) -> bool {
    let mut st = vec![t];
    while let Some(t) = st.pop() {
        match t {
            T::Atom(b) => {
                if b.as_slice() == [0x24] {
                    return true;
                }
            }
            T::Pair(l, r) => {
                st.push(l);
                st.push(r);
            }
        }
    }
    false
}

pub fn outcome(prog: &T, env: &T, budget: u64, canon: bool) -> String {
    match run_default(prog, env, budget) {
        Outcome::Ok(c, t) => format!("ok {} {}", c, trees::to_hex(&t)),
        Outcome::Err(k) => {
            if !canon || mentions36(prog) || mentions36(env) {
                return "err *".to_string();
            }
            let unb = if budget == 0 { Outcome::Err(k) } else { run_default(prog, env, 0) };
            match unb {
                Outcome::Ok(_, _) => {
                    if k == "cost" {
                        "err cost".to_string()
                    } else {
                        format!("err {}/ok", k)
                    }
                }
                Outcome::Err(k2) => {
                    if k == k2 || k == "cost" {
                        format!("err {}", k2)
                    } else {
                        format!("err {}/{}", k, k2)
                    }
                }
            }
        }
    }
}

pub fn run(args: &[&str]) -> String {
    let budget: u64 = args[0].parse().unwrap();
    let prog = trees::from_hex(args[1]).unwrap();
    let env = trees::from_hex(args[2]).unwrap();
    let canon = args.get(3).copied() != Some("nocanon");
    outcome(&prog, &env, budget, canon)
}

// ---------------------------------------------------------------- vector files

fn keyword(v: &str) -> Option<Vec<u8>> {
    Some(match v {
        "q" => vec![1],
        "a" => vec![2],
        "i" => vec![3],
        "c" => vec![4],
        "f" => vec![5],
        "r" => vec![6],
        "l" => vec![7],
        "x" => vec![8],
        "=" => vec![9],
        ">s" => vec![10],
        "sha256" => vec![11],
        "substr" => vec![12],
        "strlen" => vec![13],
        "concat" => vec![14],
        "+" => vec![16],
        "-" => vec![17],
        "*" => vec![18],
        "/" => vec![19],
        "divmod" => vec![20],
        ">" => vec![21],
        "ash" => vec![22],
        "lsh" => vec![23],
        "logand" => vec![24],
        "logior" => vec![25],
        "logxor" => vec![26],
        "lognot" => vec![27],
        "point_add" | "g1_add" => vec![29],
        "pubkey_for_exp" => vec![30],
        "not" => vec![32],
        "any" => vec![33],
        "all" => vec![34],
        "softfork" => vec![36],
        "unknown" => vec![0x00],
        "unknown_add" => vec![0x40],
        "unknown_mul" => vec![0x80],
        "unknown_concat" => vec![0xc0],
        "unknown_x2" => vec![0x01, 0x00],
        "unknown_add_x2" => vec![0x01, 0x40],
        "unknown_mul_x2" => vec![0x01, 0x80],
        "unknown_concat_x2" => vec![0x01, 0xc0],
        _ => return None,
    })
}

/// `parse_atom` of /repo/src/test_ops.rs (numbers are minimal two's complement)
fn parse_atom(v: &str) -> Option<T> {
    if v == "0" {
        return Some(T::nil());
    }
    if v.is_empty() {
        return None;
    }
    if let Some(h) = v.strip_prefix("0x") {
        return hex::decode(h).ok().map(T::Atom);
    }
    if let Some(s) = v.strip_prefix('"') {
        return s.strip_suffix('"').map(|s| T::Atom(s.as_bytes().to_vec()));
    }
    if let Ok(n) = v.parse::<BigInt>() {
        if n == BigInt::from(0) {
            return Some(T::nil());
        }
        return Some(T::Atom(n.to_signed_bytes_be()));
    }
    let v = v.strip_prefix('#').unwrap_or(v);
    keyword(v).map(T::Atom)
}

fn pop_token(s: &str) -> (&str, &str) {
    let s = s.trim();
    if let Some(stripped) = s.strip_prefix('"') {
        match stripped.find('"') {
            Some(q) => {
                let (first, rest) = s.split_at(q + 2);
                (first.trim(), rest.trim())
            }
            None => (s, ""),
        }
    } else if s.starts_with('(') || s.starts_with(')') {
        let (first, rest) = s.split_at(1);
        (first, rest.trim())
    } else {
        let space = s.find(' ');
        let close = s.find(')');
        let pos = match (space, close) {
            (Some(a), Some(b)) => a.min(b),
            (Some(a), None) => a,
            (None, Some(b)) => b,
            (None, None) => s.len(),
        };
        let (first, rest) = s.split_at(pos);
        (first.trim(), rest.trim())
    }
}

fn parse_list(v: &str) -> Option<(T, &str)> {
    let v = v.trim();
    let (first, rest) = pop_token(v);
    if first.is_empty() || first == ")" {
        return Some((T::nil(), rest));
    }
    if first == "(" {
        let (head, r1) = parse_list(rest)?;
        let (tail, r2) = parse_list(r1)?;
        Some((T::pair(head, tail), r2))
    } else if first == "." {
        let (node, r1) = parse_exp(rest)?;
        let (end, r2) = pop_token(r1);
        if end != ")" {
            return None;
        }
        Some((node, r2))
    } else {
        let head = parse_atom(first)?;
        let (tail, r1) = parse_list(rest)?;
        Some((T::pair(head, tail), r1))
    }
}

fn parse_exp(v: &str) -> Option<(T, &str)> {
    let (first, rest) = pop_token(v);
    if first == "(" { parse_list(rest) } else { parse_atom(first).map(|a| (a, rest)) }
}

pub struct Vector {
    pub file: String,
    pub line: usize,
    pub op: Vec<u8>,
    pub args: T,
    /// `None` = FAIL
    pub expect: Option<(T, u64)>,
}

pub fn repo_dir() -> String {
    std::env::var("VERIF_REPO").unwrap_or_else(|_| "/repo".to_string())
}

pub const VECTOR_FILES: [&str; 4] = ["test-core-ops.txt", "test-more-ops.txt", "test-sha256.txt", "test-unknown-ops.txt"];

/// vectors over the classic operator set (29/30 are skipped)
pub fn load_vectors() -> Vec<Vector> {
    let mut out = Vec::new();
    for f in VECTOR_FILES {
        let path = format!("{}/op-tests/{}", repo_dir(), f);
        let Ok(text) = std::fs::read_to_string(&path) else { continue };
        for (i, line) in text.lines().enumerate() {
            let t = line.trim();
            if t.is_empty() || t.starts_with(';') {
                continue;
            }
            let Some((lhs, rhs)) = t.split_once("=>") else { continue };
            let (opname, rest) = pop_token(lhs);
            let Some(op) = keyword(opname) else { continue };
            if op == [29] || op == [30] {
                continue;
            }
            let Some((args, _)) = parse_list(rest) else { continue };
            let rhs = rhs.trim();
            let expect = if rhs.starts_with("FAIL") {
                None
            } else {
                let Some((res, cost)) = rhs.split_once('|') else { continue };
                let Some((r, _)) = parse_exp(res.trim()) else { continue };
                let Ok(c) = cost.trim().parse::<u64>() else { continue };
                Some((r, c))
            };
            out.push(Vector { file: f.to_string(), line: i + 1, op, args, expect });
        }
    }
    out
}

/// `((op) . args)`: the operand list reaches the operator unevaluated (cost + APPLY_COST)
pub fn direct_form(v: &Vector) -> T {
    T::pair(T::pair(T::Atom(v.op.clone()), T::nil()), v.args.clone())
}

/// `(op (q . a1) (q . a2) …)` when `args` is a proper list
pub fn quoted_form(v: &Vector) -> Option<T> {
    let mut items = Vec::new();
    let mut t = &v.args;
    loop {
        match t {
            T::Pair(l, r) => {
                items.push(progs::quote((**l).clone()));
                t = r;
            }
            T::Atom(b) => {
                if !b.is_empty() {
                    return None;
                }
                break;
            }
        }
    }
    Some(T::pair(T::Atom(v.op.clone()), T::list(items)))
}

// ---------------------------------------------------------------- generator

/// restriction of a generated program to the classic operator set: `progs::random_program` also
/// emits `modpow` (60) and `%` (61); here every pair whose head is such an atom gets a classic
/// operator of the same arity class instead (a coincidental match inside quoted data is harmless)
pub fn restrict_classic(t: &T, classic_only: bool) -> T {
    if !classic_only {
        return t.clone();
    }
    match t {
        T::Atom(_) => t.clone(),
        T::Pair(l, r) => {
            let l2 = match &**l {
                T::Atom(b) if b.as_slice() == [60] => T::Atom(vec![18]),
                T::Atom(b) if b.as_slice() == [61] => T::Atom(vec![20]),
                T::Atom(b) if b.len() == 1 && (b[0] == 29 || b[0] == 30 || (48..=59).contains(&b[0])) => T::Atom(vec![b[0] | 0x40]),
                other => restrict_classic(other, true),
            };
            T::pair(l2, restrict_classic(r, true))
        }
    }
}

fn budgets_for(rng: &mut Rng, p: &T, e: &T) -> Vec<u64> {
    match run_default(p, e, 0) {
        Outcome::Ok(c, _) => {
            let mut v = vec![0, c];
            match rng.below(5) {
                0 => v.push(c.saturating_sub(1)),
                1 => v.push(c + 1),
                2 => v.push(rng.below(c.max(1)) + 1),
                3 => {
                    v.push(c.saturating_sub(1));
                    v.push(c + 1);
                }
                _ => v.push(u64::MAX),
            }
            v
        }
        Outcome::Err(_) => vec![0, rng.below(100000) + 1],
    }
}

pub fn corpus() -> Vec<(T, T)> {
    use progs::{atom, call, int, quote};
    let q = |v: i128| quote(int(v));
    let mut c: Vec<(T, T)> = vec![
        (quote(int(1)), T::nil()),
        (int(1), T::list(vec![int(5)])),
        (int(2), T::list(vec![int(5)])),
        (int(0), T::list(vec![int(5)])),
        (atom(&[0, 0, 2]), T::list(vec![int(5)])),
        (atom(&[0, 0, 0]), T::list(vec![int(5)])),
        (int(0x80), T::list((0..8).map(int).collect())),
        (atom(&[0x01, 0x00]), T::list((0..9).map(int).collect())),
        (atom(&[0xff, 0xff, 0xff, 0xff, 0x0f]), T::nil()),
        // Adapter.floorDiv: the region where the reference's `op_div` differs
        (call(19, vec![q(-1), q(10)]), T::nil()),
        (call(19, vec![q(1), q(-10)]), T::nil()),
        (call(19, vec![q(-11), q(10)]), T::nil()),
        (call(19, vec![q(-10), q(3)]), T::nil()),
        (call(19, vec![q(3), q(-10)]), T::nil()),
        (call(19, vec![q(10), q(0)]), T::nil()),
        (call(20, vec![q(-1), q(10)]), T::nil()),
        // operators computed at run time: the operator atom is a heap atom (substr / concat result), the
        // reference identifies operators by their bytes
        (call(2, vec![call(4, vec![call(12, vec![quote(atom(&[0x00, 0x10])), q(1)]), quote(T::list(vec![q(2), q(3)]))]), q(0)]), T::nil()),
        (call(2, vec![call(4, vec![call(12, vec![quote(atom(&[0xff, 0x12])), q(1)]), quote(T::list(vec![q(2), q(3)]))]), q(0)]), T::nil()),
        (call(2, vec![call(4, vec![call(12, vec![quote(atom(b"\x0bfoobar")), q(0), q(1)]), quote(T::list(vec![quote(atom(b"abc"))]))]), q(0)]), T::nil()),
        (call(2, vec![call(4, vec![call(12, vec![quote(atom(&[0x00, 0x01])), q(1)]), q(7)]), q(0)]), T::nil()),
        (call(2, vec![call(4, vec![call(14, vec![quote(atom(&[0x00])), quote(atom(&[0x10]))]), quote(T::list(vec![q(2), q(3)]))]), q(0)]), T::nil()),
        // Adapter.softforkGuard
        (call(36, vec![q(100)]), T::nil()),
        (call(36, vec![q(0)]), T::nil()),
        (call(36, vec![q(-1)]), T::nil()),
        (call(36, vec![]), T::nil()),
        (call(36, vec![quote(atom(&[0, 0, 0, 0, 0, 0, 0, 0, 0, 5]))]), T::nil()),
        (call(36, vec![quote(atom(&[1, 0, 0, 0, 0, 0, 0, 0, 0]))]), T::nil()),
        (call(36, vec![q(100), q(0)]), T::nil()),
        (call(36, vec![q(160), q(0), quote(q(1)), q(0)]), T::nil()),
        (call(36, vec![q(161), q(0), quote(q(1)), q(0)]), T::nil()),
        (call(36, vec![q(159), q(0), quote(q(1)), q(0)]), T::nil()),
        (call(36, vec![q(160), q(1), quote(q(1)), q(0)]), T::nil()),
        (call(36, vec![q(160), q(2), quote(q(1)), q(0)]), T::nil()),
        (call(36, vec![q(160), q(-1), quote(q(1)), q(0)]), T::nil()),
        (call(36, vec![q(160), q(0), quote(q(1)), q(0), q(0)]), T::nil()),
        (call(36, vec![q(1000), q(0), quote(call(8, vec![])), q(0)]), T::nil()),
        // nested guards
        (call(36, vec![q(381), q(0), quote(call(36, vec![q(160), q(1), quote(q(1)), q(0)])), q(0)]), T::nil()),
        // ((X) …)
        (T::pair(T::pair(atom(&[16]), T::nil()), T::list(vec![int(1), int(2)])), T::nil()),
        (T::pair(T::pair(atom(&[2]), T::nil()), T::list(vec![quote(int(7)), int(0)])), T::nil()),
        (T::pair(T::pair(atom(&[1]), T::nil()), T::list(vec![int(1), int(2)])), T::nil()),
        (T::pair(T::pair(T::pair(atom(&[16]), T::nil()), T::nil()), T::nil()), T::nil()),
        (T::pair(T::pair(atom(&[16]), T::pair(atom(&[17]), T::nil())), T::nil()), T::nil()),
        // finding C01-lenient-lists
        (T::pair(T::pair(atom(&[16]), atom(&[5])), T::nil()), T::nil()),
        (T::pair(T::pair(atom(&[16]), T::nil()), T::pair(int(1), T::pair(int(2), int(3)))), T::nil()),
        (T::pair(T::pair(atom(&[11]), T::nil()), T::pair(int(1), int(3))), T::nil()),
        // non-nil terminator of an evaluated operand list
        (T::pair(atom(&[16]), T::pair(q(1), T::pair(q(2), int(3)))), T::nil()),
        (T::pair(atom(&[16]), int(3)), T::nil()),
        // quote / apply corner cases
        (T::pair(atom(&[1]), int(3)), T::nil()),
        (call(2, vec![q(1)]), T::nil()),
        (call(2, vec![quote(int(2)), quote(T::list(vec![int(9)])), q(1)]), T::nil()),
        (T::pair(atom(&[2]), T::pair(quote(int(2)), T::pair(quote(T::list(vec![int(9)])), int(7)))), T::nil()),
        (T::pair(atom(&[0, 1]), int(3)), T::nil()),
        (T::pair(atom(&[]), int(3)), T::nil()),
        (T::pair(atom(&[0xff, 0xff]), T::nil()), T::nil()),
        (T::pair(atom(&[0xff, 0xfe, 0xff, 0xff, 0xff]), T::nil()), T::nil()),
        (T::pair(atom(&[0x00, 0xfe, 0xff, 0xff, 0xff, 0x00]), T::nil()), T::nil()),
        (T::pair(atom(&[0x13, 0xd6, 0x1f, 0x00]), T::nil()), T::nil()),
        (T::pair(atom(&[0x13, 0xd6, 0x1f, 0x01]), T::nil()), T::nil()),
        (call(15, vec![q(1)]), T::nil()),
        (call(28, vec![q(1)]), T::nil()),
        (call(31, vec![q(1)]), T::nil()),
        (call(35, vec![q(1)]), T::nil()),
        (call(62, vec![q(1)]), T::nil()),
        (call(65, vec![q(1)]), T::nil()),
    ];
    // operands computed at run time: an empty / zero / padded / small atom that is a substring view or a
    // concat result (never the interned nil, never an inline small atom) in every operand position of every
    // operator that inspects values — the reference sees bytes only
    {
        let hello = || quote(atom(b"hello"));
        let views: Vec<T> = vec![
            call(12, vec![hello(), q(2), q(2)]),                                   // empty view
            call(12, vec![hello(), q(5)]),                                         // empty view, two-argument form
            call(12, vec![quote(atom(&[0x68, 0x00, 0x6c, 0x6c, 0x6f])), q(1), q(2)]), // 0x00
            call(12, vec![quote(atom(&[0x68, 0x00, 0x05, 0x6c, 0x6f])), q(1), q(3)]), // 0x0005
            call(12, vec![quote(atom(&[0x68, 0x05, 0x6c, 0x6c, 0x6f])), q(1), q(2)]), // 5
            call(14, vec![quote(atom(&[0x00])), quote(atom(&[0x80]))]),            // 0x0080 by concat
            call(14, vec![]),                                                      // empty concat
        ];
        for (op, k) in [(3u8, 3usize), (32, 1), (33, 1), (33, 2), (34, 1), (34, 2), (16, 2), (17, 2), (18, 2), (19, 2), (20, 2), (21, 2), (10, 2), (9, 2),
                        (13, 1), (11, 2), (14, 2), (24, 2), (25, 2), (26, 2), (27, 1), (22, 2), (23, 2), (7, 1), (4, 2)] {
            for pos in 0..k {
                for v in &views {
                    let args: Vec<T> = (0..k).map(|i| if i == pos { v.clone() } else { q(7) }).collect();
                    c.push((call(op, args), T::nil()));
                }
            }
        }
    }
    // shifts at the limits, substr index rules
    for s in [65535i128, 65536, -65535, -65536, 1 << 31, -(1 << 31) - 1] {
        c.push((call(22, vec![q(3), q(s)]), T::nil()));
        c.push((call(23, vec![q(-3), q(s)]), T::nil()));
    }
    c.push((call(22, vec![q(3), quote(atom(&[0, 0, 0, 0, 1]))]), T::nil()));
    c.push((call(12, vec![quote(atom(b"abcdef")), quote(atom(&[0, 0, 0, 0, 1]))]), T::nil()));
    for (s, e) in [(0i128, 0i128), (0, 6), (0, 7), (6, 6), (7, 7), (3, 2), (-1, 2), (2, -1)] {
        c.push((call(12, vec![quote(atom(b"abcdef")), q(s), q(e)]), T::nil()));
    }
    c
}

pub fn generate(rng: &mut Rng, n: usize, tier: &str) -> Vec<String> {
    let mut out = Vec::new();
    let mut id = 0usize;
    let mut push = |budget: u64, p: &T, e: &T, extra: &str| {
        out.push(format!("REF f{} {} {} {}{}", id, budget, trees::to_hex(p), trees::to_hex(e), extra));
        id += 1;
    };
    // 1. corpus
    for (p, e) in corpus() {
        for b in budgets_for(rng, &p, &e) {
            push(b, &p, &e, "");
        }
    }
    // 1b. unknown operators whose cost is exactly the largest allowed one (2^32 - 1), and one byte of
    // argument either side (old cost model = the reference's)
    for (op, flags, sz) in crate::costs::exact_limit_cases() {
        if flags != 0 || sz.iter().any(|l| *l > 3000) {
            continue;
        }
        let args: Vec<T> = sz.iter().map(|l| progs::quote(T::Atom(crate::costs::zbuf()[..*l as usize].to_vec()))).collect();
        let p = T::pair(T::Atom(op.clone()), T::list(args));
        push(0, &p, &T::nil(), "");
    }
    // 2. the repository's vectors
    let vectors = load_vectors();
    let stride = if tier == "thorough" { 1 } else { 1 };
    for (i, v) in vectors.iter().enumerate() {
        if i % stride != 0 {
            continue;
        }
        let d = direct_form(v);
        push(0, &d, &T::nil(), "");
        if let Some(q) = quoted_form(v) {
            let bs = if rng.chance(1, 4) { budgets_for(rng, &q, &T::nil()) } else { vec![0] };
            for b in bs {
                push(b, &q, &T::nil(), "");
            }
        }
    }
    // 3. tests/programs (stress programs: small budgets only, class not canonicalised)
    if let Ok(rd) = std::fs::read_dir(format!("{}/tests/programs", repo_dir())) {
        let mut names: Vec<String> = rd.filter_map(|e| e.ok()).map(|e| e.file_name().to_string_lossy().to_string()).filter(|n| n.ends_with(".hex")).collect();
        names.sort();
        for nme in names {
            let base = nme.trim_end_matches(".hex");
            let Ok(ph) = std::fs::read_to_string(format!("{}/tests/programs/{}", repo_dir(), nme)) else { continue };
            let eh = std::fs::read_to_string(format!("{}/tests/programs/{}.envhex", repo_dir(), base)).unwrap_or_else(|_| "80".to_string());
            let limit = 100_000; // args-all / args-any (1.2 MB, 600k-element lists) are skipped: the harness tree type drops recursively
            if ph.trim().len() > limit {
                continue;
            }
            let (Some(p), Some(e)) = (trees::from_hex(ph.trim()), trees::from_hex(eh.trim())) else { continue };
            if base.contains("point_add") || base.contains("pubkey") {
                continue;
            }
            let bs: &[u64] = if tier == "thorough" { &[1, 5_000, 30_000, 300_000] } else { &[1, 5_000, 30_000] };
            for b in bs {
                push(*b, &p, &e, " nocanon");
            }
        }
    }
    // 4. generated programs over the classic operator set
    for _ in 0..n {
        let (p, e) = progs::random_program(rng, 25, true);
        let p = if rng.chance(1, 5) { progs::mutate(rng, &p) } else { p };
        let p = restrict_classic(&p, true);
        let e = restrict_classic(&e, true);
        for b in budgets_for(rng, &p, &e) {
            push(b, &p, &e, "");
        }
    }
    out
}

// ---------------------------------------------------------------- oracles

/// `ref_vectors`: the implementation against the expected results of the vector files, through
/// `run_program` (both program forms).  `ref_findings`: the witnesses of finding C01-lenient-lists.
pub fn oracle(name: &str, _rng: &mut Rng, _n: usize, _tier: &str) -> OracleReport {
    let mut rep = OracleReport::default();
    match name {
        "ref_vectors" => {
            for v in load_vectors() {
                let forms: Vec<(T, u64)> = {
                    let mut f = vec![(direct_form(&v), 90u64)];
                    if let Some(q) = quoted_form(&v) {
                        let nargs = {
                            let mut k = 0u64;
                            let mut t = &v.args;
                            while let T::Pair(_, r) = t {
                                k += 1;
                                t = r;
                            }
                            k
                        };
                        f.push((q, 1 + 20 * nargs));
                    }
                    f
                };
                for (prog, overhead) in forms {
                    rep.evaluations += 1;
                    let got = run_default(&prog, &T::nil(), 0);
                    match (&v.expect, got) {
                        (None, Outcome::Err(k)) => rep.hit(&format!("fail:{}", k)),
                        (None, Outcome::Ok(c, t)) => rep.fail("ref_vectors", format!("{}:{} expected FAIL, got ok {} {} for {}", v.file, v.line, c, trees::to_hex(&t), trees::to_hex(&prog))),
                        (Some((r, c)), Outcome::Ok(c2, t)) => {
                            rep.nontrivial += 1;
                            rep.hit("ok");
                            if *r != t || c + overhead != c2 {
                                rep.fail("ref_vectors", format!("{}:{} expected {} | {}+{}, got {} | {} for {}", v.file, v.line, trees::to_hex(r), c, overhead, trees::to_hex(&t), c2, trees::to_hex(&prog)));
                            }
                        }
                        (Some(_), Outcome::Err(k)) => rep.fail("ref_vectors", format!("{}:{} expected success, got err {} for {}", v.file, v.line, k, trees::to_hex(&prog))),
                    }
                }
            }
            rep.sample("vectors: test-core-ops.txt test-more-ops.txt test-sha256.txt test-unknown-ops.txt via run_program".to_string());
        }
        "ref_findings" => {
            use progs::{atom, int};
            // the reference rejects all of these ("in ((X)...) syntax X must be lone atom" /
            // "first of non-cons" from as_iter); a success is finding C01-lenient-lists
            let witnesses: Vec<(&str, T)> = vec![
                ("((16 . 5))", T::pair(T::pair(atom(&[16]), atom(&[5])), T::nil())),
                ("((16) 1 2 . 3)", T::pair(T::pair(atom(&[16]), T::nil()), T::pair(int(1), T::pair(int(2), int(3))))),
            ];
            for (txt, w) in witnesses {
                rep.evaluations += 1;
                rep.nontrivial += 1;
                match run_default(&w, &T::nil(), 0) {
                    Outcome::Ok(c, t) => {
                        rep.hit("accepted");
                        rep.fail("ref_findings", format!("KNOWN-C01-lenient-lists program {} = {} env 80: reference rejects, implementation returns ok {} {}", txt, trees::to_hex(&w), c, trees::to_hex(&t)));
                    }
                    Outcome::Err(k) => rep.hit(&format!("rejected:{}", k)),
                }
            }
            rep.sample("witnesses ((16 . 5)) and ((16) 1 2 . 3)".to_string());
        }
        _ => panic!("unknown oracle {name}"),
    }
    rep
}
