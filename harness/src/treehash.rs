//! C22: SHA-256 / Keccak-256 and every tree-hash implementation of the crate.
//!
//! `HASH <id> sha256|keccak256 <hex>`                      -> `ok <digest>`
//! `THASH <id> <variant> <hex>`                             node variants: hex = wire form of a tree
//!                                                          stream variants (`stream`, `triples`, `triples0`): raw bytes
//! `THASHDAG <id> <variant> a:HEX;h:HEX;p:i,j;…`            post-order node list built in ONE allocator
//!                                                          (`a` = new_atom, `h` = forced heap atom, `p` = new_pair of
//!                                                          earlier nodes, so shared sub-trees are the same NodePtr)
//! node variants: `costed:<new-model 0|1>:<budget>`, `op:<new-model>:<budget>` (node = argument list),
//!                `cache`, `intern`
use crate::rng::Rng;
use crate::util::*;
use chia_sha2::Sha256;
use clvmr::allocator::{Allocator, NodePtr};
use clvmr::chia_dialect::ClvmFlags;
use clvmr::reduction::Reduction;
use clvmr::serde::{ObjectCache, ParsedTriple, intern_tree, node_to_bytes, parse_triples, tree_hash_from_stream, treehash};
use clvmr::sha_tree_op::op_sha256_tree;
use clvmr::treehash::tree_hash_costed;
use sha3::{Digest, Keccak256};
use std::io::Cursor;

// ------------------------------------------------------------------ DAGs

#[derive(Clone, Debug)]
pub enum DNode {
    A(Vec<u8>),
    H(Vec<u8>),
    P(usize, usize),
}

pub fn render_dag(d: &[DNode]) -> String {
    d.iter()
        .map(|n| match n {
            DNode::A(b) => format!("a:{}", hex_or_dash(b)),
            DNode::H(b) => format!("h:{}", hex_or_dash(b)),
            DNode::P(l, r) => format!("p:{},{}", l, r),
        })
        .collect::<Vec<_>>()
        .join(";")
}

pub fn parse_dag(s: &str) -> Option<Vec<DNode>> {
    let mut out = Vec::new();
    for item in s.split(';') {
        let (k, v) = item.split_once(':')?;
        match k {
            "a" => out.push(DNode::A(parse_hex(v)?)),
            "h" => out.push(DNode::H(parse_hex(v)?)),
            "p" => {
                let (l, r) = v.split_once(',')?;
                let (l, r): (usize, usize) = (l.parse().ok()?, r.parse().ok()?);
                if l >= out.len() || r >= out.len() {
                    return None;
                }
                out.push(DNode::P(l, r));
            }
            _ => return None,
        }
    }
    if out.is_empty() { None } else { Some(out) }
}

/// a heap (`ObjectType::Bytes`) atom with exactly these bytes, whatever they are
fn heap_atom(a: &mut Allocator, b: &[u8]) -> NodePtr {
    let mut big = b.to_vec();
    big.extend_from_slice(&[0xff; 5]);
    let n = a.new_atom(&big).unwrap();
    a.new_substr(n, 0, b.len() as u32).unwrap()
}

pub fn build_dag(a: &mut Allocator, d: &[DNode]) -> NodePtr {
    let mut nodes: Vec<NodePtr> = Vec::with_capacity(d.len());
    for n in d {
        let p = match n {
            DNode::A(b) => a.new_atom(b).unwrap(),
            DNode::H(b) => heap_atom(a, b),
            DNode::P(l, r) => a.new_pair(nodes[*l], nodes[*r]).unwrap(),
        };
        nodes.push(p);
    }
    *nodes.last().unwrap()
}

/// the definition, written here with chia_sha2 only (one hash per DAG node)
pub fn ref_hashes(d: &[DNode]) -> Vec<[u8; 32]> {
    let mut hs: Vec<[u8; 32]> = Vec::with_capacity(d.len());
    for n in d {
        let mut s = Sha256::new();
        match n {
            DNode::A(b) | DNode::H(b) => {
                s.update([1u8]);
                s.update(b);
            }
            DNode::P(l, r) => {
                s.update([2u8]);
                s.update(hs[*l]);
                s.update(hs[*r]);
            }
        }
        hs.push(s.finalize());
    }
    hs
}

/// (pairs, atoms, sum of atom lengths) of the expanded tree, saturating
pub fn expanded(d: &[DNode]) -> Vec<(u64, u64, u64)> {
    let mut v: Vec<(u64, u64, u64)> = Vec::with_capacity(d.len());
    for n in d {
        v.push(match n {
            DNode::A(b) | DNode::H(b) => (0, 1, b.len() as u64),
            DNode::P(l, r) => {
                let (a, b) = (v[*l], v[*r]);
                (a.0.saturating_add(b.0).saturating_add(1), a.1.saturating_add(b.1), a.2.saturating_add(b.2))
            }
        });
    }
    v
}

const BASE: u64 = 270;
const PAIR: u64 = 460;
const MALLOC: u64 = 320;

pub fn spec_cost(d: &[DNode], new_model: bool) -> u64 {
    let (p, a, l) = *expanded(d).last().unwrap();
    let cpb = if new_model { 6 } else { 2 };
    BASE + PAIR * p + cpb * (l + a) + MALLOC
}

pub fn tree_to_dag(t: &crate::trees::T) -> Vec<DNode> {
    use crate::trees::T;
    enum Op<'a> {
        Visit(&'a T),
        Cons,
    }
    let mut out = Vec::new();
    let mut ops = vec![Op::Visit(t)];
    let mut vals: Vec<usize> = vec![];
    while let Some(op) = ops.pop() {
        match op {
            Op::Visit(T::Atom(b)) => {
                out.push(DNode::A(b.clone()));
                vals.push(out.len() - 1);
            }
            Op::Visit(T::Pair(l, r)) => {
                ops.push(Op::Cons);
                ops.push(Op::Visit(r));
                ops.push(Op::Visit(l));
            }
            Op::Cons => {
                let r = vals.pop().unwrap();
                let l = vals.pop().unwrap();
                out.push(DNode::P(l, r));
                vals.push(out.len() - 1);
            }
        }
    }
    out
}

// ------------------------------------------------------------------ running the real implementations

fn fmt_costed(a: &Allocator, r: clvmr::reduction::Response) -> String {
    match r {
        Ok(Reduction(cost, node)) => format!("ok {} {}", hex::encode(a.atom(node).as_ref()), cost),
        Err(e) => fmt_err(&e),
    }
}

fn flags(nm: &str) -> ClvmFlags {
    if nm == "1" { ClvmFlags::NEW_COST_MODEL } else { ClvmFlags::empty() }
}

fn run_node_variant(variant: &str, a: &mut Allocator, node: NodePtr) -> String {
    let parts: Vec<&str> = variant.split(':').collect();
    match parts[0] {
        "costed" if parts.len() == 3 => {
            let budget: u64 = parts[2].parse().unwrap();
            let r = tree_hash_costed(a, node, budget, flags(parts[1]));
            fmt_costed(a, r)
        }
        "op" if parts.len() == 3 => {
            let budget: u64 = parts[2].parse().unwrap();
            let r = op_sha256_tree(a, node, budget, flags(parts[1]));
            fmt_costed(a, r)
        }
        "cache" => {
            let mut oc = ObjectCache::new(treehash);
            match oc.get_or_calculate(a, &node, None) {
                Some(h) => format!("ok {}", hex::encode(h)),
                None => "ok none".to_string(),
            }
        }
        "intern" | "intern24" => match intern_tree(a, node) {
            Ok(t) => format!("ok {} {} {}", hex::encode(t.tree_hash()), t.atoms.len(), t.pairs.len()),
            Err(e) => fmt_err(&e),
        },
        _ => "bad-request".to_string(),
    }
}

fn render_triples(r: &[ParsedTriple], hs: &Option<Vec<[u8; 32]>>) -> String {
    let mut s = String::new();
    for t in r {
        match t {
            ParsedTriple::Atom { start, end, atom_offset } => s += &format!("a:{},{},{};", start, end, atom_offset),
            ParsedTriple::Pair { start, end, right_index } => s += &format!("p:{},{},{};", start, end, right_index),
        }
    }
    s.push('|');
    match hs {
        Some(l) => {
            for h in l {
                s += &hex::encode(h);
                s.push(',');
            }
        }
        None => s += "none",
    }
    s
}

fn sha256(b: &[u8]) -> [u8; 32] {
    let mut s = Sha256::new();
    s.update(b);
    s.finalize()
}

pub fn run_hash(args: &[&str]) -> String {
    let b = parse_hex(args[1]).unwrap();
    match args[0] {
        "sha256" => format!("ok {}", hex::encode(sha256(&b))),
        "keccak256" => {
            let mut k = Keccak256::new();
            k.update(&b);
            format!("ok {}", hex::encode(k.finalize()))
        }
        _ => "bad-request".into(),
    }
}

pub fn run_thash(args: &[&str]) -> String {
    let variant = args[0];
    match variant {
        "stream" => {
            let b = parse_hex(args[1]).unwrap();
            let mut c = Cursor::new(&b[..]);
            match tree_hash_from_stream(&mut c) {
                Ok(h) => format!("ok {} {}", hex::encode(h), c.position()),
                Err(e) => fmt_err(&e),
            }
        }
        "triples" | "triples0" => {
            let b = parse_hex(args[1]).unwrap();
            let mut c = Cursor::new(&b[..]);
            match parse_triples(&mut c, variant == "triples") {
                Ok((r, hs)) => {
                    let h0 = match &hs {
                        Some(l) if !l.is_empty() => hex::encode(l[0]),
                        _ => "-".to_string(),
                    };
                    format!("ok {} {} {} {}", h0, r.len(), c.position(), hex::encode(sha256(render_triples(&r, &hs).as_bytes())))
                }
                Err(e) => fmt_err(&e),
            }
        }
        _ => {
            let Some(t) = crate::trees::from_hex(args[1]) else { return "bad-request".into() };
            let mut a = Allocator::new();
            let node = crate::trees::build(&mut a, &t).unwrap();
            run_node_variant(variant, &mut a, node)
        }
    }
}

pub fn run_thashdag(args: &[&str]) -> String {
    let Some(d) = parse_dag(args[1]) else { return "bad-request".into() };
    let mut a = Allocator::new();
    let node = build_dag(&mut a, &d);
    run_node_variant(args[0], &mut a, node)
}

// ------------------------------------------------------------------ generators

/// canonical bytes of a non-negative integer
fn int_atom(v: u64) -> Vec<u8> {
    if v == 0 {
        return vec![];
    }
    let b = v.to_be_bytes();
    let skip = b.iter().take_while(|x| **x == 0).count();
    let mut r = b[skip..].to_vec();
    if r[0] & 0x80 != 0 {
        r.insert(0, 0);
    }
    r
}

const PAD_LENS: [usize; 14] = [0, 1, 54, 55, 56, 57, 62, 63, 64, 65, 118, 119, 120, 128];

fn special_atom(rng: &mut Rng) -> DNode {
    match rng.below(10) {
        0 => DNode::A(vec![]),
        1 | 2 => DNode::A(int_atom(rng.below(42))), // around the precomputed boundary 36/37
        3 => DNode::H(int_atom(rng.below(42))),     // same values, but as heap atoms (Buffer branch)
        4 => DNode::A(int_atom(*rng.pick(&[127, 128, 255, 256, 32767, 32768, 0x7fffff, 0x800000, (1 << 26) - 1, 1 << 26, (1 << 26) + 1, 0x7fffffff, 0x80000000]))),
        5 => {
            // SHA padding boundaries: the hashed message is 1 + len bytes
            let l = *rng.pick(&PAD_LENS);
            DNode::A(rng.bytes(l))
        }
        6 => DNode::A(vec![0u8; rng.below(3) as usize + 1]), // non-canonical zeros: never inline
        7 => {
            let l = rng.below(5) as usize;
            DNode::H(rng.bytes(l))
        }
        8 => DNode::A(crate::trees::random_atom(rng, 40)),
        _ => DNode::A(int_atom(rng.below(1 << 27))),
    }
}

/// random DAG with heavy sharing; expanded size (nodes of the unfolded tree) ≤ cap
pub fn random_dag(rng: &mut Rng, cap: u64) -> Vec<DNode> {
    let mut d: Vec<DNode> = Vec::new();
    let natoms = rng.below(6) as usize + 1;
    for _ in 0..natoms {
        d.push(special_atom(rng));
    }
    let mut size: Vec<u64> = vec![1; d.len()];
    let mut depth: Vec<u64> = vec![0; d.len()];
    let steps = rng.below(40) as usize;
    let style = rng.below(8);
    for _ in 0..steps {
        if rng.chance(1, 5) {
            d.push(special_atom(rng));
            size.push(1);
            depth.push(0);
            continue;
        }
        let n = d.len() as u64;
        let pick = |rng: &mut Rng| -> usize {
            if rng.chance(1, 2) { (n - 1 - rng.below(n.min(3))) as usize } else { rng.below(n) as usize }
        };
        let (l, r) = match style {
            0 => (d.len() - 1, d.len() - 1),                     // doubling: p:i,i
            1 => (d.len() - 1, rng.below(natoms as u64) as usize), // left spine
            2 => (rng.below(natoms as u64) as usize, d.len() - 1), // right spine (a list)
            _ => (pick(rng), pick(rng)),
        };
        let s = size[l].saturating_add(size[r]).saturating_add(1);
        let dp = depth[l].max(depth[r]) + 1;
        if s > cap || dp > 400 {
            continue;
        }
        d.push(DNode::P(l, r));
        size.push(s);
        depth.push(dp);
    }
    d
}

fn spine(rng: &mut Rng, n: usize, left: bool) -> Vec<DNode> {
    let mut d = vec![special_atom(rng), special_atom(rng)];
    let mut top = 0usize;
    for _ in 0..n {
        let leaf = rng.below(2) as usize;
        d.push(if left { DNode::P(top, leaf) } else { DNode::P(leaf, top) });
        top = d.len() - 1;
    }
    d
}

fn budget_for(rng: &mut Rng, d: &[DNode], nm: bool) -> u64 {
    let c = spec_cost(d, nm);
    match rng.below(8) {
        0 => c,
        1 => c - 1,
        2 => c - MALLOC,
        3 => c - MALLOC - 1,
        4 => rng.below(c + 1),
        5 => BASE - 1 + rng.below(3),
        _ => 1 << 60,
    }
}

fn node_variant(rng: &mut Rng, d: &[DNode]) -> (String, Vec<DNode>) {
    match rng.below(6) {
        0 | 1 => {
            let nm = rng.chance(1, 2);
            (format!("costed:{}:{}", nm as u8, budget_for(rng, d, nm)), d.to_vec())
        }
        2 => {
            // the operator: wrap the node in an argument list (mostly well-formed)
            let nm = rng.chance(1, 2);
            let b = budget_for(rng, d, nm);
            let mut d2 = d.to_vec();
            let root = d2.len() - 1;
            match rng.below(10) {
                0 => {} // the node itself as the argument list (usually wrong arity)
                1 => {
                    // two arguments
                    d2.push(DNode::A(vec![]));
                    d2.push(DNode::P(root, root + 1));
                    d2.push(DNode::P(root, root + 2));
                }
                2 => {
                    // improper terminator (any atom terminates the list)
                    d2.push(DNode::A(vec![7]));
                    d2.push(DNode::P(root, root + 1));
                }
                _ => {
                    d2.push(DNode::A(vec![]));
                    d2.push(DNode::P(root, root + 1));
                }
            }
            (format!("op:{}:{}", nm as u8, b), d2)
        }
        3 | 4 => ("cache".to_string(), d.to_vec()),
        // `intern24`: same implementation call; the model side composes C24's interning model with the cache hasher
        _ => ((if rng.chance(1, 2) { "intern" } else { "intern24" }).to_string(), d.to_vec()),
    }
}

pub fn generate(name: &str, rng: &mut Rng, n: usize, tier: &str) -> Vec<String> {
    let mut out = Vec::new();
    let thorough = tier == "thorough";
    match name {
        "hash" => {
            let mut id = 0;
            let maxlen = if thorough { 300 } else { 140 };
            for alg in ["sha256", "keccak256"] {
                for l in 0..=maxlen {
                    out.push(format!("HASH h{} {} {}", id, alg, hex_or_dash(&rng.bytes(l))));
                    id += 1;
                }
            }
            for _ in 0..n {
                let alg = if rng.chance(1, 2) { "sha256" } else { "keccak256" };
                let l = match rng.below(4) {
                    0 => rng.below(64 * 5) as usize,
                    1 => (136 * rng.below(6) as usize + rng.below(5) as usize).saturating_sub(2),
                    2 => (64 * rng.below(12) as usize + 54 + rng.below(5) as usize).saturating_sub(0),
                    _ => rng.below(if thorough { 20000 } else { 3000 }) as usize,
                };
                out.push(format!("HASH h{} {} {}", id, alg, hex_or_dash(&rng.bytes(l))));
                id += 1;
            }
        }
        "thash" => {
            let mut id = 0;
            let cap = if thorough { 20000 } else { 3000 };
            // every small integer around the precomputed table, inline and heap, all node variants
            for v in 0..=40u64 {
                for heap in [false, true] {
                    let leaf = if heap { DNode::H(int_atom(v)) } else { DNode::A(int_atom(v)) };
                    for var in ["costed:0:1152921504606846976", "costed:1:1152921504606846976", "cache", "intern", "intern24"] {
                        out.push(format!("THASHDAG t{} {} {}", id, var, render_dag(&[leaf.clone()])));
                        id += 1;
                    }
                    let d = vec![leaf.clone(), DNode::A(vec![]), DNode::P(0, 1)];
                    out.push(format!("THASHDAG t{} op:0:1152921504606846976 {}", id, render_dag(&d)));
                    id += 1;
                }
            }
            for l in PAD_LENS {
                for var in ["costed:0:1152921504606846976", "cache", "intern", "intern24"] {
                    out.push(format!("THASHDAG t{} {} {}", id, var, render_dag(&[DNode::A(rng.bytes(l))])));
                    id += 1;
                }
            }
            for (k, left) in [(if thorough { 3000 } else { 600 }, true), (if thorough { 3000 } else { 600 }, false)] {
                let d = spine(rng, k, left);
                for var in ["costed:1:1152921504606846976", "cache", "intern", "intern24"] {
                    out.push(format!("THASHDAG t{} {} {}", id, var, render_dag(&d)));
                    id += 1;
                }
            }
            for _ in 0..n {
                if rng.chance(1, 4) {
                    // plain tree through the wire form
                    let t = crate::trees::random_tree(rng, 40, 70);
                    let d = tree_to_dag(&t);
                    let (var, d2) = node_variant(rng, &d);
                    if var.starts_with("op") || var == "intern24" {
                        out.push(format!("THASHDAG t{} {} {}", id, var, render_dag(&d2)));
                    } else {
                        out.push(format!("THASH t{} {} {}", id, var, crate::trees::to_hex(&t)));
                    }
                } else {
                    let d = random_dag(rng, cap);
                    let (var, d2) = node_variant(rng, &d);
                    out.push(format!("THASHDAG t{} {} {}", id, var, render_dag(&d2)));
                }
                id += 1;
            }
        }
        "thash_stream" => {
            let mut id = 0;
            let mut push = |v: &str, b: &[u8]| {
                out.push(format!("THASH s{} {} {}", id, v, hex_or_dash(b)));
                id += 1;
            };
            // exhaustive short inputs
            for v in ["stream", "triples", "triples0"] {
                push(v, &[]);
                for x in 0..=255u8 {
                    push(v, &[x]);
                }
            }
            let two = if thorough { 256 } else { 16 };
            for x in 0..=255u8 {
                for y in 0..two {
                    let y = if thorough { y as u8 } else { [0u8, 1, 0x7f, 0x80, 0x81, 0xbf, 0xc0, 0xdf, 0xe0, 0xef, 0xf0, 0xf7, 0xf8, 0xfb, 0xfe, 0xff][y] };
                    push("stream", &[x, y]);
                    push("triples", &[x, y]);
                }
            }
            for _ in 0..n {
                let v = *rng.pick(&["stream", "triples", "triples", "triples0"]);
                let d = if rng.chance(1, 2) { random_dag(rng, 300) } else { tree_to_dag(&crate::trees::random_tree(rng, 30, 80)) };
                let mut a = Allocator::new();
                let node = build_dag(&mut a, &d);
                let mut b = node_to_bytes(&a, node).unwrap();
                match rng.below(10) {
                    0 => {
                        let k = rng.below(b.len() as u64 + 1) as usize;
                        b.truncate(k);
                    }
                    1 => {
                        let extra = rng.below(4) as usize + 1;
                        b.extend(rng.bytes(extra));
                    }
                    2 => {
                        let k = rng.below(b.len() as u64) as usize;
                        b[k] = *rng.pick(&[0xff, 0xfe, 0x80, 0x00, 0xc0, 0xe0, 0xf0, 0xf8, 0xfc, 0xbf]);
                    }
                    3 => {
                        // non-canonical / over-long length prefixes and huge declared sizes
                        let bl = rng.below(4) as usize;
                        let body = rng.bytes(bl);
                        let pre: Vec<u8> = match rng.below(7) {
                            0 => vec![0xc0, body.len() as u8],
                            1 => vec![0xe0, 0, body.len() as u8],
                            2 => vec![0xf0, 0, 0, body.len() as u8],
                            3 => vec![0xf8, 0, 0, 0, body.len() as u8],
                            4 => vec![0xfc, 0, 0, 0, 0, body.len() as u8],
                            5 => vec![0xfb, 0xff, 0xff, 0xff, 0xff],
                            _ => vec![0xfe, 0, 0, 0, 0, 0, body.len() as u8],
                        };
                        b = vec![0xff];
                        b.extend(&pre);
                        b.extend(&body);
                        b.push(0x80);
                    }
                    4 => {
                        let l = rng.below(12) as usize + 1;
                        b = rng.bytes(l);
                    }
                    _ => {}
                }
                push(v, &b);
            }
        }
        _ => panic!("unknown stream {name}"),
    }
    out
}

// ------------------------------------------------------------------ oracle: the property on the implementation alone

fn check_dag(rep: &mut OracleReport, d: &[DNode]) {
    let hs = ref_hashes(d);
    let want = *hs.last().unwrap();
    let desc = || render_dag(d).chars().take(400).collect::<String>();
    let ex = *expanded(d).last().unwrap();
    rep.evaluations += 1;
    if ex.0 > 0 {
        rep.nontrivial += 1;
    }
    rep.hit(&format!("pairs_log2_{}", 64 - ex.0.leading_zeros()));
    if d.len() as u64 != ex.0 + ex.1 {
        rep.hit("shared");
    }
    let mut a = Allocator::new();
    let node = build_dag(&mut a, d);
    for nm in [false, true] {
        let fl = if nm { ClvmFlags::NEW_COST_MODEL } else { ClvmFlags::empty() };
        match tree_hash_costed(&mut a, node, u64::MAX, fl) {
            Ok(Reduction(cost, n)) => {
                if a.atom(n).as_ref() != want {
                    rep.fail("costed_eq_def", format!("dag={} new_model={nm} got={} want={}", desc(), hex::encode(a.atom(n).as_ref()), hex::encode(want)));
                }
                if cost != spec_cost(d, nm) {
                    rep.fail("costed_cost_formula", format!("dag={} new_model={nm} cost={cost} formula={}", desc(), spec_cost(d, nm)));
                }
                // exactly at the cost it succeeds, one below it fails
                if tree_hash_costed(&mut a, node, cost, fl).is_err() || tree_hash_costed(&mut a, node, cost - 1, fl).is_ok() {
                    rep.fail("costed_budget_tight", format!("dag={} new_model={nm} cost={cost}", desc()));
                }
            }
            Err(e) => rep.fail("costed_eq_def", format!("dag={} new_model={nm} err={}", desc(), err_kind(&e))),
        }
    }
    // the operator on (node)
    let nil = a.nil();
    let args = a.new_pair(node, nil).unwrap();
    match op_sha256_tree(&mut a, args, u64::MAX, ClvmFlags::empty()) {
        Ok(Reduction(_, n)) if a.atom(n).as_ref() == want => {}
        other => rep.fail("op_eq_def", format!("dag={} got={:?}", desc(), other.map(|r| hex::encode(a.atom(r.1).as_ref())).map_err(|e| err_kind(&e)))),
    }
    // object cache: every node of the DAG, one shared cache
    let mut oc = ObjectCache::new(treehash);
    match oc.get_or_calculate(&a, &node, None) {
        Some(h) if *h == want => {}
        other => rep.fail("cache_eq_def", format!("dag={} got={:?}", desc(), other.map(hex::encode))),
    }
    // interned
    match intern_tree(&a, node) {
        Ok(t) => {
            if t.tree_hash() != want {
                rep.fail("intern_eq_def", format!("dag={} got={}", desc(), hex::encode(t.tree_hash())));
            }
        }
        Err(e) => rep.fail("intern_eq_def", format!("dag={} err={}", desc(), err_kind(&e))),
    }
    // stream based, on the crate's own serialization
    // node_to_bytes refuses outputs above 2,000,000 bytes (OutOfMemory): only serialize below that
    if ex.0 + ex.1 < 200_000 && ex.0 + 6 * ex.1 + ex.2 < 2_000_000 {
        match node_to_bytes(&a, node) {
            Ok(b) => {
                let mut c = Cursor::new(&b[..]);
                match tree_hash_from_stream(&mut c) {
                    Ok(h) if h == want && c.position() as usize == b.len() => {}
                    other => rep.fail("stream_eq_def", format!("dag={} got={:?} pos={}", desc(), other.map(hex::encode).map_err(|e| err_kind(&e)), c.position())),
                }
                // the same object as the *second* one of a stream: the cursor starts at a non-zero
                // position and other bytes follow (C22-7: buffer offsets relative to the start position)
                {
                    let mut buf: Vec<u8> = b[..b.len().min(3)].to_vec();
                    buf.push(0x80);
                    let start = buf.len();
                    buf.extend_from_slice(&b);
                    buf.extend_from_slice(&b);
                    let mut c = Cursor::new(&buf[..]);
                    c.set_position(start as u64);
                    match tree_hash_from_stream(&mut c) {
                        Ok(h) if h == want && c.position() as usize == start + b.len() => {}
                        other => rep.fail("stream_eq_def", format!("dag={} cursor starting at {} got={:?} pos={}", desc(), start, other.map(hex::encode).map_err(|e| err_kind(&e)), c.position())),
                    }
                }
                let mut c = Cursor::new(&b[..]);
                match parse_triples(&mut c, true) {
                    Ok((r, Some(hs))) if !hs.is_empty() && hs[0] == want && hs.len() == r.len() && r.len() as u64 == ex.0 + ex.1 => {
                        // every triple's hash is the hash of the sub-tree it denotes: check pairs against children
                        for (i, t) in r.iter().enumerate() {
                            if let ParsedTriple::Pair { right_index, .. } = t {
                                let mut s = Sha256::new();
                                s.update([2u8]);
                                s.update(hs[i + 1]);
                                s.update(hs[*right_index as usize]);
                                if s.finalize() != hs[i] {
                                    rep.fail("triples_eq_def", format!("dag={} pair triple {i} hash is not sha256(2|left|right)", desc()));
                                }
                            }
                            if let ParsedTriple::Atom { start, end, atom_offset } = t {
                                let body = &b[(*start as usize + *atom_offset as usize)..*end as usize];
                                let mut s = Sha256::new();
                                s.update([1u8]);
                                s.update(body);
                                if s.finalize() != hs[i] {
                                    rep.fail("triples_eq_def", format!("dag={} atom triple {i} hash is not sha256(1|atom)", desc()));
                                }
                            }
                        }
                    }
                    other => rep.fail("triples_eq_def", format!("dag={} got={:?}", desc(), other.map(|(r, h)| (r.len(), h.map(|h| h.first().map(hex::encode)))).map_err(|e| err_kind(&e)))),
                }
                // the same through a reader that returns short reads (socket / pipe / decompressor): the
                // reader's chunking must not be observable
                if b.len() < 20_000 {
                    for chunk in [1usize, 5, 7, 64, 257] {
                        let mut cr = ChunkedReader { data: &b[..], pos: 0, chunk };
                        match parse_triples(&mut cr, true) {
                            Ok((_, Some(hs))) if !hs.is_empty() && hs[0] == want => {}
                            other => {
                                rep.fail("triples_chunked", format!("dag={} reads of at most {} bytes: got={:?}", desc(), chunk, other.map(|(r, h)| (r.len(), h.map(|h| h.first().map(hex::encode)))).map_err(|e| err_kind(&e))));
                                break;
                            }
                        }
                    }
                }
            }
            Err(e) => rep.fail("stream_eq_def", format!("dag={} node_to_bytes err={}", desc(), err_kind(&e))),
        }
    }
    else {
        rep.hit("too_big_to_serialize");
    }
    rep.sample(format!("{} -> {}", desc().chars().take(80).collect::<String>(), hex::encode(want)));
}

pub fn oracle(name: &str, rng: &mut Rng, n: usize, tier: &str) -> OracleReport {
    let mut rep = OracleReport::default();
    let thorough = tier == "thorough";
    match name {
        "thash_agree" => {
            // the precomputed table boundary, inline and heap
            for v in 0..=300u64 {
                check_dag(&mut rep, &[DNode::A(int_atom(v))]);
                check_dag(&mut rep, &[DNode::H(int_atom(v))]);
            }
            // all one-byte and some two-byte atoms (canonical or not)
            for x in 0..=255u8 {
                check_dag(&mut rep, &[DNode::A(vec![x])]);
                check_dag(&mut rep, &[DNode::A(vec![0, x])]);
                check_dag(&mut rep, &[DNode::A(vec![0xff, x])]);
            }
            for l in 0..=200usize {
                check_dag(&mut rep, &[DNode::A(rng.bytes(l))]);
            }
            for (k, left) in [(20000usize, true), (20000, false)] {
                let d = spine(rng, if thorough { k } else { k / 10 }, left);
                check_dag(&mut rep, &d);
            }
            // exponential sharing: 2^k leaves through k nodes
            let mut d = vec![DNode::A(vec![1])];
            for i in 0..(if thorough { 18 } else { 12 }) {
                d.push(DNode::P(i, i));
            }
            check_dag(&mut rep, &d);
            for _ in 0..n {
                let d = if rng.chance(1, 4) {
                    tree_to_dag(&crate::trees::random_tree(rng, 60, 130))
                } else {
                    random_dag(rng, if thorough { 50000 } else { 5000 })
                };
                check_dag(&mut rep, &d);
            }
        }
        "hash_vectors" => {
            // FIPS 180-4 / Keccak team vectors against the crates the implementation uses
            let v = [
                ("sha256", "", "e3b0c44298fc1c149afbf4c8996fb92427ae41e4649b934ca495991b7852b855"),
                ("sha256", "616263", "ba7816bf8f01cfea414140de5dae2223b00361a396177a9cb410ff61f20015ad"),
                ("keccak256", "", "c5d2460186f7233c927e7db2dcc703c0e500b653ca82273b7bfad8045d85a470"),
                ("keccak256", "616263", "4e03657aea45a94fc7d47ba826c8d667c0d1e6e33a64a036ec44f58fa12d6c45"),
            ];
            for (alg, m, want) in v {
                rep.evaluations += 1;
                rep.nontrivial += 1;
                let got = run_hash(&[alg, if m.is_empty() { "-" } else { m }]);
                if got != format!("ok {want}") {
                    rep.fail("hash_vectors", format!("{alg}({m}) = {got}, want {want}"));
                }
            }
            // streaming = one shot
            for _ in 0..n.min(500) {
                rep.evaluations += 1;
                let ml = rng.below(400) as usize;
                let m = rng.bytes(ml);
                let k = rng.below(m.len() as u64 + 1) as usize;
                let mut s = Sha256::new();
                s.update(&m[..k]);
                s.update(&m[k..]);
                if s.finalize() != sha256(&m) {
                    rep.fail("sha256_streaming", format!("m={} split={k}", hex::encode(&m)));
                }
                rep.nontrivial += (m.len() > 1) as u64;
            }
        }
        _ => panic!("unknown oracle {name}"),
    }
    rep
}

/// an `io::Read` that never returns more than `chunk` bytes per call
struct ChunkedReader<'a> {
    data: &'a [u8],
    pos: usize,
    chunk: usize,
}

impl std::io::Read for ChunkedReader<'_> {
    fn read(&mut self, buf: &mut [u8]) -> std::io::Result<usize> {
        let n = buf.len().min(self.chunk).min(self.data.len() - self.pos);
        buf[..n].copy_from_slice(&self.data[self.pos..self.pos + n]);
        self.pos += n;
        Ok(n)
    }
}
