//! C09 / C10: operator costs.  Two request kinds with *compact* argument lists (so that operands of
//! several MiB fit on one request line), two streams and two oracles.
//!
//! ```text
//! OPZ  <id> <op_fn_name> <flags:hex> <budget:u64 decimal> <items>
//! UNKZ <id> <opcode-hex or '-' for empty> <flags:hex> <budget> <items>
//! items := '-'                      (the empty argument list = nil)
//!        | item (',' item)*         (a proper nil-terminated list of the items)
//! item  := 'p'                      the pair (1 . 2)  [both atoms small: new_atom(&[1]), new_atom(&[2])]
//!        | <hex>'~'<off>'+'<len>    an atom whose bytes are the hex-decoded prefix (the hex may be empty,
//!                                   then the item starts with '~') followed by ZBUF[off .. off+len)
//! ```
//!
//! ZBUF is a fixed shared buffer of 8 MiB + 64 KiB bytes, `ZBUF[i] = (((i as u64) * 2654435761) >> 13) as u8`.
//! Every atom is built with `a.new_atom(&bytes)` (the allocator chooses the representation), except
//! empty bytes ⇒ `a.nil()` and bytes == [1] ⇒ `a.one()`.  Identical item strings within one request
//! reuse the SAME NodePtr (arguments may alias one node).  The list is built with `new_pair` from
//! the right.  Flags: `ClvmFlags::from_bits_truncate(u32::from_str_radix(flags, 16))`.
//!
//! OPZ calls `run::op_by_name(name)` as `f(&mut a, args, budget, flags)`; UNKZ builds the opcode atom
//! with `a.new_atom(&opcode)` and calls `clvmr::more_ops::op_unknown(&mut a, o, args, budget, flags)`.
//! The counters (atom_count, pair_count, heap_size) are sampled right before and right after the call.
//!
//! Reply body: `ok <cost> <res> <d_atoms> <d_pairs> <d_heap>` | `err <Kind>`.
//! `<res>`: let s = hex of the classic serialization of the result; if `s.len() <= 160` then `s` else
//! `"{s.len()}:{first 64 hex digits}:{last 64 hex digits}"`.
//!
//! Streams: `costs_op` (OPZ; all 29 non-crypto operators × both cost models × MALACHITE on/off,
//! operand sizes from boundary classes up to 64 KiB (quick) / 4 MiB (thorough), budgets derived from the
//! real cost) and `costs_unknown` (UNKZ; multipliers landing on/around 2^32−1, reserved / over-long
//! opcodes, budgets around the base cost, pairs in argument position, aliased arguments).
//!
//! Oracles: `costs_vectors` replays the op-tests vector files of the crate for the non-crypto
//! operators (a port of the text parser of `/repo/src/test_ops.rs`); `unknown_rule` compares
//! `op_unknown` with an independent implementation of the documented rule over u128, including the
//! reproduction of finding B (old cost model: `wrapping_mul` of base × (multiplier+1)).
use crate::progs;
use crate::rng::Rng;
use crate::run::{OpF, op_by_name};
use crate::trees;
use crate::util::*;
use clvmr::allocator::{Allocator, NodePtr, SExp};
use clvmr::chia_dialect::ClvmFlags;
use clvmr::cost::Cost;
use clvmr::more_ops::op_unknown;
use clvmr::number::Number;
use clvmr::reduction::{Reduction, Response};
use std::collections::HashMap;
use std::panic::{AssertUnwindSafe, catch_unwind};
use std::sync::OnceLock;

// ------------------------------------------------------------------------------------------------
// protocol: ZBUF, items, OPZ, UNKZ
// ------------------------------------------------------------------------------------------------

pub const ZBUF_LEN: usize = (8 << 20) + (64 << 10);

pub fn zbuf() -> &'static [u8] {
    static Z: OnceLock<Vec<u8>> = OnceLock::new();
    Z.get_or_init(|| (0..ZBUF_LEN).map(|i| (((i as u64) * 2654435761u64) >> 13) as u8).collect())
}

/// bytes of an atom item `<hex>~<off>+<len>`
fn item_bytes(item: &str) -> Option<Vec<u8>> {
    let (pre, rest) = item.split_once('~')?;
    let (off, len) = rest.split_once('+')?;
    let mut b = if pre.is_empty() { vec![] } else { hex::decode(pre).ok()? };
    let off: usize = off.parse().ok()?;
    let len: usize = len.parse().ok()?;
    let end = off.checked_add(len)?;
    if end > ZBUF_LEN {
        return None;
    }
    b.extend_from_slice(&zbuf()[off..end]);
    Some(b)
}

fn build_atom(a: &mut Allocator, b: &[u8]) -> NodePtr {
    if b.is_empty() {
        a.nil()
    } else if b == [1u8] {
        a.one()
    } else {
        a.new_atom(b).unwrap()
    }
}

/// the argument list of a request; identical item strings share one node
fn build_items(a: &mut Allocator, items: &str) -> Option<NodePtr> {
    if items == "-" {
        return Some(a.nil());
    }
    let mut seen: HashMap<&str, NodePtr> = HashMap::new();
    let mut nodes = Vec::new();
    for it in items.split(',') {
        if let Some(n) = seen.get(it) {
            nodes.push(*n);
            continue;
        }
        let n = if it == "p" {
            let l = a.new_atom(&[1]).unwrap();
            let r = a.new_atom(&[2]).unwrap();
            a.new_pair(l, r).unwrap()
        } else {
            let b = item_bytes(it)?;
            build_atom(a, &b)
        };
        seen.insert(it, n);
        nodes.push(n);
    }
    let mut list = a.nil();
    for n in nodes.into_iter().rev() {
        list = a.new_pair(n, list).unwrap();
    }
    Some(list)
}

fn counts(a: &Allocator) -> (i64, i64, i64) {
    (a.atom_count() as i64, a.pair_count() as i64, a.heap_size() as i64)
}

fn reply(a: &Allocator, before: (i64, i64, i64), r: Response) -> String {
    match r {
        Ok(Reduction(cost, node)) => {
            let after = counts(a);
            let s = trees::to_hex(&trees::from_node(a, node));
            let res = if s.len() <= 160 { s } else { format!("{}:{}:{}", s.len(), &s[..64], &s[s.len() - 64..]) };
            format!("ok {} {} {} {} {}", cost, res, after.0 - before.0, after.1 - before.1, after.2 - before.2)
        }
        Err(e) => fmt_err(&e),
    }
}

/// `OPZ <op_fn_name> <flags:hex> <budget> <items>`
pub fn run_opz(args: &[&str]) -> String {
    if args.len() < 4 {
        return "bad-request".into();
    }
    let Some(f) = op_by_name(args[0]) else { return "bad-request".into() };
    let Ok(flags) = u32::from_str_radix(args[1], 16) else { return "bad-request".into() };
    let Ok(budget) = args[2].parse::<u64>() else { return "bad-request".into() };
    let mut a = Allocator::new();
    let Some(list) = build_items(&mut a, args[3]) else { return "bad-request".into() };
    let before = counts(&a);
    let r = f(&mut a, list, budget, ClvmFlags::from_bits_truncate(flags));
    reply(&a, before, r)
}

/// `UNKZ <opcode-hex|-> <flags:hex> <budget> <items>`
pub fn run_unkz(args: &[&str]) -> String {
    if args.len() < 4 {
        return "bad-request".into();
    }
    let Some(opcode) = parse_hex(args[0]) else { return "bad-request".into() };
    let Ok(flags) = u32::from_str_radix(args[1], 16) else { return "bad-request".into() };
    let Ok(budget) = args[2].parse::<u64>() else { return "bad-request".into() };
    let mut a = Allocator::new();
    let o = a.new_atom(&opcode).unwrap();
    let Some(list) = build_items(&mut a, args[3]) else { return "bad-request".into() };
    let before = counts(&a);
    let r = op_unknown(&mut a, o, list, budget, ClvmFlags::from_bits_truncate(flags));
    reply(&a, before, r)
}

// ------------------------------------------------------------------------------------------------
// generators: shared helpers
// ------------------------------------------------------------------------------------------------

const PREFIXES: [&str; 13] = ["", "", "", "00", "0000", "ff", "ffff", "80", "7f", "01", "00ff", "ff00", "0080"];

const BYTE_SIZES: [usize; 24] = [0, 1, 2, 3, 4, 5, 8, 9, 31, 32, 33, 255, 256, 257, 1023, 1024, 1025, 2047, 2048, 2049, 8191, 8192, 65535, 65536];
const BYTE_SIZES_BIG: [usize; 3] = [1 << 20, (1 << 22) - 1, 1 << 22];
const INT_SIZES: [usize; 21] = [0, 1, 2, 3, 4, 5, 7, 8, 9, 15, 16, 17, 255, 256, 257, 1023, 1024, 1025, 2047, 2048, 2049];

fn join_items(items: &[String]) -> String {
    if items.is_empty() { "-".to_string() } else { items.join(",") }
}

/// an atom given literally (hex prefix only)
fn lit(b: &[u8]) -> String {
    format!("{}~0+0", hex::encode(b))
}

/// minimal big-endian two's complement
fn lit_int(v: i128) -> String {
    match progs::int(v) {
        trees::T::Atom(b) => lit(&b),
        _ => unreachable!(),
    }
}

/// total length in bytes of an atom item (0 for `p`)
fn item_len(item: &str) -> usize {
    if item == "p" {
        return 0;
    }
    let (pre, rest) = item.split_once('~').unwrap();
    let (_, len) = rest.split_once('+').unwrap();
    pre.len() / 2 + len.parse::<usize>().unwrap()
}

/// an atom of exactly `size` bytes: a random prefix (dropped when it does not fit) + a ZBUF slice
fn sized_item_with(rng: &mut Rng, size: usize, prefixes: &[&str]) -> String {
    let mut pre = *rng.pick(prefixes);
    if pre.len() / 2 > size {
        pre = "";
    }
    let len = size - pre.len() / 2;
    let off = rng.below(4 << 20) as usize;
    format!("{pre}~{off}+{len}")
}

fn sized_item(rng: &mut Rng, size: usize) -> String {
    sized_item_with(rng, size, &PREFIXES)
}

fn byte_size(rng: &mut Rng, thorough: bool) -> usize {
    if thorough && rng.chance(1, 6) {
        return if rng.chance(1, 2) { *rng.pick(&BYTE_SIZES_BIG) } else { rng.below((4 << 20) + 1) as usize };
    }
    if rng.chance(1, 2) { *rng.pick(&BYTE_SIZES) } else { rng.below(65537) as usize }
}

/// The Lean model decodes and encodes big-endian integers in quadratic time (≈ 3 s for a 64 KiB
/// operand, ≈ 50 ms for 8 KiB), so large integer operands are rationed: quick ≤ 2048 bytes with 1 in 25
/// at 4096 / 8192; thorough additionally 1 in 10 up to 16 KiB and 1 in 250 at 64 KiB.
fn int_size(rng: &mut Rng, thorough: bool) -> usize {
    if thorough {
        if rng.chance(1, 250) {
            return 65536;
        }
        if rng.chance(1, 10) {
            return rng.below(16385) as usize;
        }
    }
    if rng.chance(1, 25) {
        return *rng.pick(&[4096usize, 8192]);
    }
    if rng.chance(1, 2) { *rng.pick(&INT_SIZES) } else { rng.below(2049) as usize }
}

fn byte_atom(rng: &mut Rng, thorough: bool) -> String {
    let s = byte_size(rng, thorough);
    sized_item(rng, s)
}

fn int_atom(rng: &mut Rng, thorough: bool) -> String {
    let s = int_size(rng, thorough);
    sized_item(rng, s)
}

/// `ok <cost> …` ↦ cost
fn cost_of_reply(r: &str) -> Option<u64> {
    let mut it = r.split(' ');
    if it.next() != Some("ok") {
        return None;
    }
    it.next()?.parse().ok()
}

// ------------------------------------------------------------------------------------------------
// stream costs_op
// ------------------------------------------------------------------------------------------------

const VARIADIC_BYTE: [&str; 4] = ["op_sha256", "op_concat", "op_any", "op_all"];
const VARIADIC_INT: [&str; 6] = ["op_add", "op_subtract", "op_multiply", "op_logand", "op_logior", "op_logxor"];

/// the same bytes as `item` written as a different item string (first ZBUF byte moved into the
/// prefix), so that equal contents live in two distinct nodes
fn respell(item: &str) -> Option<String> {
    let (pre, rest) = item.split_once('~')?;
    let (off, len) = rest.split_once('+')?;
    let off: usize = off.parse().ok()?;
    let len: usize = len.parse().ok()?;
    if len == 0 {
        return None;
    }
    Some(format!("{}{:02x}~{}+{}", pre, zbuf()[off], off + 1, len - 1))
}

fn shift_literal(rng: &mut Rng) -> String {
    match rng.below(12) {
        0 => lit_int(*rng.pick(&[65535i128, -65535, 65536, -65536])),
        1 => {
            // a 5-byte value: not an int32
            if rng.chance(1, 2) {
                lit(&[1, 0, 0, 0, 0])
            } else {
                let mut b = rng.bytes(5);
                if b[0] == 0 || b[0] == 0xff {
                    b[0] = 0x12;
                }
                lit(&b)
            }
        }
        2 => lit_int(rng.range(-9, 9) as i128),
        _ => lit_int(rng.range(-300, 300) as i128),
    }
}

fn index_value(rng: &mut Rng, size: usize) -> i128 {
    let size = size as i64;
    match rng.below(4) {
        0 => size as i128,
        1 => rng.range(-1, (size + 1).min(8)) as i128,
        _ => rng.range(-1, size + 1) as i128,
    }
}

fn nonzero_divisor(rng: &mut Rng, thorough: bool) -> String {
    let s = int_size(rng, thorough).max(1);
    // every one of these prefixes makes the value non-zero whatever follows
    sized_item_with(rng, s, &["01", "01", "01", "01", "ff", "80", "7f", "00ff", "0080"])
}

fn zero_literal(rng: &mut Rng) -> String {
    rng.pick(&["~0+0", "00~0+0", "0000~0+0"]).to_string()
}

fn gen_args(rng: &mut Rng, thorough: bool, name: &str, flags: u32) -> Vec<String> {
    let limits = flags & 0x40 != 0;
    let mut args: Vec<String> = Vec::new();
    if VARIADIC_BYTE.contains(&name) || VARIADIC_INT.contains(&name) {
        if name == "op_sha256" && rng.chance(1, 5) {
            // the precomputed-hash fast path (1 k)
            let k = rng.below(45) as u8;
            return vec!["01~0+0".to_string(), format!("{:02x}~0+0", k)];
        }
        let n = rng.below(7) as usize;
        for _ in 0..n {
            if !args.is_empty() && rng.chance(1, 4) {
                let x = rng.pick(&args).clone();
                args.push(x);
            } else if VARIADIC_BYTE.contains(&name) {
                args.push(byte_atom(rng, thorough));
            } else {
                args.push(int_atom(rng, thorough));
            }
        }
        if name == "op_multiply" && args.iter().any(|x| item_len(x) > 4096) {
            args.truncate(4);
        }
    } else {
        match name {
            "op_if" => {
                args.push(if rng.chance(1, 3) { "~0+0".to_string() } else { byte_atom(rng, thorough) });
                args.push(byte_atom(rng, thorough));
                args.push(byte_atom(rng, thorough));
            }
            "op_cons" => {
                for _ in 0..2 {
                    args.push(if rng.chance(1, 4) { "p".to_string() } else { byte_atom(rng, thorough) });
                }
            }
            "op_first" | "op_rest" => args.push(if rng.chance(1, 2) { "p".to_string() } else { byte_atom(rng, thorough) }),
            "op_listp" => args.push(if rng.chance(1, 3) { "p".to_string() } else { byte_atom(rng, thorough) }),
            "op_raise" | "op_strlen" | "op_not" => args.push(byte_atom(rng, thorough)),
            "op_eq" | "op_gr_bytes" => {
                let x = byte_atom(rng, thorough);
                let y = match rng.below(8) {
                    0 => x.clone(),                                // the same node twice
                    1 => respell(&x).unwrap_or_else(|| x.clone()), // equal bytes, two nodes
                    2 => {
                        // common prefix, different length
                        let (pre, rest) = x.split_once('~').unwrap();
                        let (off, len) = rest.split_once('+').unwrap();
                        let len: usize = len.parse().unwrap();
                        let l2 = if rng.chance(1, 2) { len.saturating_sub(1) } else { len + 1 };
                        format!("{pre}~{off}+{l2}")
                    }
                    _ => byte_atom(rng, thorough),
                };
                if rng.chance(1, 2) {
                    args.push(x);
                    args.push(y);
                } else {
                    args.push(y);
                    args.push(x);
                }
            }
            "op_substr" => {
                let x = byte_atom(rng, thorough);
                let size = item_len(&x);
                args.push(x);
                let s = index_value(rng, size);
                if rng.chance(1, 3) {
                    args.push(lit_int(s));
                } else {
                    // mostly start <= end
                    let e = index_value(rng, size);
                    let (s, e) = if s > e && rng.chance(3, 4) { (e, s) } else { (s, e) };
                    args.push(lit_int(s));
                    args.push(lit_int(e));
                }
            }
            "op_div" | "op_divmod" | "op_mod" => {
                args.push(int_atom(rng, thorough));
                args.push(if rng.chance(1, 20) { zero_literal(rng) } else { nonzero_divisor(rng, thorough) });
            }
            "op_gr" => {
                let x = int_atom(rng, thorough);
                let y = match rng.below(6) {
                    0 => x.clone(),
                    1 => respell(&x).unwrap_or_else(|| x.clone()),
                    _ => int_atom(rng, thorough),
                };
                args.push(x);
                args.push(y);
            }
            "op_ash" | "op_lsh" => {
                args.push(int_atom(rng, thorough));
                args.push(shift_literal(rng));
            }
            "op_lognot" => args.push(int_atom(rng, thorough)),
            "op_modpow" => {
                let around = [255usize, 256, 257, 256, 257, 17];
                let bmax = if thorough { 2048 } else { 256 };
                let bs = if limits { *rng.pick(&around) } else { rng.below(bmax + 1) as usize };
                args.push(sized_item(rng, bs));
                // exponent: a literal of 0..4 bytes, negative 1 time in 20
                let k = rng.below(5) as usize;
                let mut e = rng.bytes(k);
                if k > 0 {
                    if rng.chance(1, 20) { e[0] |= 0x80 } else { e[0] &= 0x7f }
                }
                args.push(lit(&e));
                // modulus
                if rng.chance(1, 20) {
                    args.push("~0+0".to_string());
                } else {
                    let ms = if limits { *rng.pick(&around) } else { rng.below(256) as usize + 1 };
                    let pre: &[&str] = if rng.chance(1, 10) { &["ff"] } else { &["01"] };
                    args.push(sized_item_with(rng, ms, pre));
                }
            }
            _ => panic!("costs_op: unexpected operator {name}"),
        }
        // wrong arity
        if rng.chance(1, 12) {
            if rng.chance(1, 2) {
                args.push(if rng.chance(1, 2) { int_atom(rng, false) } else { lit_int(rng.range(-3, 300) as i128) });
            } else {
                args.pop();
            }
        }
    }
    // a pair where an atom is expected
    if !args.is_empty() && rng.chance(1, 15) {
        let i = rng.below(args.len() as u64) as usize;
        args[i] = "p".to_string();
    }
    args
}

fn generate_costs_op(rng: &mut Rng, n: usize, tier: &str) -> Vec<String> {
    let thorough = tier == "thorough";
    let mut out = Vec::new();
    let mut push = |name: &str, flags: u32, budget: u64, items: &str| {
        out.push(format!("OPZ z{} {} {:x} {} {}", out.len(), name, flags, budget, items));
    };
    // fixed corpus: every operator × both cost models: no arguments / two 1-byte atoms
    for (name, _) in progs::OPS.iter() {
        for flags in [0u32, 0x2000] {
            push(name, flags, 100_000_000_000, "-");
            push(name, flags, 100_000_000_000, "01~0+0,02~0+0");
        }
    }
    for _ in 0..n {
        let name = loop {
            let (name, _) = *rng.pick(&progs::OPS);
            if name != "op_raise" || rng.chance(1, 8) {
                break name;
            }
        };
        let mut flags = *rng.pick(&[0u32, 0x2000]) | *rng.pick(&[0u32, 0x1000]);
        if rng.chance(1, 8) {
            flags |= *rng.pick(&[0x40u32, 0x200]);
        }
        let items = join_items(&gen_args(rng, thorough, name, flags));
        // the real cost under an unlimited budget decides the budget class
        let fl = format!("{:x}", flags);
        let big = (u64::MAX / 2).to_string();
        let c = cost_of_reply(&run_opz(&[name, &fl, &big, &items]));
        let budget = match c {
            None => 100_000_000_000,
            Some(c) => match rng.below(10) {
                0..=4 => 100_000_000_000,
                5 => c,
                6 => c.saturating_sub(1),
                7 => c + 1,
                8 => c / 2,
                _ => 0,
            },
        };
        push(name, flags, budget, &items);
    }
    out
}

// ------------------------------------------------------------------------------------------------
// the documented rule for unknown operators (independent implementation over u128)
// ------------------------------------------------------------------------------------------------

const U32MAX: u128 = 0xffff_ffff;

/// the base cost of cost functions 1..3 (walking the arguments left to right), `None` = a pair
fn rule_walk(cf: u8, new_model: bool, budget: u128, sizes: &[Option<u64>]) -> Result<u128, &'static str> {
    let mut base: u128 = match (cf, new_model) {
        (1, _) => 99,
        (2, false) => 92,
        (2, true) => 2000,
        (3, _) => 142,
        _ => return Ok(1),
    };
    let mut acc: u128 = 0; // cf 1: running maximum; cf 2: running sum of lengths
    for (i, s) in sizes.iter().enumerate() {
        let Some(len) = s else { return Err("InvalidOpArg") };
        let len = *len as u128;
        let mut checked = true;
        match cf {
            1 => {
                if new_model {
                    acc = acc.max(len);
                    base += 500 + 4 * acc;
                } else {
                    base += 320 + 3 * len;
                }
            }
            2 => {
                if i == 0 {
                    if new_model {
                        base += 6 * len;
                    } else {
                        checked = false;
                    }
                } else {
                    base += 885 + 6 * (acc + len) + (acc * len) / if new_model { 16 } else { 128 };
                }
                acc += len;
            }
            _ => base += 135 + 3 * len,
        }
        if checked && base > budget {
            return Err("CostExceeded");
        }
    }
    Ok(base)
}

struct RuleOut {
    res: Result<u64, &'static str>,
    /// base × (multiplier + 1) when the walk got that far
    product: Option<u128>,
    cf: Option<u8>,
}

fn rule(op: &[u8], new_model: bool, budget: u64, sizes: &[Option<u64>]) -> RuleOut {
    let fail = |k: &'static str, cf: Option<u8>| RuleOut { res: Err(k), product: None, cf };
    if op.is_empty() || (op.len() >= 2 && op[0] == 0xff && op[1] == 0xff) {
        return fail("Reserved", None);
    }
    let cf = op[op.len() - 1] >> 6;
    if op.len() > 5 {
        return fail("Invalid", Some(cf));
    }
    let mult: u128 = op[..op.len() - 1].iter().fold(0u128, |a, b| (a << 8) | *b as u128);
    let base = match rule_walk(cf, new_model, budget as u128, sizes) {
        Ok(b) => b,
        Err(k) => return fail(k, Some(cf)),
    };
    if base > budget as u128 {
        return fail("CostExceeded", Some(cf));
    }
    let product = base * (mult + 1);
    if product > U32MAX {
        return RuleOut { res: Err("Invalid"), product: Some(product), cf: Some(cf) };
    }
    RuleOut { res: Ok(product as u64), product: Some(product), cf: Some(cf) }
}

/// minimal big-endian bytes of a multiplier (0 = no bytes)
fn mult_bytes(m: u64) -> Vec<u8> {
    let b = m.to_be_bytes();
    let skip = b.iter().take_while(|x| **x == 0).count();
    b[skip..].to_vec()
}

/// a multiplier m (< 0xffff0000, so that the opcode is not reserved) with
/// base × (m+1) ≥ 2^64 and base × (m+1) mod 2^64 ≤ 2^32−1
fn find_wrap_multiplier(base: u128) -> Option<u64> {
    if base <= U32MAX {
        return None;
    }
    let kmax = (base >> 32).min(2_000_000);
    for k in 1..=kmax {
        let target = k << 64;
        let m1 = target.div_ceil(base);
        if m1 == 0 || m1 > 0xffff_0000 {
            continue;
        }
        if base * m1 - target <= U32MAX {
            return Some(m1 as u64 - 1);
        }
    }
    None
}

// ------------------------------------------------------------------------------------------------
// unknown-operator cases (shared by the stream and by the oracle)
// ------------------------------------------------------------------------------------------------

/// one abstract case: `args[i]` indexes a pool of atoms, `usize::MAX` is the pair `p`
struct Shape {
    op: Vec<u8>,
    flags: u32,
    budget: u64,
    args: Vec<usize>,
}

const P: usize = usize::MAX;

fn shape_sizes(args: &[usize], pool_sizes: &[u64]) -> Vec<Option<u64>> {
    args.iter().map(|i| if *i == P { None } else { Some(pool_sizes[*i]) }).collect()
}

/// `pool_sizes`: lengths of the atoms the arguments may refer to (a small pool ⇒ frequent aliasing);
/// `base_of(cf, flags, args)`: the base cost with multiplier 0 (None when it cannot be determined)
fn gen_shape(rng: &mut Rng, pool_sizes: &[u64], base_of: &mut dyn FnMut(u8, u32, &[usize]) -> Option<u128>) -> Shape {
    let mut flags = *rng.pick(&[0u32, 0x2000]);
    if rng.chance(1, 10) {
        flags |= 0x2;
    }
    let new_model = flags & 0x2000 != 0;
    let nargs = rng.below(7) as usize;
    let pick_atom = |rng: &mut Rng| rng.below(pool_sizes.len() as u64) as usize;
    let mut args: Vec<usize> = (0..nargs).map(|_| if rng.chance(1, 15) { P } else { pick_atom(rng) }).collect();
    let low6 = rng.below(64) as u8;
    let huge = 1u64 << 62;
    match rng.below(20) {
        // cost functions 1..3: multipliers around (2^32−1)/base, budgets around base
        0..=10 => {
            let cf = rng.range(1, 3) as u8;
            let base = base_of(cf, flags, &args);
            let mut mult: Vec<u8> = match rng.below(10) {
                0..=4 => match base {
                    Some(b) if b > 0 => {
                        let q = (U32MAX / b) as i128;
                        let m1 = q + *rng.pick(&[-1i128, 0, 1, 2]);
                        if m1 >= 1 && m1 - 1 < (1i128 << 32) { mult_bytes((m1 - 1) as u64) } else { vec![] }
                    }
                    _ => mult_bytes(rng.below(1 << 20)),
                },
                5 | 6 => {
                    let k = rng.below(5) as usize;
                    rng.bytes(k)
                }
                7 => {
                    // leading zero bytes, e.g. 00 00 01
                    let z = rng.range(1, 3) as usize;
                    let k = rng.below((4 - z) as u64 + 1) as usize;
                    let mut m = vec![0u8; z];
                    m.extend(rng.bytes(k));
                    m
                }
                8 => {
                    // 4-byte multipliers near the top that are not reserved (ff, then not ff)
                    let b1 = *rng.pick(&[0xfeu8, 0x00, 0x7f, 0xf0]);
                    let mut m = vec![0xff, b1];
                    m.extend(if rng.chance(1, 2) { vec![0xff, 0xff] } else { rng.bytes(2) });
                    m
                }
                _ => {
                    // 5 multiplier bytes: Invalid (also with a leading zero byte)
                    let mut m = rng.bytes(5);
                    if rng.chance(1, 3) {
                        m[0] = 0;
                    }
                    if m[0] == 0xff && m[1] == 0xff {
                        m[1] = 0xfe;
                    }
                    m
                }
            };
            mult.push((cf << 6) | low6);
            let budget = match (rng.below(8), base) {
                (3, Some(b)) => (b.saturating_sub(1)).min(huge as u128) as u64,
                (4, Some(b)) => b.min(huge as u128) as u64,
                (5, Some(b)) => (b + 1).min(huge as u128) as u64,
                (6, _) => 0,
                (7, _) => rng.below(2000),
                _ => huge,
            };
            Shape { op: mult, flags, budget, args }
        }
        // cost function 0: arguments are ignored
        11 | 12 => {
            let k = rng.below(5) as usize;
            let mut op = rng.bytes(k);
            op.push(low6);
            let budget = *rng.pick(&[huge, 0, 1, 2, 1000]);
            Shape { op, flags, budget, args }
        }
        // reserved and over-long opcodes
        13 | 14 => {
            let op = match rng.below(5) {
                0 => vec![],
                1 => {
                    let k = rng.below(5) as usize;
                    let mut o = vec![0xff, 0xff];
                    o.extend(rng.bytes(k));
                    o
                }
                2 => vec![0xff],
                3 => {
                    let k = rng.range(6, 7) as usize;
                    let mut o = rng.bytes(k);
                    if o[0] == 0xff && o[1] == 0xff {
                        o[1] = 0x7f;
                    }
                    o
                }
                _ => {
                    let k = rng.range(6, 7) as usize;
                    let mut o = rng.bytes(k);
                    o[0] = 0xff;
                    o[1] = 0xff;
                    o
                }
            };
            let budget = *rng.pick(&[huge, 0, 5000]);
            Shape { op, flags, budget, args }
        }
        // a pair in argument position against a budget below / at the constant part
        15..=17 => {
            let cf = rng.range(1, 3) as u8;
            let c: u64 = match (cf, new_model) {
                (1, _) => 99,
                (2, false) => 92,
                (2, true) => 2000,
                _ => 142,
            };
            args = match rng.below(4) {
                0 => vec![P],
                1 => vec![P, pick_atom(rng)],
                2 => vec![pick_atom(rng), P],
                _ => {
                    let x = pick_atom(rng);
                    vec![x, x, P]
                }
            };
            let budget = match rng.below(7) {
                0 => c - 1,
                1 => c,
                2 => 0,
                3 => c + rng.below(2000),
                4 => rng.below(c),
                5 => c + 1,
                _ => huge,
            };
            let mut op = if rng.chance(1, 3) { mult_bytes(rng.below(300)) } else { vec![] };
            op.push((cf << 6) | low6);
            Shape { op, flags, budget, args }
        }
        // the budget runs out somewhere along the walk
        _ => {
            let cf = rng.range(1, 3) as u8;
            let budget = match base_of(cf, flags, &args) {
                Some(b) => rng.below((b.min(huge as u128) as u64) + 1),
                None => rng.below(100_000),
            };
            let mut op = if rng.chance(1, 2) { mult_bytes(rng.below(4)) } else { vec![] };
            op.push((cf << 6) | low6);
            Shape { op, flags, budget, args }
        }
    }
}

/// (opcode, flags, argument sizes) whose true product base × (multiplier + 1) is exactly 2^32 − 1 (the
/// largest cost an unknown operator may have), and the same lists with the first argument one byte
/// shorter / longer.  The base must be a divisor of 2^32 − 1 = 3·5·17·257·65537, so probing
/// ⌊(2^32−1)/base⌋ for arbitrary bases never lands on the limit itself.
pub fn exact_limit_cases() -> Vec<(Vec<u8>, u32, Vec<u64>)> {
    let primes = [3u128, 5, 17, 257, 65537];
    let mut divisors = vec![];
    for mask in 0..32u32 {
        let d: u128 = primes.iter().enumerate().filter(|(i, _)| mask >> i & 1 == 1).map(|(_, p)| *p).product();
        if (100..=400_000).contains(&d) {
            divisors.push(d);
        }
    }
    let mut out = vec![];
    for d in divisors {
        let m1 = U32MAX / d;
        for cf in 1..=3u8 {
            for nm in [false, true] {
                for rest in [vec![], vec![0u64], vec![7], vec![1, 30], vec![64, 0, 3]] {
                    let base_of = |s: u64| {
                        let mut sz = vec![Some(s)];
                        sz.extend(rest.iter().map(|x| Some(*x)));
                        rule_walk(cf, nm, u128::MAX, &sz).unwrap()
                    };
                    let (mut lo, mut hi) = (0u64, d as u64);
                    while lo < hi {
                        let mid = (lo + hi) / 2;
                        if base_of(mid) < d { lo = mid + 1 } else { hi = mid }
                    }
                    if base_of(lo) != d {
                        continue;
                    }
                    let mut op = mult_bytes((m1 - 1) as u64);
                    op.push(cf << 6 | (d % 64) as u8);
                    if op.len() >= 3 && op[0] == 0xff && op[1] == 0xff {
                        continue;
                    }
                    for s in [lo, lo + 1, lo.saturating_sub(1)] {
                        let mut sz = vec![s];
                        sz.extend(rest.iter().copied());
                        out.push((op.clone(), if nm { 0x2000 } else { 0 }, sz));
                    }
                }
            }
        }
    }
    out
}

fn generate_costs_unknown(rng: &mut Rng, n: usize, tier: &str) -> Vec<String> {
    let thorough = tier == "thorough";
    let mut out = Vec::new();
    let mut push = |op: &[u8], flags: u32, budget: u64, items: &str| {
        out.push(format!("UNKZ z{} {} {:x} {} {}", out.len(), hex_or_dash(op), flags, budget, items));
    };
    // fixed corpus: every cost function × both models × multiplier 0/1
    for cf in 0..4u8 {
        for flags in [0u32, 0x2000] {
            for items in ["-", "01~0+0,02~0+0", "p", "~0+8,~0+8,~0+8"] {
                push(&[cf << 6], flags, 1 << 62, items);
                push(&[1, cf << 6], flags, 1 << 62, items);
            }
        }
    }
    // finding B in protocol form (old model: wrapping_mul): 20 / 24 arguments aliasing one 64 KiB atom
    // under the mul-like cost function make base ≥ 2^32; the multiplier is the one whose true product
    // is ≥ 2^64 and wraps to a value ≤ 2^32−1 (the crate answers `ok`, the new model CostExceeded)
    for k in [20usize, 24] {
        if let Ok(base) = rule_walk(2, false, u128::MAX, &vec![Some(65536); k])
            && let Some(m) = find_wrap_multiplier(base)
        {
            let mut op = mult_bytes(m);
            op.push(0x80);
            let items = vec!["~0+65536".to_string(); k].join(",");
            for flags in [0u32, 0x2000] {
                push(&op, flags, 1 << 62, &items);
            }
        }
    }
    // products exactly at the limit 2^32 − 1 (and one byte of argument either side)
    for (op, flags, sz) in exact_limit_cases() {
        let items: Vec<String> = sz.iter().map(|l| format!("~0+{}", l)).collect();
        for budget in [1u64 << 62, 0xffff_ffff, 0xffff_fffe] {
            push(&op, flags, budget, &join_items(&items));
        }
    }
    for _ in 0..n {
        // a small per-case pool of items: arguments frequently repeat the same item
        let k = rng.range(1, 4) as usize;
        let pool: Vec<String> = (0..k).map(|_| byte_atom(rng, thorough)).collect();
        let sizes: Vec<u64> = pool.iter().map(|x| item_len(x) as u64).collect();
        let items_of = |args: &[usize]| -> String {
            let v: Vec<String> = args.iter().map(|i| if *i == P { "p".to_string() } else { pool[*i].clone() }).collect();
            join_items(&v)
        };
        // base: ask the crate (multiplier 0, huge budget); when that fails for a reason other than
        // a pair (base > 2^32−1), fall back on the rule
        let mut base_of = |cf: u8, flags: u32, args: &[usize]| -> Option<u128> {
            let r = run_unkz(&[&hex::encode([cf << 6]), &format!("{:x}", flags), &(1u64 << 62).to_string(), &items_of(args)]);
            match cost_of_reply(&r) {
                Some(c) => Some(c as u128),
                None => rule_walk(cf, flags & 0x2000 != 0, u128::MAX, &shape_sizes(args, &sizes)).ok(),
            }
        };
        let s = gen_shape(rng, &sizes, &mut base_of);
        push(&s.op, s.flags, s.budget, &items_of(&s.args));
    }
    out
}

pub fn generate(name: &str, rng: &mut Rng, n: usize, tier: &str) -> Vec<String> {
    match name {
        "costs_op" => generate_costs_op(rng, n, tier),
        "costs_unknown" => generate_costs_unknown(rng, n, tier),
        _ => panic!("unknown stream {name}"),
    }
}

// ------------------------------------------------------------------------------------------------
// oracle unknown_rule
// ------------------------------------------------------------------------------------------------

/// run-length form of a size list, e.g. `[85x67108864, 22365704, pair]`
fn fmt_sizes(sizes: &[Option<u64>]) -> String {
    let mut parts: Vec<String> = Vec::new();
    let mut i = 0;
    while i < sizes.len() {
        let mut j = i;
        while j < sizes.len() && sizes[j] == sizes[i] {
            j += 1;
        }
        let v = match sizes[i] {
            Some(n) => n.to_string(),
            None => "pair".to_string(),
        };
        parts.push(if j - i > 1 { format!("{}x{}", j - i, v) } else { v });
        i = j;
    }
    format!("[{}]", parts.join(", "))
}

fn list_of(a: &mut Allocator, nodes: &[NodePtr]) -> NodePtr {
    let mut l = a.nil();
    for n in nodes.iter().rev() {
        l = a.new_pair(*n, l).unwrap();
    }
    l
}

/// one comparison of `op_unknown` with the rule
fn check_unknown(rep: &mut OracleReport, a: &mut Allocator, op: &[u8], flags: u32, budget: u64, args: NodePtr, sizes: &[Option<u64>]) {
    rep.evaluations += 1;
    let new_model = flags & 0x2000 != 0;
    let want = rule(op, new_model, budget, sizes);
    let o = a.new_atom(op).unwrap();
    let before = counts(a);
    let r = catch_unwind(AssertUnwindSafe(|| op_unknown(a, o, args, budget, ClvmFlags::from_bits_truncate(flags))));
    let after = counts(a);
    // (cost or error kind, "the result is nil and the counters did not move")
    let (got, clean): (Result<u64, String>, bool) = match r {
        Err(_) => (Err("panic".to_string()), true),
        Ok(Err(e)) => (Err(err_kind(&e)), true),
        Ok(Ok(Reduction(c, n))) => (Ok(c), matches!(a.sexp(n), SExp::Atom) && a.atom_len(n) == 0 && before == after),
    };
    if let Some(cf) = want.cf {
        rep.hit(&format!("cf{cf}"));
    }
    rep.hit(if new_model { "model-new" } else { "model-old" });
    match &got {
        Ok(_) => rep.hit("crate-ok"),
        Err(k) => rep.hit(&format!("crate-{k}")),
    }
    if let Some(p) = want.product {
        if p > U32MAX {
            rep.hit("product>=2^32");
        }
        if p >= 1u128 << 64 {
            rep.hit("product>=2^64");
        }
    }
    let input = || format!("opcode={} flags={:x} budget={} sizes={}", hex_or_dash(op), flags, budget, fmt_sizes(sizes));
    let agree = match (&want.res, &got) {
        (Ok(w), Ok(g)) => w == g && clean,
        (Err(w), Err(g)) => w == g,
        _ => false,
    };
    if agree {
        if want.res.is_ok() {
            rep.nontrivial += 1;
        }
        rep.sample(format!("{} -> {:?}", input(), got));
        return;
    }
    let overflow = want.product.map(|p| p >= 1u128 << 64).unwrap_or(false);
    match (&got, overflow, new_model) {
        // finding B: the old model multiplies with wrapping_mul
        (Ok(c), true, false) => rep.fail(
            "unknown_rule",
            format!(
                "KNOWN-B-unknown-op-wrapping-mul opcode={} budget={} sizes={} true_product={} crate=Ok(cost {})",
                hex_or_dash(op),
                budget,
                fmt_sizes(sizes),
                want.product.unwrap(),
                c
            ),
        ),
        // new model: checked_mul overflow is reported as CostExceeded; the rule says Invalid; both fail
        (Err(k), true, true) if k == "CostExceeded" && want.res == Err("Invalid") => rep.hit("newmodel-product-overflow-CostExceeded"),
        _ => rep.fail("unknown_rule", format!("MISMATCH {} rule={:?} true_product={:?} crate={:?} result-nil-and-counters-unchanged={}", input(), want.res, want.product, got, clean)),
    }
}

/// atoms of the size classes in one allocator; `op_unknown` only looks at their lengths
fn make_pool(rng: &mut Rng, thorough: bool) -> (Allocator, Vec<NodePtr>, Vec<u64>, NodePtr) {
    let mut a = Allocator::new();
    let mut sizes: Vec<usize> = BYTE_SIZES.to_vec();
    for _ in 0..8 {
        sizes.push(rng.below(65537) as usize);
    }
    if thorough {
        sizes.extend_from_slice(&BYTE_SIZES_BIG);
        for _ in 0..3 {
            sizes.push(rng.below((4 << 20) + 1) as usize);
        }
    }
    let mut nodes = Vec::new();
    for s in &sizes {
        let off = rng.below(4 << 20) as usize;
        nodes.push(build_atom(&mut a, &zbuf()[off..off + s]));
    }
    let l = a.new_atom(&[1]).unwrap();
    let r = a.new_atom(&[2]).unwrap();
    let pair = a.new_pair(l, r).unwrap();
    (a, nodes, sizes.iter().map(|s| *s as u64).collect(), pair)
}

fn oracle_unknown_rule(rng: &mut Rng, n: usize, tier: &str) -> OracleReport {
    let thorough = tier == "thorough";
    let mut rep = OracleReport::default();
    let (mut a, nodes, sizes, pair) = make_pool(rng, thorough);

    // 1. every 1-byte opcode (and, thorough, every 2-byte opcode) with a small fixed argument list
    let small: Vec<usize> = vec![3, 0, 8]; // sizes 3, 0, 31
    let small_nodes: Vec<NodePtr> = small.iter().map(|i| nodes[*i]).collect();
    let small_list = list_of(&mut a, &small_nodes);
    let small_sizes = shape_sizes(&small, &sizes);
    for flags in [0u32, 0x2000] {
        for b in 0..=255u8 {
            check_unknown(&mut rep, &mut a, &[b], flags, 1_000_000_000, small_list, &small_sizes);
        }
        if thorough {
            for x in 0..=65535u32 {
                check_unknown(&mut rep, &mut a, &[(x >> 8) as u8, x as u8], flags, 100_000_000_000, small_list, &small_sizes);
            }
        }
    }

    // 2. boundary multipliers around (2^32−1)/base for fixed argument lists, budgets around base
    let fixed_lists: Vec<Vec<usize>> = vec![vec![], vec![1], small.clone(), vec![23, 23, 23], vec![12, 22, 12, 5], vec![nodes.len() - 1; 6]];
    for idx in &fixed_lists {
        let ns: Vec<NodePtr> = idx.iter().map(|i| nodes[*i]).collect();
        let list = list_of(&mut a, &ns);
        let sz = shape_sizes(idx, &sizes);
        for flags in [0u32, 0x2000] {
            for cf in 0..4u8 {
                let Ok(base) = rule_walk(cf, flags != 0, u128::MAX, &sz) else { continue };
                let q = (U32MAX / base) as i128;
                for d in -2i128..=3 {
                    let m1 = q + d;
                    if m1 < 1 || m1 - 1 >= 1i128 << 32 {
                        continue;
                    }
                    let mut op = mult_bytes((m1 - 1) as u64);
                    op.push(cf << 6 | 0x15);
                    for budget in [1u64 << 62, (base.min(1 << 62) as u64).saturating_sub(1), base.min(1 << 62) as u64, (base + 1).min(1 << 62) as u64] {
                        check_unknown(&mut rep, &mut a, &op, flags, budget, list, &sz);
                    }
                }
            }
        }
    }

    // 2b. products exactly at the limit 2^32 − 1
    for (op, flags, sz) in exact_limit_cases() {
        let ns: Vec<NodePtr> = sz.iter().map(|l| a.new_atom(&zbuf()[..*l as usize]).unwrap()).collect();
        let list = list_of(&mut a, &ns);
        let szo: Vec<Option<u64>> = sz.iter().map(|l| Some(*l)).collect();
        for budget in [1u64 << 62, 0xffff_ffff, 0xffff_fffe] {
            check_unknown(&mut rep, &mut a, &op, flags, budget, list, &szo);
        }
    }

    // 3. n random cases shaped like the costs_unknown stream; arguments alias atoms of the pool
    for _ in 0..n {
        let k = rng.range(1, 4) as usize;
        let sub: Vec<usize> = (0..k).map(|_| rng.below(nodes.len() as u64) as usize).collect();
        let sub_sizes: Vec<u64> = sub.iter().map(|i| sizes[*i]).collect();
        let mut base_of = |cf: u8, flags: u32, args: &[usize]| rule_walk(cf, flags & 0x2000 != 0, u128::MAX, &shape_sizes(args, &sub_sizes)).ok();
        let s = gen_shape(rng, &sub_sizes, &mut base_of);
        let ns: Vec<NodePtr> = s.args.iter().map(|i| if *i == P { pair } else { nodes[sub[*i]] }).collect();
        let list = list_of(&mut a, &ns);
        check_unknown(&mut rep, &mut a, &s.op, s.flags, s.budget, list, &shape_sizes(&s.args, &sub_sizes));
    }

    // 4. finding B (old cost model: base × (multiplier+1) is computed with wrapping_mul), light form,
    //    both tiers: many arguments aliasing the ONE 64 KiB atom of the pool make base ≥ 2^32; a
    //    multiplier whose true product is ≥ 2^64 and wraps to a value ≤ 2^32−1 is found by search.
    {
        let big = BYTE_SIZES.iter().position(|s| *s == 65536).unwrap();
        let mut found = 0;
        for (cf, k) in [(2u8, 17usize), (2, 20), (2, 24), (2, 32), (2, 48), (2, 100), (3, 22000), (3, 30011), (1, 22000), (1, 40009)] {
            if found >= 4 && cf == 2 {
                continue;
            }
            let sz = vec![Some(sizes[big]); k];
            let Ok(base) = rule_walk(cf, false, u128::MAX, &sz) else { continue };
            let Some(m) = find_wrap_multiplier(base) else {
                rep.hit("wrap-search-no-multiplier");
                continue;
            };
            found += 1;
            rep.hit("wrap-search-found");
            let l = list_of(&mut a, &vec![nodes[big]; k]);
            let mut op = mult_bytes(m);
            op.push(cf << 6);
            for flags in [0u32, 0x2000] {
                check_unknown(&mut rep, &mut a, &op, flags, 1 << 62, l, &sz);
            }
        }
    }
    drop(a);

    // 5. finding B, the original reproduction: opcode 3fffffffc0 (concat-like, multiplier 0x3fffffff)
    //    with 85 arguments aliasing ONE 64 MiB atom + one atom of 22,365,704 bytes: base = 2^34,
    //    product = 2^64, wraps to 0.  op_unknown itself is instantaneous (atom_len is O(1)), but
    //    allocating the ~86 MB takes 2.0–2.8 s in the sandbox this was measured in (first-touch page
    //    faults, ≈ 14 ms per MiB; VERIF_COSTS_TIMING=1 prints the time), i.e. more than the 1.5 s
    //    allowed for the quick tier: thorough only.
    if thorough {
        let t0 = std::time::Instant::now();
        let timing = std::env::var("VERIF_COSTS_TIMING").is_ok();
        let mut b = Allocator::new();
        let x = b.new_atom(&vec![0u8; 1 << 26]).unwrap();
        let y = b.new_atom(&vec![0u8; 22_365_704]).unwrap();
        let mut ns = vec![x; 85];
        ns.push(y);
        let list = list_of(&mut b, &ns);
        let mut sz = vec![Some(1u64 << 26); 85];
        sz.push(Some(22_365_704));
        for flags in [0u32, 0x2000] {
            check_unknown(&mut rep, &mut b, &[0x3f, 0xff, 0xff, 0xff, 0xc0], flags, 1 << 40, list, &sz);
        }
        rep.hit("defectB-reproduction-ran");
        if timing {
            eprintln!("unknown_rule: finding-B reproduction (allocation + both models) took {:?}", t0.elapsed());
        }
        {
            // more wrap-arounds of the same kind: other multipliers on the same arguments …
            for op in [[0x7fu8, 0xff, 0xff, 0xff, 0xc0], [0xbf, 0xff, 0xff, 0xff, 0xc0]] {
                for flags in [0u32, 0x2000] {
                    check_unknown(&mut rep, &mut b, &op, flags, 1 << 40, list, &sz);
                }
            }
            // … and, for other argument lists (quadratic mul-like term with aliasing, add-like,
            // shorter concat-like lists), a multiplier found by search whose wrapped product is small
            let configs: Vec<(u8, Vec<NodePtr>)> = vec![(2, vec![x, x]), (2, vec![x, x, x]), (2, vec![y, x]), (1, ns.clone()), (3, vec![x; 30]), (3, vec![y; 70]), (1, vec![x; 40])];
            let mut found = 0;
            for (cf, nl) in configs {
                let sz: Vec<Option<u64>> = nl.iter().map(|n| Some(b.atom_len(*n) as u64)).collect();
                let Ok(base) = rule_walk(cf, false, u128::MAX, &sz) else { continue };
                let Some(m) = find_wrap_multiplier(base) else {
                    rep.hit("wrap-search-no-multiplier");
                    continue;
                };
                found += 1;
                let l = list_of(&mut b, &nl);
                let mut op = mult_bytes(m);
                op.push(cf << 6);
                for flags in [0u32, 0x2000] {
                    check_unknown(&mut rep, &mut b, &op, flags, 1 << 62, l, &sz);
                }
            }
            for _ in 0..found {
                rep.hit("wrap-search-found");
            }
            if timing {
                eprintln!("unknown_rule: all 64 MiB cases took {:?}", t0.elapsed());
            }
        }
    }
    rep
}

// ------------------------------------------------------------------------------------------------
// oracle costs_vectors: the text format of /repo/src/test_ops.rs
// ------------------------------------------------------------------------------------------------

fn parse_atom(a: &mut Allocator, v: &str) -> NodePtr {
    if v == "0" {
        return a.nil();
    }
    assert!(!v.is_empty());
    if let Some(h) = v.strip_prefix("0x") {
        let buf = hex::decode(h).unwrap();
        return a.new_atom(&buf).unwrap();
    }
    if v.starts_with('"') {
        assert!(v.ends_with('"'));
        let buf = v.strip_prefix('"').unwrap().strip_suffix('"').unwrap().as_bytes();
        return a.new_atom(buf).unwrap();
    }
    if let Ok(num) = v.parse::<Number>() {
        return a.new_number(num).unwrap();
    }
    let v = v.strip_prefix('#').unwrap_or(v);
    let b: &[u8] = match v {
        "q" => &[1],
        "a" => &[2],
        "i" => &[3],
        "c" => &[4],
        "f" => &[5],
        "r" => &[6],
        "l" => &[7],
        "x" => &[8],
        "=" => &[9],
        ">s" => &[10],
        "sha256" => &[11],
        "substr" => &[12],
        "strlen" => &[13],
        "concat" => &[14],
        "+" => &[16],
        "-" => &[17],
        "*" => &[18],
        "/" => &[19],
        "divmod" => &[20],
        ">" => &[21],
        "ash" => &[22],
        "lsh" => &[23],
        "logand" => &[24],
        "logior" => &[25],
        "logxor" => &[26],
        "lognot" => &[27],
        "point_add" => &[29],
        "pubkey_for_exp" => &[30],
        "not" => &[32],
        "any" => &[33],
        "all" => &[34],
        "softfork" => &[36],
        "coinid" => &[48],
        "g1_add" => &[29],
        "g1_subtract" => &[49],
        "g1_multiply" => &[50],
        "g1_negate" => &[51],
        "g2_add" => &[52],
        "g2_subtract" => &[53],
        "g2_multiply" => &[54],
        "g2_negate" => &[55],
        "g1_map" => &[56],
        "g2_map" => &[57],
        "bls_pairing_identity" => &[58],
        "bls_verify" => &[59],
        "modpow" => &[60],
        "%" => &[61],
        "secp256k1_verify" => &[0x13, 0xd6, 0x1f, 0x00],
        "secp256r1_verify" => &[0x1c, 0x3a, 0x8f, 0x00],
        "secp256k1_verify_64" => &[64],
        "secp256r1_verify_65" => &[65],
        "keccak256" => &[62],
        "sha256tree" => &[63],
        "unknown" => &[0x00],
        "unknown_add" => &[0x40],
        "unknown_mul" => &[0x80],
        "unknown_concat" => &[0xc0],
        "unknown_x2" => &[0x01, 0x00],
        "unknown_add_x2" => &[0x01, 0x40],
        "unknown_mul_x2" => &[0x01, 0x80],
        "unknown_concat_x2" => &[0x01, 0xc0],
        _ => panic!("atom not supported \"{v}\""),
    };
    a.new_atom(b).unwrap()
}

fn pop_token(s: &str) -> (&str, &str) {
    let s = s.trim();
    if let Some(stripped) = s.strip_prefix('"') {
        if let Some(second_quote) = stripped.find('"') {
            let (first, rest) = s.split_at(second_quote + 2);
            (first.trim(), rest.trim())
        } else {
            panic!("mismatching quote")
        }
    } else if s.starts_with('(') || s.starts_with(')') {
        let (first, rest) = s.split_at(1);
        (first, rest.trim())
    } else {
        let split_pos = match (s.find(' '), s.find(')')) {
            (Some(x), Some(y)) => x.min(y),
            (Some(x), None) => x,
            (None, Some(y)) => y,
            (None, None) => s.len(),
        };
        let (first, rest) = s.split_at(split_pos);
        (first.trim(), rest.trim())
    }
}

fn parse_list<'a>(a: &mut Allocator, v: &'a str) -> (NodePtr, &'a str) {
    let v = v.trim();
    let (first, rest) = pop_token(v);
    if first.is_empty() || first == ")" {
        return (a.nil(), rest);
    }
    if first == "(" {
        let (head, new_rest) = parse_list(a, rest);
        let (tail, new_rest) = parse_list(a, new_rest);
        (a.new_pair(head, tail).unwrap(), new_rest)
    } else if first == "." {
        let (node, new_rest) = parse_exp(a, rest);
        let (end_list, new_rest) = pop_token(new_rest);
        assert_eq!(end_list, ")");
        (node, new_rest)
    } else {
        let head = parse_atom(a, first);
        let (tail, new_rest) = parse_list(a, rest);
        (a.new_pair(head, tail).unwrap(), new_rest)
    }
}

fn parse_exp<'a>(a: &mut Allocator, v: &'a str) -> (NodePtr, &'a str) {
    let (first, rest) = pop_token(v);
    if first == "(" { parse_list(a, rest) } else { (parse_atom(a, first), rest) }
}

fn node_eq(a: &Allocator, s1: NodePtr, s2: NodePtr) -> bool {
    let mut stack = vec![(s1, s2)];
    while let Some((l, r)) = stack.pop() {
        match (a.sexp(l), a.sexp(r)) {
            (SExp::Pair(ll, lr), SExp::Pair(rl, rr)) => {
                stack.push((lr, rr));
                stack.push((ll, rl));
            }
            (SExp::Atom, SExp::Atom) => {
                if !a.atom_eq(l, r) {
                    return false;
                }
            }
            _ => return false,
        }
    }
    true
}

fn unk(a: &mut Allocator, op: &[u8], input: NodePtr, max_cost: Cost, flags: ClvmFlags) -> Response {
    let o = a.new_atom(op)?;
    op_unknown(a, o, input, max_cost, flags)
}
fn op_unknown_const(a: &mut Allocator, i: NodePtr, m: Cost, f: ClvmFlags) -> Response {
    unk(a, &[0x00], i, m, f)
}
fn op_unknown_add(a: &mut Allocator, i: NodePtr, m: Cost, f: ClvmFlags) -> Response {
    unk(a, &[0x40], i, m, f)
}
fn op_unknown_mul(a: &mut Allocator, i: NodePtr, m: Cost, f: ClvmFlags) -> Response {
    unk(a, &[0x80], i, m, f)
}
fn op_unknown_concat(a: &mut Allocator, i: NodePtr, m: Cost, f: ClvmFlags) -> Response {
    unk(a, &[0xc0], i, m, f)
}
fn op_unknown_const_x2(a: &mut Allocator, i: NodePtr, m: Cost, f: ClvmFlags) -> Response {
    unk(a, &[0x01, 0x00], i, m, f)
}
fn op_unknown_add_x2(a: &mut Allocator, i: NodePtr, m: Cost, f: ClvmFlags) -> Response {
    unk(a, &[0x01, 0x40], i, m, f)
}
fn op_unknown_mul_x2(a: &mut Allocator, i: NodePtr, m: Cost, f: ClvmFlags) -> Response {
    unk(a, &[0x01, 0x80], i, m, f)
}
fn op_unknown_concat_x2(a: &mut Allocator, i: NodePtr, m: Cost, f: ClvmFlags) -> Response {
    unk(a, &[0x01, 0xc0], i, m, f)
}

/// operator names of the vector files (non-crypto operators only)
fn vector_op(name: &str) -> Option<OpF> {
    let fname = match name {
        "i" => "op_if",
        "c" => "op_cons",
        "f" => "op_first",
        "r" => "op_rest",
        "l" => "op_listp",
        "x" => "op_raise",
        "=" => "op_eq",
        "sha256" => "op_sha256",
        "+" => "op_add",
        "-" => "op_subtract",
        "*" => "op_multiply",
        "/" => "op_div",
        "divmod" => "op_divmod",
        "%" => "op_mod",
        "substr" => "op_substr",
        "strlen" => "op_strlen",
        "concat" => "op_concat",
        ">" => "op_gr",
        ">s" => "op_gr_bytes",
        "logand" => "op_logand",
        "logior" => "op_logior",
        "logxor" => "op_logxor",
        "lognot" => "op_lognot",
        "ash" => "op_ash",
        "lsh" => "op_lsh",
        "not" => "op_not",
        "any" => "op_any",
        "all" => "op_all",
        "modpow" => "op_modpow",
        "unknown" => return Some(op_unknown_const as OpF),
        "unknown_add" => return Some(op_unknown_add as OpF),
        "unknown_mul" => return Some(op_unknown_mul as OpF),
        "unknown_concat" => return Some(op_unknown_concat as OpF),
        "unknown_x2" => return Some(op_unknown_const_x2 as OpF),
        "unknown_add_x2" => return Some(op_unknown_add_x2 as OpF),
        "unknown_mul_x2" => return Some(op_unknown_mul_x2 as OpF),
        "unknown_concat_x2" => return Some(op_unknown_concat_x2 as OpF),
        _ => return None,
    };
    op_by_name(fname)
}

fn is_crypto_op(name: &str) -> bool {
    ["point_add", "pubkey_for_exp", "coinid", "keccak256", "sha256tree"].contains(&name)
        || name.starts_with("g1_")
        || name.starts_with("g2_")
        || name.starts_with("bls_")
        || name.starts_with("secp")
}

/// one vector; `Ok(())` = passes, `Err(what was observed)`
fn run_vector(op: OpF, args_str: &str, expected: &str, expected_cost: u64, flags: u32) -> Result<(), String> {
    let mut a = Allocator::new();
    let (args, rest) = parse_list(&mut a, args_str);
    if !rest.is_empty() {
        return Err(format!("unparsed rest of the arguments: {rest:?}"));
    }
    match op(&mut a, args, 10000000000 as Cost, ClvmFlags::from_bits_truncate(flags)) {
        Err(e) => {
            if expected == "FAIL" {
                Ok(())
            } else {
                Err(format!("err {}", err_kind(&e)))
            }
        }
        Ok(Reduction(cost, ret)) => {
            let got = || format!("ok cost={} result={}", cost, trees::to_hex(&trees::from_node(&a, ret)));
            if expected == "FAIL" {
                return Err(got());
            }
            let s = got();
            let (exp, rest) = parse_exp(&mut a, expected);
            if !rest.is_empty() {
                return Err(format!("unparsed rest of the expected value: {rest:?}"));
            }
            if cost != expected_cost || !node_eq(&a, ret, exp) { Err(s) } else { Ok(()) }
        }
    }
}

fn oracle_costs_vectors() -> OracleReport {
    let mut rep = OracleReport::default();
    let repo = std::env::var("VERIF_REPO").unwrap_or_else(|_| "/repo".to_string());
    let files: [(&str, &[u32]); 10] = [
        ("test-core-ops", &[0]),
        ("test-core-ops-v2", &[0x2000]),
        ("test-more-ops", &[0, 0x1000]),
        ("test-more-ops-v2", &[0x2000, 0x3000]),
        ("test-modpow", &[0, 0x1000]),
        ("test-modpow-v2", &[0x2000, 0x3000]),
        ("test-sha256", &[0]),
        ("test-sha256-v2", &[0x2000]),
        ("test-unknown-ops", &[0]),
        ("test-unknown-ops-v2", &[0x2000]),
    ];
    for (file, flag_sets) in files {
        let path = format!("{repo}/op-tests/{file}.txt");
        let Ok(text) = std::fs::read_to_string(&path) else {
            rep.fail("costs_vectors", format!("cannot read {path}"));
            continue;
        };
        for flags in flag_sets.iter().copied() {
            for (lineno, t) in text.split('\n').enumerate() {
                let t = t.trim();
                if t.is_empty() || t.starts_with(';') {
                    continue;
                }
                let at = || format!("{file}:{} flags={:x} `{}`", lineno + 1, flags, t);
                let Some((op_name, rest)) = t.split_once(' ') else {
                    rep.fail("costs_vectors", format!("{} got unparseable line", at()));
                    continue;
                };
                if is_crypto_op(op_name) {
                    rep.hit("skipped-crypto");
                    continue;
                }
                let Some(op) = vector_op(op_name) else {
                    rep.fail("costs_vectors", format!("{} got unknown operator name {op_name:?}", at()));
                    continue;
                };
                let Some((args, out)) = rest.split_once("=>") else {
                    rep.fail("costs_vectors", format!("{} got unparseable line (no =>)", at()));
                    continue;
                };
                let (expected, expected_cost) = out.split_once('|').unwrap_or((out, "0"));
                let Ok(expected_cost) = expected_cost.trim().parse::<u64>() else {
                    rep.fail("costs_vectors", format!("{} got unparseable cost", at()));
                    continue;
                };
                let (args, expected) = (args.trim(), expected.trim());
                rep.evaluations += 1;
                rep.hit(&format!("file:{file}"));
                rep.hit(&format!("op:{op_name}"));
                rep.hit(&format!("flags:{:x}", flags));
                let r = catch_unwind(AssertUnwindSafe(|| run_vector(op, args, expected, expected_cost, flags)));
                match r {
                    Ok(Ok(())) => {
                        if expected == "FAIL" {
                            rep.hit("expected-FAIL");
                        } else {
                            rep.nontrivial += 1;
                        }
                        rep.sample(format!("{} passes", at()));
                    }
                    Ok(Err(got)) => rep.fail("costs_vectors", format!("{} got {}", at(), got)),
                    Err(_) => rep.fail("costs_vectors", format!("{} got panic (parser or operator)", at())),
                }
            }
        }
    }
    rep
}


// ------------------------------------------------------------------------------------------------
// oracle costs_doc: the NEW_COST_MODEL formulas exactly as docs/cost-model.md states them (finding G)
// ------------------------------------------------------------------------------------------------

fn doc_int(b: &[u8]) -> num_bigint::BigInt {
    num_bigint::BigInt::from_signed_bytes_be(b)
}
fn doc_limbs(v: &num_bigint::BigInt) -> u64 {
    v.bits().div_ceil(8)
}
/// "magnitude" of an argument: leading zero bytes in the atom representation don't inflate the cost
fn doc_mag(b: &[u8]) -> u64 {
    doc_limbs(&doc_int(b))
}

/// `(cost by the markdown formula, without the allocation charge the markdown never mentions;
///   is the input inside the region to which finding G is delimited?)`.
/// Region (Lean: `doc_agrees_*` in Props/C10.lean prove agreement outside it): add / subtract / multiply /
/// div / divmod / mod / modpow — some argument whose atom length differs from its magnitude; logand / logior /
/// logxor — some argument shorter than the accumulator it meets (the initial one included).
/// The remaining operators are controls (formula shape from the markdown's "only constant changes"
/// list and the pre-hard-fork add formula it quotes): their region is empty.
fn doc_cost(name: &str, new_model: bool, args: &[Vec<u8>]) -> Option<(u64, bool)> {
    use num_bigint::BigInt;
    let n = args.len() as u64;
    let lens: Vec<u64> = args.iter().map(|a| a.len() as u64).collect();
    let mags: Vec<u64> = args.iter().map(|a| doc_mag(a)).collect();
    let padded = lens.iter().zip(&mags).any(|(l, m)| l != m);
    let sum_len: u64 = lens.iter().sum();
    Some(match (name, new_model) {
        ("op_add", false) | ("op_subtract", false) => (99 + 320 * n + 3 * sum_len, false),
        ("op_add", true) | ("op_subtract", true) => {
            let mut acc = BigInt::from(0);
            let mut cost = 99;
            for (i, a) in args.iter().enumerate() {
                cost += 500 + 4 * doc_limbs(&acc).max(mags[i]);
                let v = doc_int(a);
                acc = if name == "op_add" || i == 0 { acc + v } else { acc - v };
            }
            (cost, padded)
        }
        ("op_multiply", true) => {
            let mut cost = 2000;
            if let Some(a0) = args.first() {
                cost += 6 * mags[0];
                let mut acc = doc_int(a0);
                for (i, a) in args.iter().enumerate().skip(1) {
                    let (l0, l1) = (doc_limbs(&acc), mags[i]);
                    cost += 885 + 6 * (l0 + l1) + l0 * l1 / 16;
                    acc *= doc_int(a);
                }
            }
            (cost, padded)
        }
        ("op_div", true) | ("op_divmod", true) | ("op_mod", true) if args.len() == 2 => {
            (1000 + 50 * (mags[0] + mags[1]) + mags[0] * mags[1] / 10, padded)
        }
        ("op_modpow", true) if args.len() == 3 => {
            let (b, e, m) = (mags[0], mags[1], mags[2]);
            (17000 + e * 8 * (m * m + 4000) + b * m, padded)
        }
        ("op_logand", true) | ("op_logior", true) | ("op_logxor", true) => {
            let mut acc = if name == "op_logand" { BigInt::from(-1) } else { BigInt::from(0) };
            let mut eff = 0u64;
            let mut region = false;
            let neg = |v: &BigInt| v.sign() == num_bigint::Sign::Minus;
            for (i, a) in args.iter().enumerate() {
                let v = doc_int(a);
                if doc_limbs(&acc) > lens[i] {
                    region = true;
                }
                eff += if i > 0 && neg(&acc) != neg(&v) { lens[i].max(doc_limbs(&acc)) } else { lens[i] };
                acc = match name {
                    "op_logand" => acc & v,
                    "op_logior" => acc | v,
                    _ => acc ^ v,
                };
            }
            (100 + 264 * n + 3 * eff, region)
        }
        // controls: "operators with only constant changes"
        // `>` returns one of the two constant atoms: nothing is allocated, so the result is not charged;
        // cancel the allocation charge the caller adds (result = 1 byte when true)
        ("op_gr", true) if args.len() == 2 => {
            let gt = doc_int(&args[0]) > doc_int(&args[1]);
            ((1000 + 4 * sum_len).wrapping_sub(if gt { 10 } else { 0 }), false)
        }
        ("op_sha256", true) => (1000 + 160 * n + 6 * sum_len, false),
        ("op_concat", _) => (142 + 135 * n + 3 * sum_len, false),
        _ => return None,
    })
}

fn result_atom_bytes(a: &Allocator, n: NodePtr) -> u64 {
    match a.sexp(n) {
        SExp::Atom => a.atom_len(n) as u64,
        SExp::Pair(l, r) => result_atom_bytes(a, l) + result_atom_bytes(a, r),
    }
}

const DOC_OPS: [(&str, bool); 15] = [
    ("op_add", true), ("op_subtract", true), ("op_multiply", true), ("op_div", true), ("op_divmod", true),
    ("op_mod", true), ("op_modpow", true), ("op_logand", true), ("op_logior", true), ("op_logxor", true),
    ("op_gr", true), ("op_sha256", true), ("op_concat", true), ("op_add", false), ("op_subtract", false),
];

fn oracle_costs_doc(rng: &mut Rng, n: usize) -> OracleReport {
    let mut rep = OracleReport::default();
    let mut known_emitted = 0usize;
    let mut check = |rep: &mut OracleReport, name: &str, new_model: bool, args: &[Vec<u8>], directed: bool| {
        let Some((doc, region)) = doc_cost(name, new_model, args) else { return };
        let mut a = Allocator::new();
        let nodes: Vec<NodePtr> = args.iter().map(|b| build_atom(&mut a, b)).collect();
        let l = list_of(&mut a, &nodes);
        let flags = ClvmFlags::from_bits_truncate(if new_model { 0x2000 } else { 0 });
        rep.evaluations += 1;
        let Ok(Reduction(cost, ret)) = op_by_name(name).unwrap()(&mut a, l, 1_000_000_000_000, flags) else {
            rep.hit("call-failed");
            return;
        };
        rep.nontrivial += 1;
        let doc = doc.wrapping_add(10 * result_atom_bytes(&a, ret));
        rep.hit(&format!("{}-{}", name, if new_model { "new" } else { "old" }));
        if region {
            rep.hit("in-region");
        }
        if cost == doc {
            rep.hit("agree");
            return;
        }
        let input = format!("{} args=[{}] crate={} doc={}", name, args.iter().map(|b| hex_or_dash(b)).collect::<Vec<_>>().join(","), cost, doc);
        if region && new_model {
            rep.hit("known-G-deviation");
            if directed || known_emitted < 8 {
                known_emitted += 1;
                rep.fail("costs_doc", format!("KNOWN-G-doc-cost-model {input}"));
            }
        } else {
            rep.fail("costs_doc", format!("MISMATCH (outside the region of finding G) {input}"));
        }
        rep.sample(input);
    };
    // the directed examples = the witnesses `doc_formula_witness_*` of Props/C10.lean
    let d: Vec<(&str, Vec<Vec<u8>>)> = vec![
        ("op_logand", vec![vec![0x40, 0, 0], vec![1]]),
        ("op_logand", vec![vec![]]),
        ("op_logior", vec![vec![0x40, 0, 0], vec![1]]),
        ("op_logxor", vec![vec![0x40, 0, 0], vec![1]]),
        ("op_add", vec![vec![0, 0, 1]]),
        ("op_subtract", vec![vec![0, 0, 1]]),
        ("op_multiply", vec![vec![0, 0, 2], vec![0, 0, 3]]),
        ("op_div", vec![vec![0, 0, 7], vec![0, 0, 2]]),
        ("op_divmod", vec![vec![0, 0, 7], vec![0, 0, 2]]),
        ("op_mod", vec![vec![0, 0, 7], vec![0, 0, 2]]),
        ("op_modpow", vec![vec![0, 2], vec![0, 3], vec![0, 5]]),
    ];
    for (name, args) in &d {
        check(&mut rep, name, true, args, true);
    }
    // random argument lists: minimal integers, optionally padded with redundant sign bytes
    for _ in 0..n {
        let (name, nm) = *rng.pick(&DOC_OPS);
        let k = match name {
            "op_div" | "op_divmod" | "op_mod" | "op_gr" => 2,
            "op_modpow" => 3,
            _ => rng.below(5) as usize,
        };
        let mut args: Vec<Vec<u8>> = Vec::new();
        for i in 0..k {
            let len = *rng.pick(&[0usize, 1, 1, 2, 3, 4, 8, 9, 17, 40]);
            let mut b = rng.bytes(len);
            // minimal two's complement
            while b.len() > 1 && ((b[0] == 0 && b[1] & 0x80 == 0) || (b[0] == 0xff && b[1] & 0x80 != 0)) {
                b.remove(0);
            }
            if b == [0] {
                b.clear();
            }
            let must_be_positive = name == "op_modpow" && i == 1;
            if must_be_positive && !b.is_empty() && b[0] & 0x80 != 0 {
                b.insert(0, 0); // a required sign byte: len = mag + 1
            }
            if (name == "op_div" || name == "op_divmod" || name == "op_mod") && i == 1 || name == "op_modpow" && i == 2 {
                if doc_int(&b) == num_bigint::BigInt::from(0) {
                    b = vec![7];
                }
            }
            if rng.chance(1, 3) {
                let neg = !b.is_empty() && b[0] & 0x80 != 0;
                for _ in 0..rng.below(3) + 1 {
                    b.insert(0, if neg { 0xff } else { 0 });
                }
            }
            args.push(b);
        }
        check(&mut rep, name, nm, &args, false);
    }
    rep
}

pub fn oracle(name: &str, rng: &mut Rng, n: usize, tier: &str) -> OracleReport {
    match name {
        "costs_vectors" => oracle_costs_vectors(),
        "unknown_rule" => oracle_unknown_rule(rng, n, tier),
        "costs_doc" => oracle_costs_doc(rng, n),
        _ => panic!("unknown oracle {name}"),
    }
}
