//! Direct oracles on the implementation alone for the interpreter properties
//! (metamorphic forms of C02, C03, C04, C06, C07, C08, C11, C23, C25, C30, C31).
use crate::progs::{self, atom, call, int, quote, random_flags, random_program};
use crate::rng::Rng;
use crate::run::{run_with, HideDialect};
use crate::trees::{self, T};
use crate::util::*;
use clvmr::allocator::Allocator;
use clvmr::chia_dialect::{ChiaDialect, ClvmFlags};
use clvmr::error::EvalErr;
use clvmr::run_program::run_program;

pub const NO_UNKNOWN_OPS: u32 = 0x2;
pub const CANONICAL_INTS: u32 = 0x1;
pub const LIMIT_HEAP: u32 = 0x4;
pub const RELAXED_BLS: u32 = 0x8;
pub const LIMIT_SOFTFORK: u32 = 0x10;
pub const ENABLE_GC: u32 = 0x20;
pub const LIMITS: u32 = 0x40;
pub const DISABLE_OP: u32 = 0x200;
pub const MALACHITE: u32 = 0x1000;
pub const NEW_COST_MODEL: u32 = 0x2000;

/// outcome of one run: Ok(cost, result hex) or Err(kind, message); plus the count deltas
#[derive(Clone, Debug, PartialEq)]
pub struct Out {
    pub res: Result<(u64, String), (String, String)>,
    pub counts: (i64, i64, i64),
}

pub fn run_full(dialect: &str, flags: u32, budget: u64, prog: &T, env: &T, tags: &str) -> Out {
    let mut a = Allocator::new();
    let mut it = tags.chars();
    let p = crate::run::build_tagged(&mut a, prog, &mut it);
    let e = crate::run::build_tagged(&mut a, env, &mut it);
    let before = (a.atom_count() as i64, a.pair_count() as i64, a.heap_size() as i64);
    let f = ClvmFlags::from_bits_truncate(flags);
    let r = std::panic::catch_unwind(std::panic::AssertUnwindSafe(|| match dialect {
        "hide" => run_program(&mut a, &HideDialect { inner: ChiaDialect::new(f) }, p, e, budget),
        "runtime" => run_program(
            &mut a,
            &clvmr::runtime_dialect::RuntimeDialect::new(crate::run::standard_op_map(), vec![1], vec![2], f),
            p,
            e,
            budget,
        ),
        _ => run_program(&mut a, &ChiaDialect::new(f), p, e, budget),
    }));
    let after = (a.atom_count() as i64, a.pair_count() as i64, a.heap_size() as i64);
    let counts = (after.0 - before.0, after.1 - before.1, after.2 - before.2);
    let res = match r {
        Err(_) => Err(("PANIC".to_string(), "panic".to_string())),
        Ok(Ok(red)) => Ok((red.0, trees::to_hex(&trees::from_node(&a, red.1)))),
        Ok(Err(e)) => Err((err_kind(&e), format!("{}", e))),
    };
    Out { res, counts }
}

fn desc(prog: &T, env: &T, flags: u32) -> String {
    let p = trees::to_hex(prog);
    let e = trees::to_hex(env);
    format!("flags={:x} prog={} env={}", flags, if p.len() > 600 { format!("{}…({} hex chars)", &p[..600], p.len()) } else { p }, e)
}

fn is_internal(o: &Out) -> bool {
    matches!(&o.res, Err((k, _)) if k == "PANIC" || k == "InternalError")
}

/// BLS operators applied to 48-/96-byte atoms that look like compressed points but mostly are not
/// (not on the curve, not in the subgroup, non-canonical infinity), and to valid points
fn bls_point_program(rng: &mut Rng) -> (T, T) {
    let g2 = rng.chance(1, 3);
    let len = if g2 { 96 } else { 48 };
    let mut mk = |rng: &mut Rng| -> T {
        match rng.below(6) {
            0 => {
                // a valid point: (g1_multiply generator k) evaluated by the implementation
                let mkpt = if g2 { call(57, vec![quote(T::Atom(rng.bytes(8)))]) } else { call(30, vec![quote(progs::random_int(rng))]) };
                let o = run_full("chia", 0, 0, &mkpt, &T::nil(), "");
                match o.res {
                    Ok((_, h)) => quote(trees::from_hex(&h).unwrap()),
                    Err(_) => quote(atom(&[])),
                }
            }
            1 => {
                let mut b = vec![0u8; len];
                b[0] = 0xc0;
                if rng.chance(1, 2) {
                    b[len - 1] = 1; // non-canonical infinity
                }
                quote(T::Atom(b))
            }
            _ => {
                let mut b = rng.bytes(len);
                b[0] = (b[0] & 0x1f) | 0x80 | if rng.chance(1, 2) { 0x20 } else { 0 };
                quote(T::Atom(b))
            }
        }
    };
    let x = mk(rng);
    let y = mk(rng);
    let prog = if g2 {
        match rng.below(4) {
            0 => call(55, vec![x]),
            1 => call(52, vec![x, y]),
            2 => call(54, vec![x, quote(progs::random_int(rng))]),
            _ => call(53, vec![call(55, vec![x])]),
        }
    } else {
        match rng.below(5) {
            0 => call(51, vec![x]),
            1 => call(29, vec![x, y]),
            2 => call(49, vec![x, y]),
            3 => call(50, vec![x, quote(progs::random_int(rng))]),
            _ => call(13, vec![call(51, vec![x])]),
        }
    };
    (prog, T::nil())
}

/// an apply that conses its result pair inside the call and leaves ≥ 1 KiB of garbage: under ENABLE_GC the
/// restore must keep exactly that pair, whatever else the allocator holds
fn gc_pair_program(rng: &mut Rng) -> (T, T) {
    let blen_ = 600 + rng.below(300) as usize;
    let blob = T::Atom(rng.bytes(blen_));
    // the garbage must survive until the *apply* returns: produce it under operators that are not GC
    // candidates themselves ((f (c X (concat B B))) = X)
    let garbage = call(5, vec![call(4, vec![int(2), call(14, vec![quote(blob.clone()), quote(blob)])])]);
    let inner = call(4, vec![garbage, call(4, vec![int(2), call(4, vec![int(5), quote(atom(&[]))])])]);
    let env = T::list(vec![int(5), int(6), int(7), int(8)]);
    let prog = call(4, vec![call(2, vec![quote(inner), int(1)]), call(4, vec![int(2), int(5)])]);
    (prog, env)
}

/// a softfork guard with a known extension whose declared cost is exactly right (default flags), around
/// tiny bodies including operators invoked with no operands
fn exact_guard(rng: &mut Rng) -> (T, T) {
    let zero_arg = *rng.pick(&[16u8, 17, 18, 11, 14, 24, 25, 26, 33, 34]);
    let body = match rng.below(4) {
        0 => call(zero_arg, vec![]),
        1 => call(zero_arg, vec![quote(int(rng.range(-3, 300) as i128))]),
        2 => quote(int(42)),
        _ => call(13, vec![call(14, vec![quote(T::Atom(rng.bytes(600))), quote(T::Atom(rng.bytes(600)))])]),
    };
    let ext = *rng.pick(&[0i128, 1]);
    match guard_for(0, ext, &body) {
        Some((g, _)) => {
            // the guard on its own, or evaluated inside a still-pending GC-candidate operator
            let g = match rng.below(5) {
                0 => call(2, vec![quote(g), quote(atom(&[]))]),
                1 => call(11, vec![g]),
                2 => call(9, vec![g, quote(atom(&[]))]),
                _ => g,
            };
            (g, T::nil())
        }
        None => (quote(int(1)), T::nil()),
    }
}

/// a softfork guard (extension 0, 1 or 2) around a small body whose declared cost is *not* what the
/// body costs: an aware node must reject it (or, for an unknown extension, charge the declared cost),
/// whatever hard-fork flags are set
fn misdeclared_guard(rng: &mut Rng) -> (T, T) {
    let body = match rng.below(6) {
        0 => quote(int(42)),
        1 => call(16, vec![quote(int(1)), quote(int(2))]),
        2 => call(11, vec![quote(atom(b"abc"))]),
        // a guarded program that is a bare atom: nil, or a path into the guard's environment
        3 => atom(&[]),
        4 => int(1),
        _ => int(*rng.pick(&[2i128, 3, 5])),
    };
    let ext = *rng.pick(&[0i128, 1, 1, 2]);
    let declared = 100 + rng.below(2000);
    (call(36, vec![quote(int(declared as i128)), quote(int(ext)), quote(body), quote(atom(&[]))]), T::nil())
}

/// a tiny program (cost well below 1200) whose single operator call ends in an ordinary error after it has
/// passed at least one of its own cost checks: every budget up to that point can then be swept
fn small_failing_op_program(rng: &mut Rng) -> (T, T) {
    let op = *rng.pick(&[16u8, 17, 18, 11, 14, 24, 25, 26, 19, 20, 21, 9, 10, 13, 12, 22, 23, 27, 33, 34]);
    let k = rng.below(3) as usize;
    let mut args: Vec<T> = (0..k).map(|_| quote(progs::random_int(rng))).collect();
    // the offending operand: a pair where an atom is required (reached after the earlier operands were charged)
    args.push(if rng.chance(1, 2) { int(1) } else { quote(T::pair(int(1), int(2))) });
    if rng.chance(1, 3) {
        args.push(quote(int(3)));
    }
    (call(op, args), T::pair(int(1), int(2)))
}

/// one program from the union of the directed generators
fn corpus_program(rng: &mut Rng, allow_softfork: bool) -> (T, T) {
    let from_line = |l: &str, pi: usize| -> (T, T) {
        let w: Vec<&str> = l.split(' ').collect();
        (trees::from_hex(w[pi]).unwrap_or(T::nil()), w.get(pi + 1).and_then(|e| trees::from_hex(e)).unwrap_or(T::nil()))
    };
    let op_line = |l: &str| -> (T, T) {
        let w: Vec<&str> = l.split(' ').collect();
        let code: u8 = match w[2] {
            "op_add" => 16, "op_subtract" => 17, "op_multiply" => 18, "op_div" => 19, "op_divmod" => 20, "op_gr" => 21, "op_ash" => 22,
            "op_lsh" => 23, "op_logand" => 24, "op_logior" => 25, "op_logxor" => 26, "op_lognot" => 27, "op_mod" => 61, "op_modpow" => 60,
            _ => 16,
        };
        let args = trees::from_hex(w[5]).unwrap_or(T::nil());
        let mut items = vec![];
        let mut cur = &args;
        while let T::Pair(a, b) = cur {
            items.push(quote((**a).clone()));
            cur = b;
        }
        (call(code, items), T::nil())
    };
    match rng.below(13) {
        0 => alias_heavy_program(rng),
        1 => garbage_program(rng),
        2 => bls_point_program(rng),
        3 => bls_valid_program(rng),
        4 => gc_pair_program(rng),
        5 => progs::random_path_program(rng),
        6 => secp4_program(rng),
        7 if allow_softfork => {
            if rng.chance(1, 2) { misdeclared_guard(rng) } else { exact_guard(rng) }
        }
        8 if allow_softfork => {
            let lines = progs::generate_run_softfork_args(rng, 0, "quick");
            from_line(&lines[rng.below(lines.len() as u64) as usize], 6)
        }
        9 if allow_softfork => {
            let c = progs::huge_cost_corpus();
            c[rng.below(c.len() as u64) as usize].clone()
        }
        10 => {
            let lines = progs::generate_op_fastpath(rng, 0, "quick");
            op_line(&lines[rng.below(lines.len() as u64) as usize])
        }
        11 => {
            let lines = progs::generate_op_limits(rng, 0, "quick");
            op_line(&lines[rng.below(lines.len() as u64) as usize])
        }
        _ => {
            let c = crate::refclvm::corpus();
            let (p, e) = c[rng.below(c.len() as u64) as usize].clone();
            if !allow_softfork && uses_softfork(&p) { random_program(rng, 20, false) } else { (p, e) }
        }
    }
}

/// BLS operators of the standard table applied to *valid* points (computed inside the program by
/// pubkey_for_exp / g2_map): operators with identical costs and validation (g2_add / g2_subtract, g1 …)
/// can only be told apart by the resulting point
fn bls_valid_program(rng: &mut Rng) -> (T, T) {
    let g1 = |rng: &mut Rng| call(30, vec![quote(int(rng.range(1, 1000) as i128))]);
    let g2 = |rng: &mut Rng| call(57, vec![quote(T::Atom(rng.bytes(5)))]);
    let prog = match rng.below(8) {
        0 => call(52, vec![g2(rng), g2(rng)]),
        1 => call(53, vec![g2(rng), g2(rng)]),
        2 => call(52, vec![g2(rng), g2(rng), g2(rng)]),
        3 => call(49, vec![g1(rng), g1(rng)]),
        4 => call(29, vec![g1(rng), g1(rng)]),
        5 => call(54, vec![g2(rng), quote(int(rng.range(-5, 50) as i128))]),
        6 => call(50, vec![g1(rng), quote(int(rng.range(-5, 50) as i128))]),
        _ => call(55, vec![call(53, vec![g2(rng), g2(rng)])]),
    };
    (prog, T::nil())
}

/// 4-byte operators around the secp256k1/secp256r1 opcodes (same cost multiplier, every value of the
/// last byte's cost-function and padding bits) on valid and corrupted signature triples
pub fn secp4_program(rng: &mut Rng) -> (T, T) {
    let k1 = rng.chance(1, 2);
    let (pkc, _pku, msg, mut sig) = crate::crypto::secp_valid(rng, k1);
    if rng.chance(1, 5) {
        let i = rng.below(sig.len() as u64) as usize;
        sig[i] ^= 1 << rng.below(8);
    }
    let mut op = if k1 { vec![0x13, 0xd6, 0x1f, 0x00] } else { vec![0x1c, 0x3a, 0x8f, 0x00] };
    match rng.below(6) {
        0 => {}
        1 => op[3] = rng.below(64) as u8,
        2 => op[3] = 0x40 | rng.below(64) as u8,
        3 => op[3] = 0x80 | rng.below(64) as u8,
        4 => op[3] = 0xc0 | rng.below(64) as u8,
        _ => op[2] ^= 1 << rng.below(8),
    }
    let args = match rng.below(8) {
        0 => vec![],
        1 => vec![quote(T::Atom(pkc)), quote(T::Atom(msg))],
        2 => vec![quote(int(1)), quote(int(2)), quote(int(3))],
        _ => vec![quote(T::Atom(pkc)), quote(T::Atom(msg)), quote(T::Atom(sig))],
    };
    let prog = T::pair(T::Atom(op), T::list(args));
    let prog = if rng.chance(1, 3) { call(4, vec![prog, quote(int(7))]) } else { prog };
    (prog, T::nil())
}

/// GC fires because of *pair* garbage (a GC-candidate operator with ≥ 130 operands) while the heap is
/// tiny and the atom table is longer than the heap (substr aliases of a short heap atom add table
/// entries without heap bytes): checkpoint bookkeeping that confuses the two vectors shows up here
fn alias_heavy_program(rng: &mut Rng) -> (T, T) {
    let env = T::Atom(match rng.below(4) {
        0 => vec![0xff],
        1 => vec![0x80],
        2 => vec![0x00, 0x01],
        _ => vec![0xff, 0x7f, 0x01],
    });
    let m = 130 + rng.below(80) as usize;
    let op = *rng.pick(&[11u8, 16, 17, 24, 25, 26, 33, 34]);
    let args: Vec<T> = (0..m).map(|_| if rng.chance(3, 4) { int(1) } else { quote(int(rng.below(3) as i128)) }).collect();
    let mut big = call(op, args);
    if rng.chance(1, 3) {
        big = call(2, vec![quote(big), int(1)]);
    }
    let mut prog = quote(atom(&[]));
    for _ in 0..rng.below(5) + 1 {
        let alias = match rng.below(3) {
            0 => call(12, vec![int(1), quote(atom(&[])), quote(int(1))]),
            1 => call(12, vec![int(1), quote(atom(&[]))]),
            _ => call(12, vec![int(1), quote(int(1))]),
        };
        prog = call(4, vec![alias, prog]);
    }
    let prog = if rng.chance(1, 2) { call(4, vec![big, prog]) } else { call(4, vec![prog, call(4, vec![big, quote(atom(&[]))])]) };
    (prog, env)
}

/// programs that allocate ≥ 1 KiB of garbage inside GC-candidate operator calls
fn garbage_program(rng: &mut Rng) -> (T, T) {
    let blen = 600 + rng.below(600) as usize;
    let blob = T::Atom(rng.bytes(blen));
    let (inner, env) = random_program(rng, 12, false);
    let body = match rng.below(4) {
        // (a (q . (f (c X (c (concat B B) ())))) env)
        0 => call(2, vec![quote(call(5, vec![call(4, vec![inner, call(4, vec![call(14, vec![quote(blob.clone()), quote(blob)]), quote(atom(&[]))])])])), int(1)]),
        // (strlen (concat B B B))
        1 => call(13, vec![call(14, vec![quote(blob.clone()), quote(blob.clone()), quote(blob)])]),
        // (sha256 (concat B B) X)
        2 => call(11, vec![call(14, vec![quote(blob.clone()), quote(blob)]), inner]),
        // (substr (a (q . (f (c (concat 0x00 0x80) (c (concat B B) ())))) ()) 0 1)   — DESIGN §6-C
        _ => call(12, vec![
            call(2, vec![quote(call(5, vec![call(4, vec![call(14, vec![quote(atom(&[0])), quote(atom(&[0x80]))]), call(4, vec![call(14, vec![quote(blob.clone()), quote(blob)]), quote(atom(&[]))])])])), quote(atom(&[]))]),
            quote(int(0)),
            quote(int(1)),
        ]),
    };
    (body, env)
}

pub fn oracle(name: &str, rng: &mut Rng, n: usize, tier: &str) -> OracleReport {
    let mut rep = OracleReport::default();
    let mut seen = std::collections::HashSet::new();
    for i in 0..n {
        #[allow(unused_mut)]
        let (mut prog, env) = if name == "gc" && i % 4 == 1 {
            alias_heavy_program(rng)
        } else if name == "budget" && i < progs::huge_cost_corpus().len() {
            progs::huge_cost_corpus()[i].clone()
        } else if name == "gc" && i % 2 == 0 {
            garbage_program(rng)
        } else if name == "repr" && i % 4 == 1 {
            bls_point_program(rng)
        } else if name == "restrict" && i % 3 == 1 {
            let lines = progs::generate_run_softfork_args(rng, 0, "quick");
            let l = &lines[rng.below(lines.len() as u64) as usize];
            let w: Vec<&str> = l.split(' ').collect();
            (trees::from_hex(w[6]).unwrap(), T::nil())
        } else if (name == "repr" && i % 4 == 3) || (name == "total" && i % 5 == 4) {
            gc_pair_program(rng)
        } else if name == "repr" && i % 16 == 0 {
            // sums / products that carry into a new byte that neither the accumulator nor the operand had:
            // where "size before" and "size after" the step differ
            let cases: [&[i128]; 9] = [&[0xff, 1], &[0x80, 0x80], &[200, 100], &[0xffff, 1], &[0x8000, 0x8000], &[0xffffff, 1], &[0x7f, 0x7f, 0x7f], &[0x10, 0x10], &[-0x80, -1]];
            let c = *rng.pick(&cases);
            let op = *rng.pick(&[16u8, 16, 17, 18]);
            (call(op, c.iter().map(|v| quote(int(*v))).collect()), T::nil())
        } else if name == "repr" && i % 8 == 0 {
            // operands at the byte boundaries of the small-integer fast paths, re-tagged below
            let lines: Vec<String> = progs::generate_op_fastpath(rng, 0, "quick")
                .into_iter()
                .filter(|l| l.contains(" op_add ") || l.contains(" op_subtract ") || l.contains(" op_multiply ") || l.contains(" op_gr "))
                .collect();
            let l = &lines[rng.below(lines.len() as u64) as usize];
            let w: Vec<&str> = l.split(' ').collect();
            let code: u8 = match w[2] {
                "op_add" => 16, "op_subtract" => 17, "op_multiply" => 18, "op_div" => 19, "op_divmod" => 20, "op_gr" => 21, "op_ash" => 22,
                "op_lsh" => 23, "op_logand" => 24, "op_logior" => 25, "op_logxor" => 26, "op_lognot" => 27, "op_mod" => 61, _ => 16,
            };
            let args = trees::from_hex(w[5]).unwrap_or(T::nil());
            let mut items = vec![];
            let mut cur = &args;
            while let T::Pair(a, b) = cur {
                items.push(quote((**a).clone()));
                cur = b;
            }
            (call(code, items), T::nil())
        } else if (name == "hide" && i % 5 == 3) || (name == "repr" && i % 8 == 4) {
            exact_guard(rng)
        } else if name == "repr" && i % 8 == 6 {
            // point-sized atoms (valid, infinity, invalid): the history arm feeds them and their sign-flipped
            // twins to the point operators first
            bls_point_program(rng)
        } else if name == "repr" && i % 4 == 2 {
            progs::random_path_program(rng)
        } else if name == "runtime" && i % 4 == 1 {
            bls_valid_program(rng)
        } else if name == "runtime" && i % 4 == 3 {
            small_failing_op_program(rng)
        } else if name == "hide" && i % 5 == 1 {
            secp4_program(rng)
        } else if name == "hide" && i % 5 == 2 {
            misdeclared_guard(rng)
        } else if i % 3 == 2 {
            // every oracle also draws from the union of all directed generators (a defect found through
            // one property's corpus is usually visible through another property's oracle as well)
            corpus_program(rng, name != "runtime")
        } else {
            random_program(rng, 30, name != "runtime")
        };
        if rng.chance(1, 6) {
            prog = progs::mutate(rng, &prog);
        }
        let flags = match name {
            "repr" if i % 4 == 3 => random_flags(rng) | ENABLE_GC,
            "repr" if i % 8 == 0 => *rng.pick(&[0u32, NEW_COST_MODEL, NEW_COST_MODEL, NEW_COST_MODEL | 0x1000]),
            "repr" if i % 8 == 4 => *rng.pick(&[0x1u32, 0x217, 0x3, 0x11]), // exact_guard(): cost for the old model
            "total" if i % 5 == 4 => random_flags(rng) | ENABLE_GC,
            "hide" if i % 5 == 3 => *rng.pick(&[0u32, ENABLE_GC, ENABLE_GC | 0x10, 0x100]), // exact_guard(): cost for the old model
            "hide" => (random_flags(rng) & !(NO_UNKNOWN_OPS | NEW_COST_MODEL)) | if i % 5 == 2 && i % 2 == 0 { 0x100 } else { 0 },
            "runtime" => random_flags(rng) & !(ENABLE_GC | DISABLE_OP),
            _ => random_flags(rng),
        };
        let base = run_full("chia", flags, 0, &prog, &env, "");
        rep.evaluations += 1;
        let key = (trees::to_hex(&prog), trees::to_hex(&env), flags);
        if seen.insert(key) && prog.nodes() > 3 {
            rep.nontrivial += 1;
        }
        rep.hit(match &base.res {
            Ok(_) => "ok",
            Err((k, _)) => k.as_str(),
        });
        if i < 3 {
            rep.sample(desc(&prog, &env, flags));
        }
        let d = || desc(&prog, &env, flags);
        // C25 on every case
        if is_internal(&base) {
            rep.fail("total", format!("{} -> {:?}", d(), base.res));
        }
        match name {
            "budget" => {
                if is_internal(&base) {
                    rep.fail("budget_total", format!("{} budget=0 -> {:?} (neither a result nor an ordinary error: the budget cannot have been honoured)", d(), base.res));
                }
                // budget 0 means unlimited: identical to the largest budget
                let m = run_full("chia", flags, u64::MAX, &prog, &env, "");
                if m.res != base.res {
                    rep.fail("budget_zero", format!("{} budget=0 -> {:?} but budget=u64::MAX -> {:?}", d(), base.res, m.res));
                } else if m.res.is_ok() && m != base {
                    // … including what the run leaves in the allocator (atom / pair / heap counters)
                    rep.fail("budget_zero_counts", format!("{} budget=0 -> {:?} but budget=u64::MAX -> {:?}", d(), base, m));
                }
                if let Ok((c, v)) = &base.res {
                    let exempt_possible = flags & NEW_COST_MODEL != 0;
                    let mut budgets = vec![*c, c + 1, u64::MAX, c.saturating_sub(1), 1];
                    for _ in 0..3 {
                        budgets.push(rng.below(c.max(&1).clone()) + 1);
                    }
                    for b in budgets {
                        let o = run_full("chia", flags, b, &prog, &env, "");
                        match &o.res {
                            Ok((c2, v2)) => {
                                if c2 != c || v2 != v {
                                    rep.fail("budget_same", format!("{} budget={} got ({},{}) want ({},{})", d(), b, c2, v2, c, v));
                                } else if o != base {
                                    rep.fail("budget_zero_counts", format!("{} budget={} leaves {:?}, budget=0 leaves {:?}", d(), b, o, base));
                                }
                                if *c2 > b {
                                    rep.fail("budget_sound", format!("{} budget={} cost {} > budget", d(), b, c2));
                                }
                                if b < *c && !exempt_possible {
                                    rep.fail("budget_tight", format!("{} succeeds under budget {} < cost {}", d(), b, c));
                                }
                            }
                            Err((k, _)) => {
                                if k != "CostExceeded" {
                                    rep.fail("budget_only_cost_exceeded", format!("{} budget={} error {}", d(), b, k));
                                } else if b >= *c && !exempt_possible {
                                    rep.fail("budget_tight", format!("{} fails under budget {} >= cost {}", d(), b, c));
                                }
                            }
                        }
                    }
                    if exempt_possible {
                        // upward closed: find one succeeding budget by doubling, then everything above succeeds
                        let o = run_full("chia", flags, c.saturating_mul(4), &prog, &env, "");
                        if let Ok((c2, v2)) = &o.res {
                            if c2 != c || v2 != v {
                                rep.fail("budget_same", format!("{} budget=4C differs", d()));
                            }
                        }
                    }
                }
            }
            "gc" => {
                // garbage reclaimed *inside* a softfork guard that then exits: the guard's full restore must
                // compose with the earlier GC restores (counts after the run)
                if i % 4 == 3 {
                    let blob = T::Atom(rng.bytes(600));
                    let small = call(14, vec![quote(atom(b"aaaaaaaaaaaaaaaaaaaa")), quote(atom(b"bbbbbbbbbbbbbbbbbbbb"))]);
                    let body = match rng.below(4) {
                        0 => call(13, vec![call(14, vec![quote(blob.clone()), quote(blob)])]),
                        // a GC candidate that returns a *pair*, next to an allocation made before it runs
                        1 => call(4, vec![call(20, vec![quote(int(10)), quote(int(3))]), small]),
                        2 => call(4, vec![call(2, vec![quote(call(4, vec![int(1), int(1)])), small.clone()]), small]),
                        _ => call(4, vec![call(20, vec![quote(int(-7)), quote(int(2))]), call(14, vec![quote(blob.clone()), quote(blob)])]),
                    };
                    let fl = flags & !(ENABLE_GC | NO_UNKNOWN_OPS);
                    if let Some((g0, _)) = guard_for(fl, *rng.pick(&[0i128, 1]), &body) {
                        // the guard itself inside a pending GC candidate half of the time
                        let g = match rng.below(4) {
                            0 => call(2, vec![quote(g0), quote(atom(&[]))]),
                            1 => call(11, vec![g0]),
                            _ => g0,
                        };
                        let a = run_full("chia", fl, 0, &g, &T::nil(), "");
                        let b = run_full("chia", fl | ENABLE_GC, 0, &g, &T::nil(), "");
                        if a.res != b.res || a.counts != b.counts {
                            rep.fail("gc_guard", format!("{} nogc={:?}{:?} gc={:?}{:?}", desc(&g, &T::nil(), fl), a.res, a.counts, b.res, b.counts));
                        }
                    }
                }
                for f in [flags & !ENABLE_GC, flags] {
                    let a = run_full("chia", f & !ENABLE_GC, 0, &prog, &env, "");
                    let b = run_full("chia", f | ENABLE_GC, 0, &prog, &env, "");
                    if a.res != b.res {
                        rep.fail("gc_outcome", format!("{} nogc={:?} gc={:?}", desc(&prog, &env, f), a.res, b.res));
                    } else if a.counts != b.counts {
                        rep.fail("gc_counts", format!("{} counts nogc={:?} gc={:?}", desc(&prog, &env, f), a.counts, b.counts));
                    }
                }
            }
            "malachite" => {
                let a = run_full("chia", flags & !MALACHITE, 0, &prog, &env, "");
                let b = run_full("chia", flags | MALACHITE, 0, &prog, &env, "");
                if a != b {
                    rep.fail("malachite", format!("{} without={:?} with={:?}", d(), a, b));
                }
            }
            "restrict" => {
                let restr = [NO_UNKNOWN_OPS, CANONICAL_INTS, DISABLE_OP, LIMIT_SOFTFORK, LIMITS, LIMIT_HEAP];
                let mut r = 0;
                for b in restr {
                    if rng.chance(1, 2) {
                        r |= b;
                    }
                }
                if rng.chance(1, 3) {
                    // the crate's own constant (whatever it contains today), not a copy of its bits
                    r = clvmr::chia_dialect::MEMPOOL_MODE.bits();
                }
                // directed: softfork guards whose cost / extension arguments are non-canonical integers
                let mut prog2 = prog.clone();
                if i % 7 == 3 {
                    let ext = rng.pick(&[vec![0u8, 0], vec![0, 1], vec![0, 0, 0], vec![0]]).clone();
                    let body = if rng.chance(1, 2) { call(8, vec![]) } else { quote(int(1)) };
                    prog2 = call(36, vec![quote(int(10000 + rng.below(50) as i128)), quote(T::Atom(ext)), quote(body), quote(atom(&[]))]);
                    if rng.chance(1, 2) {
                        r |= CANONICAL_INTS;
                    }
                }
                if i % 6 == 5 {
                    // look-alike BLS points under the crate's own MEMPOOL_MODE constant
                    prog2 = bls_point_program(rng).0;
                    r = clvmr::chia_dialect::MEMPOOL_MODE.bits();
                }
                let prog = &prog2;
                let with = run_full("chia", flags | r, 0, prog, &env, "");
                let without = run_full("chia", flags & !r, 0, prog, &env, "");
                if let Ok(x) = &with.res {
                    if without.res.as_ref().ok() != Some(x) {
                        // known finding K: in lenient mode CANONICAL_INTS makes a softfork guard with a
                        // non-canonical cost/extension argument an *unknown* guard (nil, declared cost)
                        // instead of entering it; recognised by: the disagreement disappears when
                        // CANONICAL_INTS alone is taken out of R, and unknown operators are allowed
                        let r2 = r & !CANONICAL_INTS;
                        let with2 = run_full("chia", (flags & !r) | r2, 0, prog, &env, "");
                        let known = r & CANONICAL_INTS != 0
                            && (flags | r) & NO_UNKNOWN_OPS == 0
                            && uses_softfork(prog)
                            && softfork_ext_may_be_noncanonical(prog)
                            && match &with2.res {
                                Ok(y) => without.res.as_ref().ok() == Some(y),
                                Err(_) => true,
                            };
                        rep.fail(
                            "restrict",
                            format!("{}{} R={:x}: with R ok {:?} but without R {:?}", if known { "KNOWN-K-canonical-ints-lenient-softfork " } else { "" }, desc(prog, &env, flags), r, x, without.res),
                        );
                    }
                }
                let relaxed = run_full("chia", flags | RELAXED_BLS, 0, prog, &env, "");
                let strict = run_full("chia", flags & !RELAXED_BLS, 0, prog, &env, "");
                if let Ok(x) = &strict.res {
                    if relaxed.res.as_ref().ok() != Some(x) {
                        rep.fail("relaxed_bls", format!("{}: strict ok {:?} relaxed {:?}", d(), x, relaxed.res));
                    }
                }
            }
            "hide" => {
                if base.res.is_ok() {
                    let h = run_full("hide", flags, 0, &prog, &env, "");
                    if h.res != base.res || h.counts != base.counts {
                        rep.fail("hide", format!("{} aware={:?}{:?} unaware={:?}{:?}", d(), base.res, base.counts, h.res, h.counts));
                    }
                }
            }
            "costmodel" => {
                let a = run_full("chia", flags & !NEW_COST_MODEL, 0, &prog, &env, "");
                let b = run_full("chia", flags | NEW_COST_MODEL, 0, &prog, &env, "");
                if let (Ok((_, va)), Ok((_, vb))) = (&a.res, &b.res) {
                    if va != vb {
                        rep.fail("costmodel", format!("{} old={} new={}", d(), va, vb));
                    }
                }
            }
            "runtime" => {
                if !uses_softfork(&prog) {
                    let r = run_full("runtime", flags, 0, &prog, &env, "");
                    let same = match (&base.res, &r.res) {
                        (Ok(x), Ok(y)) => x == y,
                        (Err((k1, _)), Err((k2, _))) => k1 == k2,
                        _ => false,
                    };
                    if !same && !uses_chia_only_ops(&prog) {
                        rep.fail("runtime", format!("{} chia={:?} runtime={:?}", d(), base.res, r.res));
                    }
                    // … and under the budgets where the outcome changes: for a run that ends in an ordinary
                    // error, b* = the smallest budget under which ChiaDialect no longer says CostExceeded;
                    // for a successful run, its cost.  Both dialects must agree at b* - 1, b* and b* + 1.
                    if same && !uses_chia_only_ops(&prog) {
                        let not_cost = |o: &Out| !matches!(&o.res, Err((k, _)) if k == "CostExceeded");
                        let bstar = match &base.res {
                            Ok((c, _)) => Some(*c),
                            Err(_) => {
                                let mut hi = 64u64;
                                while hi < (1 << 40) && !not_cost(&run_full("chia", flags, hi, &prog, &env, "")) {
                                    hi *= 4;
                                }
                                if hi >= (1 << 40) {
                                    None
                                } else {
                                    let mut lo = 1u64;
                                    while lo < hi {
                                        let mid = (lo + hi) / 2;
                                        if not_cost(&run_full("chia", flags, mid, &prog, &env, "")) { hi = mid } else { lo = mid + 1 }
                                    }
                                    Some(lo)
                                }
                            }
                        };
                        if let Some(b) = bstar {
                            // every budget up to b* when that is cheap (the remaining budget is then exactly 0
                            // at some operator dispatch for one of them), else the last 1500 and a sample
                            let mut budgets: Vec<u64> = if b <= 1200 && (base.res.is_err() || i % 3 == 0) {
                                (1..=b + 1).collect()
                            } else {
                                (b.saturating_sub(150).max(1)..=b + 1).collect()
                            };
                            if b > 1200 {
                                for _ in 0..30 {
                                    budgets.push(1 + rng.below(b));
                                }
                            }
                            for bb in budgets {
                                let c = run_full("chia", flags, bb, &prog, &env, "");
                                let r = run_full("runtime", flags, bb, &prog, &env, "");
                                let same = match (&c.res, &r.res) {
                                    (Ok(x), Ok(y)) => x == y,
                                    (Err((k1, _)), Err((k2, _))) => k1 == k2,
                                    _ => false,
                                };
                                if !same {
                                    rep.fail("runtime", format!("{} budget={} chia={:?} runtime={:?}", d(), bb, c.res, r.res));
                                }
                            }
                        }
                    }
                }
            }
            "repr" => {
                // fresh vs re-tagged atoms vs pre-populated allocator
                let natoms = progs::count_atoms(&prog) + progs::count_atoms(&env);
                let tags: String = (0..natoms).map(|_| *rng.pick(&['H', 'H', 'H', '-', '-', '-', '-', 'E'])).collect();
                let o = run_full("chia", flags, 0, &prog, &env, &tags);
                let same = match (&base.res, &o.res) {
                    (Ok(x), Ok(y)) => x == y,
                    (Err((k1, _)), Err((k2, _))) => k1 == k2,
                    _ => false,
                };
                if !same {
                    rep.fail("repr", format!("{} tags={} default={:?} retagged={:?}", d(), tags, base.res, o.res));
                }
                let h = run_with_history(rng, flags, &prog, &env);
                let same = match (&base.res, &h) {
                    (Ok(x), Ok(y)) => x == y,
                    (Err((k1, _)), Err((k2, _))) => k1 == k2,
                    _ => false,
                };
                if !same {
                    rep.fail("history", format!("{} fresh={:?} after-history={:?}", d(), base.res, h));
                }
            }
            "total" => {
                // … in an allocator with a history (earlier runs, unrelated atoms and pairs)
                if i % 5 >= 3 {
                    if let Err((k, m)) = run_with_history(rng, flags, &prog, &env) {
                        if k == "PANIC" || k == "InternalError" {
                            rep.fail("total", format!("{} after an allocator history -> {} {}", d(), k, m));
                        }
                    }
                }
                for b in [1u64, 100, 5000] {
                    let o = run_full("chia", flags, b, &prog, &env, "");
                    if is_internal(&o) {
                        rep.fail("total", format!("{} budget={} -> {:?}", d(), b, o.res));
                    }
                }
            }
            _ => panic!("unknown interp oracle {name}"),
        }
    }
    if name == "total" && tier == "thorough" {
        // deep nesting: no process stack overflow (the interpreter is iterative)
        let mut p = quote(int(1));
        for _ in 0..200_000 {
            p = call(5, vec![call(4, vec![p, quote(atom(&[]))])]);
        }
        let o = run_full("chia", 0, 0, &p, &T::nil(), "");
        rep.evaluations += 1;
        if is_internal(&o) {
            rep.fail("total", "200000-deep (f (c … ())) nest -> internal".into());
        }
    }
    rep
}

/// finding K's shape: some `(softfork cost ext …)` form whose *extension* operand is a quoted atom that
/// is not a canonical integer (redundant leading zero byte), or an extension operand that is computed
/// (not a quoted atom: cannot be judged syntactically).  A literal canonical extension can never
/// trigger K, whatever the cost operand is (a parse error of the cost operand is never swallowed).
fn softfork_ext_may_be_noncanonical(t: &T) -> bool {
    fn list(t: &T) -> Vec<&T> {
        let mut v = vec![];
        let mut c = t;
        while let T::Pair(a, b) = c {
            v.push(&**a);
            c = b;
        }
        v
    }
    match t {
        T::Atom(_) => false,
        T::Pair(l, r) => {
            let here = match &**l {
                T::Atom(b) if b == &[36u8] => {
                    let args = list(r);
                    match args.get(1) {
                        Some(T::Pair(q, v)) if **q == T::Atom(vec![1]) => match &**v {
                            T::Atom(b) => !b.is_empty() && b[0] == 0 && (b.len() == 1 || b[1] & 0x80 == 0),
                            T::Pair(..) => false,
                        },
                        Some(_) => true, // computed extension
                        None => false,
                    }
                }
                _ => false,
            };
            here || softfork_ext_may_be_noncanonical(l) || softfork_ext_may_be_noncanonical(r)
        }
    }
}

fn uses_softfork(t: &T) -> bool {
    match t {
        T::Atom(b) => b == &[36u8],
        T::Pair(l, r) => uses_softfork(l) || uses_softfork(r),
    }
}

/// opcodes ChiaDialect implements but RuntimeDialect's table lacks (coinid 48, keccak 62, sha256tree 63,
/// secp 64/65 and the 4-byte opcodes): programs mentioning them are outside C30's quantifier
fn uses_chia_only_ops(t: &T) -> bool {
    match t {
        T::Atom(b) => b.len() == 1 && [48u8, 62, 63, 64, 65].contains(&b[0]) || (b.len() == 4 && (b[..] == [0x13, 0xd6, 0x1f, 0x00] || b[..] == [0x1c, 0x3a, 0x8f, 0x00])),
        T::Pair(l, r) => uses_chia_only_ops(l) || uses_chia_only_ops(r),
    }
}

/// run in an allocator that already holds unrelated nodes and earlier (successful and failed) runs
fn run_with_history(rng: &mut Rng, flags: u32, prog: &T, env: &T) -> Result<(u64, String), (String, String)> {
    let mut a = Allocator::new();
    if rng.chance(1, 3) {
        // an atom-heavy history: many more heap atoms than pairs
        for _ in 0..(2000 + rng.below(3000)) {
            let b = rng.bytes(32);
            let _ = a.new_atom(&b);
        }
    }
    for _ in 0..rng.below(20) {
        let t = trees::random_tree(rng, 10, 40);
        let _ = trees::build(&mut a, &t);
    }
    let f = ClvmFlags::from_bits_truncate(flags);
    for _ in 0..rng.below(3) {
        let (p, e) = random_program(rng, 10, true);
        let p = trees::build(&mut a, &p).unwrap();
        let e = trees::build(&mut a, &e).unwrap();
        let _ = run_program(&mut a, &ChiaDialect::new(f), p, e, if rng.chance(1, 2) { 0 } else { 200 });
    }
    // earlier runs of the program itself (complete, cut short by the budget, under other flags) and of
    // a mutation of it: whatever they leave behind (validated-point cache, heap contents) must not matter
    for k in 0..rng.below(4) {
        let q = if k == 2 { progs::mutate(rng, prog) } else { prog.clone() };
        let p = trees::build(&mut a, &q).unwrap();
        let e = trees::build(&mut a, env).unwrap();
        let fl = if k == 1 { ClvmFlags::from_bits_truncate(random_flags(rng)) } else { f };
        let _ = std::panic::catch_unwind(std::panic::AssertUnwindSafe(|| run_program(&mut a, &ChiaDialect::new(fl), p, e, if k == 3 { 500 } else { 0 })));
    }
    // earlier runs (failed and successful, strict and RELAXED_BLS) that handle the point-sized atoms of the
    // program and their sign-flipped twins with the point operators: whatever they leave in the
    // validated-point cache must be valid points
    {
        fn point_atoms(t: &T, out: &mut Vec<Vec<u8>>) {
            match t {
                T::Atom(b) => {
                    if b.len() == 48 || b.len() == 96 {
                        out.push(b.clone());
                    }
                }
                T::Pair(l, r) => {
                    point_atoms(l, out);
                    point_atoms(r, out);
                }
            }
        }
        let mut blobs = vec![];
        point_atoms(prog, &mut blobs);
        point_atoms(env, &mut blobs);
        blobs.truncate(4);
        // a successful run clears the caches at its end, a failed one does not: the runs that may succeed come
        // first, the raising ones (which leave their cache entries behind) last
        for raise in [false, true] {
            for b in &blobs {
                let mut twin = b.clone();
                twin[0] ^= 0x20;
                for blob in [b.clone(), twin] {
                    let g1 = blob.len() == 48;
                    let ops: &[u8] = if g1 { &[51, 29, 49, 50] } else { &[55, 52, 53, 54] };
                    for &op in ops {
                        let args = match op {
                            50 | 54 => vec![quote(T::Atom(blob.clone())), quote(int(rng.range(-3, 9) as i128))],
                            _ => vec![quote(T::Atom(blob.clone()))],
                        };
                        let body = call(op, args);
                        let q = if raise { call(8, vec![body.clone()]) } else { body.clone() };
                        for fl in [RELAXED_BLS, 0u32] {
                            let fl = ClvmFlags::from_bits_truncate(fl | if rng.chance(1, 4) { NEW_COST_MODEL } else { 0 });
                            let p = trees::build(&mut a, &q).unwrap();
                            let e = a.nil();
                            let _ = std::panic::catch_unwind(std::panic::AssertUnwindSafe(|| run_program(&mut a, &ChiaDialect::new(fl), p, e, 0)));
                        }
                    }
                }
            }
        }
    }
    let mut it = "".chars();
    let p = crate::run::build_tagged(&mut a, prog, &mut it);
    let e = crate::run::build_tagged(&mut a, env, &mut it);
    let r = std::panic::catch_unwind(std::panic::AssertUnwindSafe(|| match run_program(&mut a, &ChiaDialect::new(f), p, e, 0) {
        Ok(red) => Ok((red.0, trees::to_hex(&trees::from_node(&a, red.1)))),
        Err(e) => Err((err_kind(&e), format!("{}", e))),
    }));
    match r {
        Ok(x) => x,
        Err(_) => Err(("PANIC".to_string(), "panic".to_string())),
    }
}

/// find the declared cost that makes `(softfork cost ext (q . body) ())` succeed under `flags`
fn guard_for(flags: u32, ext: i128, body: &T) -> Option<(T, u64)> {
    let mk = |c: u64| call(36, vec![quote(int(c as i128)), quote(int(ext)), quote(body.clone()), quote(atom(&[]))]);
    let inner = run_full("chia", flags, 0, body, &T::nil(), "");
    let Ok((c, _)) = inner.res else { return None };
    let guard = if flags & NEW_COST_MODEL != 0 { 500 } else { 140 };
    for delta in 0..60u64 {
        let cost = c + guard + delta;
        let o = run_full("chia", flags, 0, &mk(cost), &T::nil(), "");
        if o.res.is_ok() {
            return Some((mk(cost), cost));
        }
    }
    None
}

/// C31: guards yield nil, are isolated (counts), consume their declared cost; nesting limit
pub fn oracle_guards(rng: &mut Rng, n: usize, _tier: &str) -> OracleReport {
    let mut rep = OracleReport::default();
    // a guard with a known extension consumes *exactly* its declared cost: a declared cost that is off by
    // any amount must not complete (old cost model; under NEW_COST_MODEL extensions 0/1 are exempt)
    for i in 0..n.min(200) {
        let flags = (random_flags(rng) & !(NO_UNKNOWN_OPS | NEW_COST_MODEL)) | if i % 2 == 0 { 0x100 } else { 0 };
        let body = match i % 3 {
            0 => quote(int(42)),
            1 => call(16, vec![quote(int(1)), quote(int(2))]),
            _ => call(11, vec![quote(atom(b"abc"))]),
        };
        for ext in [0i128, 1] {
            let Some((_, exact)) = guard_for(flags, ext, &body) else { continue };
            for delta in [-20i64, -1, 1, 7, 1000] {
                let declared = (exact as i64 + delta) as u64;
                let g = call(36, vec![quote(int(declared as i128)), quote(int(ext)), quote(body.clone()), quote(atom(&[]))]);
                let o = run_full("chia", flags, 0, &g, &T::nil(), "");
                rep.evaluations += 1;
                if o.res.is_ok() {
                    rep.fail("guard_exact_cost", format!("{} completes although its declared cost {} is not the body's cost {} -> {:?}", desc(&g, &T::nil(), flags), declared, exact, o.res));
                }
            }
        }
    }
    // guards nested in a guard are isolated *when they exit*, not only when the outermost one does: the
    // smallest heap limit under which two inner guards (each allocating ~1000 bytes) run inside an outer
    // guard is about the one needed when the same two guards run in sequence at top level
    for i in 0..n.min(12) {
        let flags = if i % 2 == 0 { 0 } else { ENABLE_GC };
        let len = 400 + 100 * (i % 4);
        let env = T::Atom(rng.bytes(len));
        let inner_body = call(14, vec![int(1), int(1)]);
        // the guarded program is run with the guard's own environment operand: pass the outer environment
        let mk = |cost: u64, body: &T| call(36, vec![quote(int(cost as i128)), quote(int(0)), quote(body.clone()), int(1)]);
        let find = |body: &T| -> Option<(T, u64)> {
            let base = run_full("chia", flags, 0, body, &env, "");
            let Ok((c, _)) = base.res else { return None };
            for delta in 0..80u64 {
                let g = mk(c + 140 + delta, body);
                if run_full("chia", flags, 0, &g, &env, "").res.is_ok() {
                    return Some((g, c + 140 + delta));
                }
            }
            None
        };
        let Some((inner, _)) = find(&inner_body) else { continue };
        let seq = call(4, vec![inner.clone(), inner.clone()]);
        let Some((nested, _)) = find(&seq) else { continue };
        let min_heap = |p: &T| -> Option<usize> {
            let mut lo = 0usize;
            let mut hi = 16 * len + 4096;
            if !crate::run::run_with("chia", flags, 0, Some(hi), p, &env, "").0.starts_with("ok") {
                return None;
            }
            while lo < hi {
                let mid = (lo + hi) / 2;
                if crate::run::run_with("chia", flags, 0, Some(mid), p, &env, "").0.starts_with("ok") { hi = mid } else { lo = mid + 1 }
            }
            Some(lo)
        };
        rep.evaluations += 1;
        if let (Some(h_seq), Some(h_nested)) = (min_heap(&seq), min_heap(&nested)) {
            rep.nontrivial += 1;
            if h_nested > h_seq + 64 {
                rep.fail("guard_isolated_nested", format!("{} needs a heap headroom of {} bytes, the same two guards in sequence need {}", desc(&nested, &env, flags), h_nested, h_seq));
            }
        }
    }
    for i in 0..n {
        let flags = random_flags(rng) & !NO_UNKNOWN_OPS;
        let (body, _) = random_program(rng, 15, false);
        let ext = *rng.pick(&[0i128, 1]);
        rep.evaluations += 1;
        let Some((g, declared)) = guard_for(flags, ext, &body) else {
            rep.hit("body-fails");
            continue;
        };
        rep.nontrivial += 1;
        rep.hit("guard-ok");
        if i < 3 {
            rep.sample(desc(&g, &T::nil(), flags));
        }
        let o = run_full("chia", flags, 0, &g, &T::nil(), "");
        let d = desc(&g, &T::nil(), flags);
        match &o.res {
            Ok((c, v)) => {
                if v != "80" {
                    rep.fail("guard_nil", format!("{} result {}", d, v));
                }
                // reference: the same guard around a trivial body; counts afterwards must be identical
                if let Some((g0, _)) = guard_for(flags, ext, &quote(atom(&[]))) {
                    let o0 = run_full("chia", flags, 0, &g0, &T::nil(), "");
                    if o0.counts != o.counts {
                        rep.fail("guard_isolated", format!("{} counts {:?} vs trivial-body guard {:?}", d, o.counts, o0.counts));
                    }
                }
                let exempt = flags & NEW_COST_MODEL != 0;
                // cost of the whole program = cost of evaluating the 4 quoted arguments + op + declared
                let args_cost = 1 + 4 * 20;
                if !exempt && *c != declared + args_cost {
                    rep.fail("guard_cost", format!("{} total {} declared {} (+{} for the argument list)", d, c, declared, args_cost));
                }
            }
            Err(e) => rep.fail("guard_completes", format!("{} {:?}", d, e)),
        }
    }
    // nesting: 20 deep succeeds, 21 fails with LIMIT_SOFTFORK
    for flags in [LIMIT_SOFTFORK, LIMIT_SOFTFORK | NEW_COST_MODEL, 0] {
        let mut body = quote(atom(&[]));
        for depth in 1..=22u32 {
            rep.evaluations += 1;
            // build without the depth limit so that the declared costs are right, then run with the flag
            let Some((g, _)) = guard_for(flags & !LIMIT_SOFTFORK, 0, &body) else {
                rep.fail("nesting", format!("could not build a {}-deep guard", depth));
                break;
            };
            let o = run_full("chia", flags, 0, &g, &T::nil(), "");
            let expect_ok = flags & LIMIT_SOFTFORK == 0 || depth <= 20;
            match (&o.res, expect_ok) {
                (Ok(_), true) => {}
                (Err((k, _)), false) if k == "SoftforkStackDepthExceeded" => {}
                other => rep.fail("nesting", format!("flags={:x} depth={} -> {:?}", flags, depth, other.0)),
            }
            rep.hit(&format!("depth{}", depth));
            body = g;
        }
    }
    rep
}

pub const SHA256TREE_PROG: &str = "ff02ffff01ff02ff02ffff04ff02ffff04ff03ff80808080ffff04ffff01ff02ffff03ffff07ff0580ffff01ff0bffff0102ffff02ff02ffff04ff02ffff04ff09ff80808080ffff02ff02ffff04ff02ffff04ff0dff8080808080ffff01ff0bffff0101ff058080ff0180ff018080";

/// C23: native sha256tree costs less than the ChiaLisp program, same hash
pub fn oracle_sha256tree(rng: &mut Rng, n: usize, _tier: &str) -> OracleReport {
    let mut rep = OracleReport::default();
    let prog = trees::from_hex(SHA256TREE_PROG).unwrap();
    let mut seen = std::collections::HashSet::new();
    for i in 0..n {
        let t = match i {
            0 => T::nil(),
            1 => T::Atom(vec![1]),
            2 => T::pair(T::nil(), T::nil()),
            // large atoms (alone and inside a tree): the per-byte rates of the two programs differ, the
            // fixed margin of the Chialisp program must not be what keeps the native operator cheaper
            3..=12 => {
                let len = [63usize, 64, 1000, 1300, 3100, 4096, 65536, 1 << 20, (1 << 20) + 1, (2 << 20) + 5][i - 3];
                let big = T::Atom(rng.bytes(len));
                if i % 2 == 0 { big } else { T::pair(big.clone(), T::pair(T::Atom(vec![7]), big)) }
            }
            _ if i % 9 == 0 => {
                let len = 1usize << rng.below(18);
                let len2 = len + rng.below(64) as usize;
                T::pair(trees::random_tree(rng, 6, 20), T::Atom(rng.bytes(len2)))
            }
            _ => trees::random_tree(rng, 40, 200),
        };
        let extra = 0x400 | (random_flags(rng) & !NO_UNKNOWN_OPS);
        for flags in [0x400u32, 0x400 | NEW_COST_MODEL, 0x400 | LIMITS, 0x400 | 0x217 | LIMITS, extra] {
            rep.evaluations += 1;
            if seen.insert((trees::to_hex(&t), flags)) {
                rep.nontrivial += 1;
            }
            let native = run_full("chia", flags, 0, &call(63, vec![quote(t.clone())]), &T::nil(), "");
            let lisp = run_full("chia", flags, 0, &prog, &t, "");
            rep.hit(&format!("nodes<={}", t.nodes().next_power_of_two()));
            if i < 2 {
                rep.sample(format!("tree={} native={:?} chialisp={:?}", trees::to_hex(&t), native.res, lisp.res));
            }
            match (&native.res, &lisp.res) {
                (Ok((cn, hn)), Ok((cl, hl))) => {
                    if hn != hl {
                        rep.fail("sha256tree_hash", format!("tree={} native {} lisp {}", trees::to_hex(&t), hn, hl));
                    }
                    // the native call is wrapped in `(sha256tree (q . T))`: its program overhead
                    // (op cost 1 + quote 20 + cons of the argument list) is part of what a user pays
                    if cn >= cl {
                        rep.fail("sha256tree_cheaper", format!("flags={:x} tree={} native {} >= chialisp {}", flags, trees::to_hex(&t), cn, cl));
                    }
                }
                other => rep.fail("sha256tree_runs", format!("flags={:x} tree={} {:?}", flags, trees::to_hex(&t), other)),
            }
        }
    }
    rep
}

#[allow(dead_code)]
fn unused(_: EvalErr) {}

/// C06 at the operand-size limits: every request of the `op_limits` stream, turned into the program
/// `(op (q . a0) (q . a1) …)`, evaluated with and without MALACHITE (the other flags as generated)
pub fn oracle_malachite_limits(rng: &mut Rng, n: usize, tier: &str) -> OracleReport {
    oracle_limits("malachite", rng, n, tier)
}

/// C30 at the operand-size limits: the same programs under ChiaDialect and RuntimeDialect
pub fn oracle_runtime_limits(rng: &mut Rng, n: usize, tier: &str) -> OracleReport {
    oracle_limits("runtime", rng, n, tier)
}

/// C07 at the operand-size limits: whatever succeeds with LIMITS / DISABLE_OP succeeds identically without
pub fn oracle_restrict_limits(rng: &mut Rng, n: usize, tier: &str) -> OracleReport {
    oracle_limits("restrict", rng, n, tier)
}

fn oracle_limits(kind: &str, rng: &mut Rng, n: usize, tier: &str) -> OracleReport {
    let mut rep = OracleReport::default();
    let lines = progs::generate_op_limits(rng, n, tier);
    for (i, l) in lines.iter().enumerate() {
        let w: Vec<&str> = l.split(' ').collect();
        let opcode: u8 = match w[2] { "op_div" => 19, "op_divmod" => 20, "op_mod" => 61, "op_modpow" => 60, _ => 18 };
        let flags = u32::from_str_radix(w[3], 16).unwrap();
        if kind != "restrict" && flags & MALACHITE != 0 {
            continue; // each argument list appears once per flag set; take the ones without the bit
        }
        if kind == "restrict" && flags & (LIMITS | DISABLE_OP) == 0 {
            continue;
        }
        let args = trees::from_hex(w[5]).unwrap();
        let mut items = vec![];
        let mut cur = &args;
        while let T::Pair(a, b) = cur {
            items.push(quote((**a).clone()));
            cur = b;
        }
        let prog = call(opcode, items);
        let env = atom(&[]);
        let (a, b) = if kind == "restrict" {
            (run_full("chia", flags, 0, &prog, &env, ""), run_full("chia", flags & !(LIMITS | DISABLE_OP), 0, &prog, &env, ""))
        } else if kind == "runtime" {
            let fl = flags & !(ENABLE_GC | DISABLE_OP);
            let fl = if i % 2 == 0 { fl } else { fl | MALACHITE };
            (run_full("chia", fl, 0, &prog, &env, ""), run_full("runtime", fl, 0, &prog, &env, ""))
        } else {
            (run_full("chia", flags, 0, &prog, &env, ""), run_full("chia", flags | MALACHITE, 0, &prog, &env, ""))
        };
        rep.evaluations += 1;
        rep.nontrivial += 1;
        rep.hit(match &a.res { Ok(_) => "ok", Err((k, _)) => k.as_str() });
        if i < 2 {
            rep.sample(desc(&prog, &env, flags));
        }
        let same = if kind == "restrict" {
            // the restricted run may fail; when it succeeds the unrestricted one must be identical
            a.res.is_err() || a == b
        } else if kind == "runtime" {
            match (&a.res, &b.res) {
                (Ok(x), Ok(y)) => x == y,
                (Err((k1, _)), Err((k2, _))) => k1 == k2,
                _ => false,
            }
        } else {
            a == b
        };
        if !same {
            rep.fail(&format!("{}_limits", kind), format!("{} first={:?} second={:?}", desc(&prog, &env, flags), a, b));
        }
    }
    if kind == "restrict" {
        // LIMITS also bounds the scalar of g1_multiply / g2_multiply (1024 bytes): valid points, scalars of
        // every length class, both cost models; a run that succeeds under LIMITS is identical without it
        let g1 = call(30, vec![quote(int(rng.range(1, 1000) as i128))]);
        let g2 = call(57, vec![quote(T::Atom(rng.bytes(5)))]);
        for (opcode, point) in [(50u8, &g1), (54u8, &g2)] {
            for len in [0usize, 1, 2, 5, 31, 32, 33, 255, 256, 1023, 1024, 1025, 2048] {
                for lead in [0x01u8, 0x7f, 0x80, 0x00] {
                    let mut scalar = rng.bytes(len);
                    if len > 0 {
                        scalar[0] = lead;
                    }
                    let prog = call(opcode, vec![point.clone(), quote(T::Atom(scalar))]);
                    let env = atom(&[]);
                    for base in [0u32, NEW_COST_MODEL, MALACHITE, clvmr::chia_dialect::MEMPOOL_MODE.bits()] {
                        let flags = base | LIMITS;
                        let a = run_full("chia", flags, 0, &prog, &env, "");
                        let b = run_full("chia", flags & !LIMITS, 0, &prog, &env, "");
                        rep.evaluations += 1;
                        rep.nontrivial += 1;
                        rep.hit(match &a.res { Ok(_) => "bls_ok", Err((k, _)) => k.as_str() });
                        if a.res.is_ok() && a != b {
                            rep.fail("restrict_limits", format!("{} first={:?} second={:?}", desc(&prog, &env, flags), a, b));
                        }
                    }
                }
            }
        }
    }
    rep
}

/// C23 stream: the Chialisp tree-hash program and the native operator on the same random trees, both
/// cost models, unlimited / exact / one-short budgets
pub fn generate_run_sha256tree(rng: &mut Rng, n: usize) -> Vec<String> {
    let prog = trees::from_hex(SHA256TREE_PROG).unwrap();
    let mut out = vec![];
    let mut id = 0;
    for i in 0..n {
        let t = match i {
            0 => T::nil(),
            1 => T::Atom(vec![1]),
            2 => T::pair(T::nil(), T::nil()),
            3 => T::Atom(rng.bytes(63)),
            4 => T::Atom(rng.bytes(64)),
            5 => T::pair(T::Atom(rng.bytes(1300)), T::Atom(rng.bytes(130))),
            6 => T::Atom(rng.bytes(4096)),
            _ => trees::random_tree(rng, 12, 60),
        };
        for flags in [0x400u32, 0x400 | NEW_COST_MODEL, 0, 0x400 | LIMITS, 0x400 | DISABLE_OP | LIMITS] {
            let native = call(63, vec![quote(t.clone())]);
            for (p, e) in [(&prog, &t), (&native, &T::nil())] {
                let o = run_full("chia", flags, 0, p, e, "");
                let mut budgets = vec![0u64];
                if let Ok((c, _)) = o.res {
                    budgets.push(c);
                    budgets.push(c - 1);
                }
                for b in budgets {
                    out.push(format!("RUN t{} chia {:x} {} - {} {}", id, flags, b, trees::to_hex(p), trees::to_hex(e)));
                    id += 1;
                }
            }
        }
    }
    out
}

/// C11 at operator level: every request of the `op_fastpath` stream (byte-boundary values, padded
/// operands) as a program, under F and F | NEW_COST_MODEL: when both succeed the values are equal
pub fn oracle_costmodel_ops(rng: &mut Rng, n: usize, tier: &str) -> OracleReport {
    let mut rep = OracleReport::default();
    let code = |name: &str| -> Option<u8> {
        Some(match name {
            "op_add" => 16, "op_subtract" => 17, "op_multiply" => 18, "op_div" => 19, "op_divmod" => 20, "op_gr" => 21, "op_ash" => 22,
            "op_lsh" => 23, "op_logand" => 24, "op_logior" => 25, "op_logxor" => 26, "op_lognot" => 27, "op_mod" => 61, "op_modpow" => 60,
            _ => return None,
        })
    };
    let mut lines = progs::generate_op_fastpath(rng, n, tier);
    lines.extend(progs::generate_op_limits(rng, 0, tier).into_iter().step_by(7));
    for (i, l) in lines.iter().enumerate() {
        let w: Vec<&str> = l.split(' ').collect();
        let Some(opcode) = code(w[2]) else { continue };
        let flags = u32::from_str_radix(w[3], 16).unwrap() & !NEW_COST_MODEL;
        let args = trees::from_hex(w[5]).unwrap();
        let mut items = vec![];
        let mut cur = &args;
        let tags: Vec<char> = w.get(6).map(|t| t.chars().collect()).unwrap_or_default();
        let mut all_atoms = true;
        while let T::Pair(a, b) = cur {
            all_atoms &= matches!(**a, T::Atom(_));
            items.push((**a).clone());
            cur = b;
        }
        // the request's representation tags, rebuilt inside the program: 'E' = substring view of a longer
        // heap atom (also the empty one), 'H' = concat result
        let items: Vec<T> = items
            .into_iter()
            .enumerate()
            .map(|(k, it)| {
                let tag = if all_atoms { tags.get(k).copied().unwrap_or('-') } else { '-' };
                match (&it, tag) {
                    (T::Atom(b), 'E') => {
                        let mut long = vec![0xbb, 0xcc, 0xdd];
                        long.extend_from_slice(b);
                        long.extend_from_slice(&[0xaa; 7]);
                        call(12, vec![quote(atom(&long)), quote(int(3)), quote(int(3 + b.len() as i128))])
                    }
                    (T::Atom(b), 'H') if b.len() >= 2 => call(14, vec![quote(atom(&b[..b.len() / 2])), quote(atom(&b[b.len() / 2..]))]),
                    _ => quote(it),
                }
            })
            .collect();
        let prog = call(opcode, items);
        let env = T::nil();
        let old = run_full("chia", flags, 0, &prog, &env, "");
        let new = run_full("chia", flags | NEW_COST_MODEL, 0, &prog, &env, "");
        rep.evaluations += 1;
        rep.nontrivial += 1;
        rep.hit(match &old.res { Ok(_) => "ok", Err((k, _)) => k.as_str() });
        if i < 2 {
            rep.sample(desc(&prog, &env, flags));
        }
        if let (Ok((_, v1)), Ok((_, v2))) = (&old.res, &new.res) {
            if v1 != v2 {
                rep.fail("costmodel_ops", format!("{} old={} new={}", desc(&prog, &env, flags), v1, v2));
            }
        }
    }
    rep
}

/// C02 at operator level (as one-call programs): every request of the `op_fastpath` / `op_limits` streams
/// plus calls with 0 and 1 padded operands of the variadic operators: a run that costs C under an
/// unlimited budget succeeds identically under budget C and, under the old cost model, fails with
/// CostExceeded under C - 1 (an operator's early checks must never be stricter than what it charges)
pub fn oracle_budget_ops(rng: &mut Rng, n: usize, tier: &str) -> OracleReport {
    let mut rep = OracleReport::default();
    let code = |name: &str| -> Option<u8> {
        Some(match name {
            "op_add" => 16, "op_subtract" => 17, "op_multiply" => 18, "op_div" => 19, "op_divmod" => 20, "op_gr" => 21, "op_ash" => 22,
            "op_lsh" => 23, "op_logand" => 24, "op_logior" => 25, "op_logxor" => 26, "op_lognot" => 27, "op_mod" => 61, "op_modpow" => 60,
            "op_sha256" => 11, "op_concat" => 14, "op_any" => 33, "op_all" => 34,
            _ => return None,
        })
    };
    let mut lines: Vec<String> = progs::generate_op_fastpath(rng, n, tier).into_iter().step_by(3).collect();
    lines.extend(progs::generate_op_limits(rng, 0, tier).into_iter().step_by(11));
    // 0 / 1 / 2 operands with redundant padding (long atoms, small values)
    for name in ["op_add", "op_subtract", "op_multiply", "op_logand", "op_logior", "op_logxor", "op_sha256", "op_concat", "op_any", "op_all"] {
        for flags in [0u32, 0x2000, 0x20] {
            for pad in [0usize, 1, 9, 99, 300] {
                for tail in [vec![0x01u8], vec![0x00], vec![0x7f], vec![]] {
                    for fill in [0x00u8, 0xff] {
                        let mut b = vec![fill; pad];
                        b.extend_from_slice(&tail);
                        let one = T::list(vec![T::Atom(b.clone())]);
                        lines.push(format!("OP x {} {:x} 0 {}", name, flags, trees::to_hex(&one)));
                        let two = T::list(vec![T::Atom(b.clone()), T::Atom(vec![2])]);
                        lines.push(format!("OP x {} {:x} 0 {}", name, flags, trees::to_hex(&two)));
                    }
                }
            }
            lines.push(format!("OP x {} {:x} 0 80", name, flags));
        }
    }
    for (i, l) in lines.iter().enumerate() {
        let w: Vec<&str> = l.split(' ').collect();
        let Some(opcode) = code(w[2]) else { continue };
        let flags = u32::from_str_radix(w[3], 16).unwrap() & !NO_UNKNOWN_OPS;
        let args = trees::from_hex(w[5]).unwrap();
        let mut items = vec![];
        let mut cur = &args;
        while let T::Pair(a, b) = cur {
            items.push(quote((**a).clone()));
            cur = b;
        }
        let prog = call(opcode, items);
        let env = T::nil();
        let base = run_full("chia", flags, 0, &prog, &env, "");
        rep.evaluations += 1;
        rep.hit(match &base.res { Ok(_) => "ok", Err((k, _)) => k.as_str() });
        let Ok((cost, _)) = &base.res else { continue };
        let cost = *cost;
        rep.nontrivial += 1;
        if i < 2 {
            rep.sample(desc(&prog, &env, flags));
        }
        let exact = run_full("chia", flags, cost, &prog, &env, "");
        if exact.res != base.res {
            rep.fail("budget_ops", format!("{} costs {} but under budget {} -> {:?}", desc(&prog, &env, flags), cost, cost, exact.res));
        }
        if flags & NEW_COST_MODEL == 0 && cost > 0 {
            let short = run_full("chia", flags, cost - 1, &prog, &env, "");
            if !matches!(&short.res, Err((k, _)) if k == "CostExceeded") {
                rep.fail("budget_ops", format!("{} costs {} but under budget {} -> {:?}", desc(&prog, &env, flags), cost, cost - 1, short.res));
            }
        }
    }
    rep
}
