pub mod alloctrack;
pub mod rng;
pub mod util;
pub mod varint;
pub mod crypto;
pub mod treehash;
pub mod pywheel;
pub mod alloc;
pub mod trees;
pub mod classic;
pub mod serde2026;
pub mod backref;
pub mod run;
pub mod progs;
pub mod refclvm;
pub mod interp_oracles;
pub mod costs;
pub mod incremental;

/// One request line `<KIND> <id> <args…>` ↦ reply body (without the id).
pub fn run_request(kind: &str, args: &[&str]) -> String {
    let r = std::panic::catch_unwind(|| match kind {
        "VARINT" => varint::run(args),
        "CRYPTO" => crypto::run(args),
        "HASH" => treehash::run_hash(args),
        "THASH" => treehash::run_thash(args),
        "THASHDAG" => treehash::run_thashdag(args),
        "ALLOC" => alloc::run(args),
        "SER" if args[0] == "classic" => classic::run_ser(args),
        "DE" if ["classic", "lent", "canon"].contains(&args[0]) => classic::run_de(args),
        "SER" if args[0] == "br" => backref::run_ser(args),
        "DE" if ["br", "brold", "len"].contains(&args[0]) => backref::run_de(args),
        "PATH" => backref::run_path(args),
        "INC" => incremental::run(args),
        "SER" if args[0].starts_with("2026:") => serde2026::run_ser(args),
        "DE" if ["2026", "len2026"].contains(&args[0]) => serde2026::run_de(args),
        "INTERN" => serde2026::run_intern(args),
        "LEN" => classic::run_len(args),
        "PFX" => classic::run_pfx(args),
        "RUN" => run::run_run(args),
        "OP" => run::run_op(args),
        "UNK" => run::run_unknown(args),
        "REF" => refclvm::run(args),
        "OPZ" => costs::run_opz(args),
        "UNKZ" => costs::run_unkz(args),
        k if k.starts_with("PY") => pywheel::run(k, args),
        _ => "bad-request".to_string(),
    });
    match r {
        Ok(s) => s,
        Err(_) => "panic".to_string(),
    }
}

pub fn gen_stream(name: &str, seed: u64, n: usize, tier: &str) -> Vec<String> {
    let mut rng = rng::Rng::new(seed ^ util::fnv(name));
    match name {
        "varint" => varint::generate(&mut rng, n, tier),
        "crypto" | "crypto_pairing" => crypto::generate(name, &mut rng, n, tier),
        "hash" | "thash" | "thash_stream" => treehash::generate(name, &mut rng, n, tier),
        "alloc" | "alloc_limits" | "alloc_small" | "alloc_sub2" | "alloc_ints" => alloc::generate(name, &mut rng, n, tier),
        "classic" => classic::generate(&mut rng, n, tier),
        "incremental" => incremental::generate(&mut rng, n, tier),
        "serde2026" | "intern" => serde2026::generate(name, &mut rng, n, tier),
        s if s.starts_with("backref_") => backref::generate(s, &mut rng, n, tier),
        "run" => progs::generate_run(&mut rng, n, tier, &["chia"], "any"),
        "run_runtime" => progs::generate_run(&mut rng, n, tier, &["runtime"], "any"),
        "run_gc" => progs::generate_run_gc(&mut rng, n, tier),
        "paths" => progs::generate_paths(&mut rng, n, tier),
        "run_secp4" => (0..n)
            .map(|i| {
                let (p, e) = interp_oracles::secp4_program(&mut rng);
                let flags = if i % 7 == 3 { progs::random_flags(&mut rng) } else { progs::random_flags(&mut rng) & !0x2 };
                format!("RUN s{} chia {:x} 0 - {} {}", i, flags, trees::to_hex(&p), trees::to_hex(&e))
            })
            .collect(),
        "run_sha256tree" => interp_oracles::generate_run_sha256tree(&mut rng, n),
        // C01: the bare-path programs of the `paths` stream as reference requests (default flags only)
        "ref_paths" => progs::generate_paths(&mut rng, n, tier)
            .iter()
            .filter_map(|l| {
                let w: Vec<&str> = l.split(' ').collect();
                if w.len() == 8 && w[2] == "chia" && w[3] == "0" && w[5] == "-" { Some(format!("REF f{} {} {} {}", w[1], w[4], w[6], w[7])) } else { None }
            })
            .collect(),
        "run_softfork_args" => progs::generate_run_softfork_args(&mut rng, n, tier),
        "op_fastpath" => progs::generate_op_fastpath(&mut rng, n, tier),
        "run_small_values" => progs::generate_run_small_values(&mut rng, n, tier),
        "op_limits" => progs::generate_op_limits(&mut rng, n, tier),
        "run_default" => progs::generate_run(&mut rng, n, tier, &["chia"], "default"),
        "op" => progs::generate_op(&mut rng, n, tier, None),
        "unknown" => progs::generate_unknown(&mut rng, n, tier),
        "ref" => refclvm::generate(&mut rng, n, tier),
        "costs_op" | "costs_unknown" => costs::generate(name, &mut rng, n, tier),
        s if s.starts_with("py") => pywheel::generate(s, &mut rng, n, tier),
        _ => panic!("unknown stream {name}"),
    }
}

pub fn run_oracle(name: &str, seed: u64, n: usize, tier: &str) -> util::OracleReport {
    let mut rng = rng::Rng::new(seed ^ util::fnv(name) ^ 0x5eed);
    match name {
        "varint" => varint::oracle(&mut rng, n, tier),
        s if s.starts_with("crypto_") => crypto::oracle(s, &mut rng, n, tier),
        "thash_agree" | "hash_vectors" => treehash::oracle(name, &mut rng, n, tier),
        "alloc_accounting" | "alloc_limits" | "alloc_nodes" | "alloc_atom_eq" => alloc::oracle(name, &mut rng, n, tier),
        "classic" => classic::oracle(&mut rng, n, tier),
        "inc_c19" => incremental::oracle(&mut rng, n, tier),
        "serde2026_roundtrip" | "serde2026_blobs" | "intern" => serde2026::oracle(name, &mut rng, n, tier),
        s if s.starts_with("backref_") => backref::oracle(s, &mut rng, n, tier),
        "costs_vectors" | "unknown_rule" | "costs_doc" => costs::oracle(name, &mut rng, n, tier),
        "classic_big" => classic::oracle_big(&mut rng, n, tier),
        "ref_vectors" | "ref_findings" => refclvm::oracle(name, &mut rng, n, tier),
        "classic_decoders" => classic::oracle_decoders(&mut rng, n, tier),
        "interp_malachite_limits" => interp_oracles::oracle_malachite_limits(&mut rng, n, tier),
        "interp_runtime_limits" => interp_oracles::oracle_runtime_limits(&mut rng, n, tier),
        "interp_restrict_limits" => interp_oracles::oracle_restrict_limits(&mut rng, n, tier),
        "interp_costmodel_ops" => interp_oracles::oracle_costmodel_ops(&mut rng, n, tier),
        "interp_budget_ops" => interp_oracles::oracle_budget_ops(&mut rng, n, tier),
        "interp_guards" => interp_oracles::oracle_guards(&mut rng, n, tier),
        "interp_sha256tree" => interp_oracles::oracle_sha256tree(&mut rng, n, tier),
        s if s.starts_with("interp_") => interp_oracles::oracle(&s[7..], &mut rng, n, tier),
        _ => panic!("unknown oracle {name}"),
    }
}
