pub mod rng;
pub mod util;
pub mod varint;

/// One request line `<KIND> <id> <args…>` ↦ reply body (without the id).
pub fn run_request(kind: &str, args: &[&str]) -> String {
    let r = std::panic::catch_unwind(|| match kind {
        "VARINT" => varint::run(args),
        _ => "bad-request".to_string(),
    });
    match r {
        Ok(s) => s,
        Err(_) => "panic".to_string(),
    }
}

pub fn gen_stream(name: &str, seed: u64, n: usize, tier: &str) -> Vec<String> {
    let mut rng = rng::Rng::new(seed ^ util::fnv(name));
    match name {
        "varint" => varint::generate(&mut rng, n, tier),
        _ => panic!("unknown stream {name}"),
    }
}

pub fn run_oracle(name: &str, seed: u64, n: usize, tier: &str) -> util::OracleReport {
    let mut rng = rng::Rng::new(seed ^ util::fnv(name) ^ 0x5eed);
    match name {
        "varint" => varint::oracle(&mut rng, n, tier),
        _ => panic!("unknown oracle {name}"),
    }
}
