//! C32: cryptographic operators (sha256, keccak256, coinid, BLS12-381 G1/G2, pairing, secp).
//!
//! `CRYPTO <id> <op> <flags:hex8> <maxcost> <args-tree-hex> <oracle> <mode>`
//!   oracle  real hash-to-curve output (g1_map/g2_map) or real pairing/verify verdict `1`/`0`,
//!           computed with chia_bls directly at generation time; `-` when not computable.
//!           Diagnostic only: the Lean model computes pairing and hash-to-curve itself and ignores it.
//!   mode    f = fresh allocator; w = the operator is run twice in the same allocator and the
//!           second outcome is reported; p = every 48/96-byte atom argument is first offered to
//!           validate_g1/validate_g2 and valid points are re-created with new_g1/new_g2
//!           (fills the validated-points cache, which must not be observable)
//! reply: `ok <cost> <result-tree-hex> <fresh:0|1>` | `err <Kind>`
use crate::rng::Rng;
use crate::util::*;
use chia_bls::{G1Element, G2Element, SecretKey, aggregate_pairing, aggregate_verify, hash_to_g1_with_dst, hash_to_g2_with_dst, sign};
use clvmr::allocator::{Allocator, NodePtr, SExp};
use clvmr::chia_dialect::ClvmFlags;
use clvmr::reduction::{Reduction, Response};
use clvmr::serde::{node_from_bytes, node_to_bytes};
use k256::ecdsa::signature::hazmat::PrehashSigner;
use num_bigint::{BigInt, BigUint, Sign};

type Opf = fn(&mut Allocator, NodePtr, u64, ClvmFlags) -> Response;

pub const OPS: [&str; 18] = [
    "sha256", "keccak256", "coinid", "point_add", "pubkey_for_exp", "g1_subtract", "g1_multiply", "g1_negate", "g2_add",
    "g2_subtract", "g2_multiply", "g2_negate", "g1_map", "g2_map", "bls_pairing_identity", "bls_verify", "secp256k1_verify",
    "secp256r1_verify",
];

fn op_by_name(name: &str) -> Option<Opf> {
    use clvmr::bls_ops::*;
    use clvmr::keccak256_ops::op_keccak256;
    use clvmr::more_ops::{op_coinid, op_point_add, op_pubkey_for_exp, op_sha256};
    use clvmr::secp_ops::{op_secp256k1_verify, op_secp256r1_verify};
    Some(match name {
        "sha256" => op_sha256 as Opf,
        "keccak256" => op_keccak256,
        "coinid" => op_coinid,
        "point_add" => op_point_add,
        "pubkey_for_exp" => op_pubkey_for_exp,
        "g1_subtract" => op_bls_g1_subtract,
        "g1_multiply" => op_bls_g1_multiply,
        "g1_negate" => op_bls_g1_negate,
        "g2_add" => op_bls_g2_add,
        "g2_subtract" => op_bls_g2_subtract,
        "g2_multiply" => op_bls_g2_multiply,
        "g2_negate" => op_bls_g2_negate,
        "g1_map" => op_bls_map_to_g1,
        "g2_map" => op_bls_map_to_g2,
        "bls_pairing_identity" => op_bls_pairing_identity,
        "bls_verify" => op_bls_verify,
        "secp256k1_verify" => op_secp256k1_verify,
        "secp256r1_verify" => op_secp256r1_verify,
        _ => return None,
    })
}

const NEW_COST: u32 = 0x2000;
const RELAXED: u32 = 0x0008;
const LIMITS: u32 = 0x0040;
const BIG: u64 = 10_000_000_000;

// ------------------------------------------------------------------ trees

#[derive(Clone, Debug)]
pub enum T {
    A(Vec<u8>),
    P(Box<T>, Box<T>),
}

impl T {
    fn list(items: Vec<T>) -> T {
        T::list_term(items, T::A(vec![]))
    }
    fn list_term(items: Vec<T>, term: T) -> T {
        let mut r = term;
        for i in items.into_iter().rev() {
            r = T::P(Box::new(i), Box::new(r));
        }
        r
    }
    fn atoms(items: &[Vec<u8>]) -> T {
        T::list(items.iter().map(|b| T::A(b.clone())).collect())
    }
    fn build(&self, a: &mut Allocator) -> NodePtr {
        match self {
            T::A(b) => a.new_atom(b).unwrap(),
            T::P(l, r) => {
                let l = l.build(a);
                let r = r.build(a);
                a.new_pair(l, r).unwrap()
            }
        }
    }
    fn hex(&self) -> String {
        let mut a = Allocator::new();
        let n = self.build(&mut a);
        hex::encode(node_to_bytes(&a, n).unwrap())
    }
    /// the items of the right spine and the terminator
    fn spine(&self) -> (Vec<&T>, &T) {
        let mut v = Vec::new();
        let mut t = self;
        while let T::P(l, r) = t {
            v.push(&**l);
            t = r;
        }
        (v, t)
    }
}

// ------------------------------------------------------------------ running the real operator

fn prime_cache(a: &mut Allocator, n: NodePtr) {
    let mut st = vec![n];
    while let Some(x) = st.pop() {
        match a.sexp(x) {
            SExp::Pair(l, r) => {
                st.push(l);
                st.push(r);
            }
            SExp::Atom => {
                let b = a.atom(x).as_ref().to_vec();
                if let Ok(arr) = <[u8; 48]>::try_from(&b[..]) {
                    let _ = a.validate_g1(x, arr);
                    if let Ok(p) = G1Element::from_bytes(&arr) {
                        let _ = a.new_g1(p);
                    }
                } else if let Ok(arr) = <[u8; 96]>::try_from(&b[..]) {
                    let _ = a.validate_g2(x, arr);
                    if let Ok(p) = G2Element::from_bytes(&arr) {
                        let _ = a.new_g2(p);
                    }
                }
            }
        }
    }
}

/// `fresh` = the operator obtained its result from an allocation (atom count went up during the call)
fn fmt_response(a: &Allocator, r: Response, atoms_before: usize) -> String {
    match r {
        Ok(Reduction(cost, node)) => format!(
            "ok {} {} {}",
            cost,
            hex::encode(node_to_bytes(a, node).unwrap()),
            if a.atom_count() > atoms_before { 1 } else { 0 }
        ),
        Err(e) => fmt_err(&e),
    }
}

pub fn call(op: &str, flags: u32, max_cost: u64, tree_bytes: &[u8], mode: &str) -> String {
    let Some(f) = op_by_name(op) else { return "bad-request".into() };
    let mut a = Allocator::new();
    let Ok(args) = node_from_bytes(&mut a, tree_bytes) else { return "bad-request".into() };
    let flags = ClvmFlags::from_bits_retain(flags);
    match mode {
        "w" => {
            let _ = f(&mut a, args, max_cost, flags);
        }
        "p" => prime_cache(&mut a, args),
        _ => {}
    }
    let before = a.atom_count();
    let r = f(&mut a, args, max_cost, flags);
    fmt_response(&a, r, before)
}

pub fn run(args: &[&str]) -> String {
    if args.len() != 6 {
        return "bad-request".into();
    }
    let (Ok(flags), Ok(max_cost), Some(tree)) = (u32::from_str_radix(args[1], 16), args[2].parse::<u64>(), parse_hex(args[3])) else {
        return "bad-request".into();
    };
    call(args[0], flags, max_cost, &tree, args[5])
}

// ------------------------------------------------------------------ oracle fields (chia_bls directly)

fn g1_of(t: &T) -> Option<G1Element> {
    match t {
        T::A(b) => G1Element::from_bytes(&<[u8; 48]>::try_from(&b[..]).ok()?).ok(),
        _ => None,
    }
}
fn g2_of(t: &T) -> Option<G2Element> {
    match t {
        T::A(b) => G2Element::from_bytes(&<[u8; 96]>::try_from(&b[..]).ok()?).ok(),
        _ => None,
    }
}

const DST_G1: &[u8] = b"BLS_SIG_BLS12381G1_XMD:SHA-256_SSWU_RO_AUG_";
const DST_G2: &[u8] = b"BLS_SIG_BLS12381G2_XMD:SHA-256_SSWU_RO_AUG_";

fn oracle_field(op: &str, args: &T) -> String {
    let (items, _term) = args.spine();
    let r: Option<String> = (|| match op {
        "g1_map" | "g2_map" => {
            let msg = match items.first()? {
                T::A(b) => b.clone(),
                _ => return None,
            };
            let dst = match items.get(1) {
                Some(T::A(b)) => b.clone(),
                Some(_) => return None,
                None => (if op == "g1_map" { DST_G1 } else { DST_G2 }).to_vec(),
            };
            Some(if op == "g1_map" {
                hex::encode(hash_to_g1_with_dst(&msg, &dst).to_bytes())
            } else {
                hex::encode(hash_to_g2_with_dst(&msg, &dst).to_bytes())
            })
        }
        "bls_pairing_identity" => {
            if items.len() % 2 != 0 {
                return None;
            }
            let mut v = Vec::new();
            for c in items.chunks(2) {
                v.push((g1_of(c[0])?, g2_of(c[1])?));
            }
            Some(if aggregate_pairing(v) { "1" } else { "0" }.to_string())
        }
        "bls_verify" => {
            let sig = g2_of(items.first()?)?;
            if items.len() % 2 != 1 {
                return None;
            }
            let mut v = Vec::new();
            for c in items[1..].chunks(2) {
                let msg = match c[1] {
                    T::A(b) => b.clone(),
                    _ => return None,
                };
                v.push((g1_of(c[0])?, msg));
            }
            Some(if aggregate_verify(&sig, v) { "1" } else { "0" }.to_string())
        }
        _ => None,
    })();
    r.unwrap_or_else(|| "-".to_string())
}

// ------------------------------------------------------------------ vector files (op-tests/*.txt)

fn repo_dir() -> String {
    std::env::var("VERIF_REPO").unwrap_or_else(|_| "/repo".to_string())
}

fn number_atom(v: &BigInt) -> Vec<u8> {
    // Allocator::new_number's canonical encoding
    if v.sign() == Sign::NoSign {
        return vec![];
    }
    let mut b = v.to_signed_bytes_be();
    while b.len() > 1 && ((b[0] == 0 && b[1] & 0x80 == 0) || (b[0] == 0xff && b[1] & 0x80 != 0)) {
        b.remove(0);
    }
    b
}

fn parse_atom(v: &str) -> Option<T> {
    if v == "0" {
        return Some(T::A(vec![]));
    }
    if let Some(h) = v.strip_prefix("0x") {
        return Some(T::A(hex::decode(h).ok()?));
    }
    if v.starts_with('"') {
        return Some(T::A(v.trim_matches('"').as_bytes().to_vec()));
    }
    if let Ok(n) = v.parse::<BigInt>() {
        return Some(T::A(number_atom(&n)));
    }
    None
}

fn pop_token(s: &str) -> (&str, &str) {
    let s = s.trim();
    if let Some(stripped) = s.strip_prefix('"') {
        let q = stripped.find('"').expect("mismatching quote");
        let (a, b) = s.split_at(q + 2);
        (a.trim(), b.trim())
    } else if s.starts_with('(') || s.starts_with(')') {
        let (a, b) = s.split_at(1);
        (a, b.trim())
    } else {
        let pos = match (s.find(' '), s.find(')')) {
            (Some(a), Some(b)) => a.min(b),
            (Some(a), None) => a,
            (None, Some(b)) => b,
            (None, None) => s.len(),
        };
        let (a, b) = s.split_at(pos);
        (a.trim(), b.trim())
    }
}

fn parse_list(v: &str) -> Option<(T, &str)> {
    let (first, rest) = pop_token(v.trim());
    if first.is_empty() || first == ")" {
        return Some((T::A(vec![]), rest));
    }
    if first == "(" {
        let (head, r) = parse_list(rest)?;
        let (tail, r) = parse_list(r)?;
        Some((T::P(Box::new(head), Box::new(tail)), r))
    } else if first == "." {
        let (node, r) = parse_exp(rest)?;
        let (end, r) = pop_token(r);
        if end != ")" {
            return None;
        }
        Some((node, r))
    } else {
        let head = parse_atom(first)?;
        let (tail, r) = parse_list(rest)?;
        Some((T::P(Box::new(head), Box::new(tail)), r))
    }
}

fn parse_exp(v: &str) -> Option<(T, &str)> {
    let (first, rest) = pop_token(v);
    if first == "(" { parse_list(rest) } else { Some((parse_atom(first)?, rest)) }
}

pub struct Vector {
    pub file: String,
    pub line: usize,
    pub op: String,
    pub flags: u32,
    pub args: T,
    /// None = FAIL
    pub expected: Option<(T, u64)>,
}

/// every vector of op-tests/*.txt that concerns one of this property's operators
pub fn load_vectors() -> Vec<Vector> {
    let files: [(&str, u32); 22] = [
        ("test-more-ops", 0), ("test-more-ops-v2", NEW_COST), ("test-bls-ops", 0), ("test-blspy-g1", 0), ("test-blspy-g1-v2", NEW_COST),
        ("test-blspy-g2", 0), ("test-blspy-g2-v2", NEW_COST), ("test-blspy-hash", 0), ("test-blspy-hash-v2", NEW_COST),
        ("test-blspy-pairing", 0), ("test-blspy-pairing-v2", NEW_COST), ("test-blspy-verify", 0), ("test-blspy-verify-v2", NEW_COST),
        ("test-bls-zk", 0), ("test-bls-zk-v2", NEW_COST), ("test-secp-verify", 0), ("test-secp256k1", 0), ("test-secp256r1", 0),
        ("test-sha256", 0), ("test-sha256-v2", NEW_COST), ("test-keccak256", 0), ("test-keccak256-v2", NEW_COST),
    ];
    let extra: [(&str, u32); 2] = [("test-keccak256-generated", 0), ("test-keccak256-generated-v2", NEW_COST)];
    let mut out = Vec::new();
    for (f, fl) in files.iter().chain(extra.iter()) {
        let path = format!("{}/op-tests/{}.txt", repo_dir(), f);
        let Ok(text) = std::fs::read_to_string(&path) else { continue };
        for (ln, t) in text.split('\n').enumerate() {
            let t = t.trim();
            if t.is_empty() || t.starts_with(';') {
                continue;
            }
            let Some((name, t)) = t.split_once(' ') else { continue };
            let (op, extra_flags) = match name {
                "g1_add" => ("point_add", 0),
                "g1_negate" => ("g1_negate", RELAXED),
                "g2_negate" => ("g2_negate", RELAXED),
                "g1_negate_strict" => ("g1_negate", 0),
                "g2_negate_strict" => ("g2_negate", 0),
                "secp256k1_verify_64" => ("secp256k1_verify", 0),
                "secp256r1_verify_65" => ("secp256r1_verify", 0),
                n if OPS.contains(&n) => (n, 0),
                _ => continue,
            };
            let Some((args, outp)) = t.split_once("=>") else { continue };
            let (exp, cost) = match outp.split_once('|') {
                Some((e, c)) => (e.trim(), c.trim()),
                None => (outp.trim(), "0"),
            };
            let Some((args, rest)) = parse_list(args.trim()) else { continue };
            if !rest.is_empty() {
                continue;
            }
            let expected = if exp == "FAIL" {
                None
            } else {
                let Some((e, _)) = parse_exp(exp) else { continue };
                Some((e, cost.parse().unwrap_or(0)))
            };
            out.push(Vector { file: f.to_string(), line: ln + 1, op: op.to_string(), flags: fl | extra_flags, args, expected });
        }
    }
    out
}

// ------------------------------------------------------------------ material for the generators

fn group_order() -> BigUint {
    BigUint::parse_bytes(b"73eda753299d7d483339d80809a1d80553bda402fffe5bfeffffffff00000001", 16).unwrap()
}
fn field_p() -> BigUint {
    BigUint::parse_bytes(b"1a0111ea397fe69a4b1ba7b6434bacd764774b84f38512bf6730d2a0f6b0f6241eabfffeb153ffffb9feffffffffaaab", 16).unwrap()
}

fn rand_scalar_bytes(rng: &mut Rng) -> Vec<u8> {
    let mut b = rng.bytes(32);
    b[0] &= 0x3f;
    b
}

fn g1_rand(rng: &mut Rng) -> G1Element {
    match rng.below(12) {
        0 => G1Element::default(),
        1 => G1Element::generator(),
        2 => {
            let mut g = G1Element::generator();
            g.negate();
            g
        }
        3 => G1Element::from_integer(&[rng.below(20) as u8 + 2]),
        _ => G1Element::from_integer(&rand_scalar_bytes(rng)),
    }
}

fn g2_rand(rng: &mut Rng) -> G2Element {
    let mut g = G2Element::generator();
    match rng.below(12) {
        0 => G2Element::default(),
        1 => g,
        2 => {
            g.negate();
            g
        }
        3 => {
            g.scalar_multiply(&[rng.below(20) as u8 + 2]);
            g
        }
        4 => hash_to_g2_with_dst(&rng.bytes(8), DST_G2),
        _ => {
            g.scalar_multiply(&rand_scalar_bytes(rng));
            g
        }
    }
}

fn be_fixed(v: &BigUint, len: usize) -> Vec<u8> {
    let b = v.to_bytes_be();
    let mut out = vec![0u8; len.saturating_sub(b.len())];
    out.extend_from_slice(&b[b.len().saturating_sub(len)..]);
    out
}

/// a 48-byte string that is (mostly) *not* a valid G1 encoding
fn g1_invalid(rng: &mut Rng) -> Vec<u8> {
    let good = G1Element::from_integer(&rand_scalar_bytes(rng)).to_bytes().to_vec();
    let p = field_p();
    match rng.below(16) {
        0 => good[..47].to_vec(),
        1 => {
            let mut v = good.clone();
            v.push(rng.next() as u8);
            v
        }
        2 => vec![],
        3 => { let n_ = (rng.below(100)) as usize; rng.bytes(n_) },
        4 => {
            // compressed bit cleared
            let mut v = good.clone();
            v[0] &= 0x7f;
            v
        }
        5 => {
            // infinity bit set on a finite point
            let mut v = good.clone();
            v[0] |= 0x40;
            v
        }
        6 => {
            // infinity with the sign bit / junk
            let mut v = vec![0u8; 48];
            v[0] = *rng.pick(&[0xe0u8, 0xc1, 0xd0, 0x40, 0x00, 0xff]);
            v
        }
        7 => {
            let mut v = vec![0u8; 48];
            v[0] = 0xc0;
            v[1 + rng.below(47) as usize] = 1 + rng.below(255) as u8;
            v
        }
        8 => {
            // x = p + d
            let x = &p + BigUint::from(rng.below(3));
            let mut v = be_fixed(&x, 48);
            v[0] |= 0x80 | if rng.chance(1, 2) { 0x20 } else { 0 };
            v
        }
        9 => {
            // x = 2^381 - 1 - d
            let x = (BigUint::from(1u8) << 381) - BigUint::from(1 + rng.below(5));
            let mut v = be_fixed(&x, 48);
            v[0] |= 0x80 | if rng.chance(1, 2) { 0x20 } else { 0 };
            v
        }
        10 => {
            // chia_bls rule: finite point whose bytes 1.. are all zero
            let mut v = vec![0u8; 48];
            v[0] = 0x80 | (rng.below(64) as u8);
            v
        }
        11 | 12 => {
            // on the curve, not in the subgroup (cofactor ≈ 2^126: a random curve point is outside)
            loop {
                let mut v = rng.bytes(48);
                v[0] = (v[0] & 0x1f) % 0x1a | 0x80 | if rng.chance(1, 2) { 0x20 } else { 0 };
                let arr: [u8; 48] = v.clone().try_into().unwrap();
                if G1Element::from_bytes_unchecked(&arr).is_ok() {
                    return v;
                }
            }
        }
        13 => {
            // x small: includes the order-3 points (0, ±2)
            let mut v = vec![0u8; 48];
            v[47] = rng.below(6) as u8;
            v[0] = 0x80 | if rng.chance(1, 2) { 0x20 } else { 0 };
            v
        }
        _ => {
            // random x (about half are not on the curve)
            let mut v = rng.bytes(48);
            v[0] = (v[0] & 0x1f) % 0x1a | 0x80 | if rng.chance(1, 2) { 0x20 } else { 0 };
            v
        }
    }
}

fn g2_invalid(rng: &mut Rng) -> Vec<u8> {
    let mut g = G2Element::generator();
    g.scalar_multiply(&rand_scalar_bytes(rng));
    let good = g.to_bytes().to_vec();
    let p = field_p();
    match rng.below(16) {
        0 => good[..95].to_vec(),
        1 => {
            let mut v = good.clone();
            v.push(rng.next() as u8);
            v
        }
        2 => good[..48].to_vec(),
        3 => { let n_ = (rng.below(200)) as usize; rng.bytes(n_) },
        4 => {
            let mut v = good.clone();
            v[0] &= 0x7f;
            v
        }
        5 => {
            let mut v = good.clone();
            v[0] |= 0x40;
            v
        }
        6 => {
            let mut v = vec![0u8; 96];
            v[0] = *rng.pick(&[0xe0u8, 0xc1, 0xd0, 0x40, 0x00, 0xff]);
            v
        }
        7 => {
            let mut v = vec![0u8; 96];
            v[0] = 0xc0;
            v[1 + rng.below(95) as usize] = 1 + rng.below(255) as u8;
            v
        }
        8 => {
            // x.c1 = p + d
            let x = &p + BigUint::from(rng.below(3));
            let mut v = be_fixed(&x, 48);
            v[0] |= 0x80;
            v.extend_from_slice(&good[48..]);
            v
        }
        9 => {
            // x.c0 = p + d
            let x = &p + BigUint::from(rng.below(3));
            let mut v = good[..48].to_vec();
            v.extend_from_slice(&be_fixed(&x, 48));
            v
        }
        10 => {
            // x.c0 with high bits set (only c1 is masked)
            let mut v = good.clone();
            v[48] |= 0xe0;
            v
        }
        11 | 12 => loop {
            let mut v = rng.bytes(96);
            v[0] = (v[0] & 0x1f) % 0x1a | 0x80 | if rng.chance(1, 2) { 0x20 } else { 0 };
            v[48] = v[48] % 0x1a;
            let arr: [u8; 96] = v.clone().try_into().unwrap();
            if G2Element::from_bytes_unchecked(&arr).is_ok() {
                return v;
            }
        },
        13 => {
            // c1 = 0 (square root taken in the base field branch), small c0
            let mut v = vec![0u8; 96];
            v[95] = rng.below(12) as u8;
            v[0] = 0x80 | if rng.chance(1, 2) { 0x20 } else { 0 };
            v
        }
        _ => {
            let mut v = rng.bytes(96);
            v[0] = (v[0] & 0x1f) % 0x1a | 0x80 | if rng.chance(1, 2) { 0x20 } else { 0 };
            v[48] = v[48] % 0x1a;
            v
        }
    }
}

fn signed_bytes(v: &BigInt) -> Vec<u8> {
    number_atom(v)
}

/// scalar atoms: boundary values around the group order, signs, padding, huge
fn scalar_atom(rng: &mut Rng) -> Vec<u8> {
    let r = BigInt::from(group_order());
    let one = BigInt::from(1);
    let mut b = match rng.below(20) {
        0 => vec![],
        1 => vec![1],
        2 => vec![0xff],
        3 => signed_bytes(&(&r - &one)),
        4 => signed_bytes(&r),
        5 => signed_bytes(&(&r + &one)),
        6 => signed_bytes(&(-&r)),
        7 => signed_bytes(&(-&r - &one)),
        8 => signed_bytes(&(-&r + &one)),
        9 => signed_bytes(&(&r * BigInt::from(rng.below(1000)) + BigInt::from(rng.below(5)))),
        10 => signed_bytes(&(BigInt::from(1) << (rng.below(600) as usize))),
        11 => signed_bytes(&-(BigInt::from(1) << (rng.below(600) as usize))),
        12 => { let n_ = (1 + rng.below(4)) as usize; rng.bytes(n_) },
        13 => { let n_ = (rng.below(80)) as usize; rng.bytes(n_) },
        14 => {
            // around the LIMITS threshold of 1024 bytes
            let n = 1022 + rng.below(5) as usize;
            rng.bytes(n)
        }
        15 => {
            let n = 2000 + rng.below(6000) as usize;
            rng.bytes(n)
        }
        _ => rng.bytes(32),
    };
    if rng.chance(1, 8) {
        // redundant sign-extension padding
        let neg = b.first().map(|x| x & 0x80 != 0).unwrap_or(false);
        let pad = if neg { 0xff } else { 0 };
        for _ in 0..rng.below(4) + 1 {
            b.insert(0, pad);
        }
    }
    b
}

fn pick_flags(rng: &mut Rng) -> u32 {
    match rng.below(10) {
        0 | 1 | 2 => 0,
        3 | 4 => NEW_COST,
        5 => RELAXED,
        6 => LIMITS,
        7 => NEW_COST | LIMITS,
        8 => NEW_COST | RELAXED,
        _ => (rng.next() as u32) & 0x3fff,
    }
}

/// wrap an argument list in structural malformations now and then
fn mangle(rng: &mut Rng, items: Vec<T>) -> T {
    match rng.below(40) {
        0 => T::list_term(items, T::A(vec![rng.below(255) as u8 + 1])),
        1 => T::list_term(items, T::A(rng.bytes(48))),
        2 => {
            let mut items = items;
            if !items.is_empty() {
                let i = rng.below(items.len() as u64) as usize;
                items[i] = T::P(Box::new(items[i].clone()), Box::new(T::A(vec![])));
            }
            T::list(items)
        }
        3 => {
            let mut items = items;
            items.push(T::A({ let n_ = (rng.below(50)) as usize; rng.bytes(n_) }));
            T::list(items)
        }
        4 => {
            let mut items = items;
            items.pop();
            T::list(items)
        }
        _ => T::list(items),
    }
}

struct Case {
    op: &'static str,
    flags: u32,
    args: T,
}

fn case_hash(rng: &mut Rng, op: &'static str) -> Case {
    let items: Vec<T> = match rng.below(10) {
        0 => vec![T::A(vec![1]), T::A(if rng.chance(1, 2) { vec![rng.below(45) as u8] } else { { let n_ = (rng.below(3)) as usize; rng.bytes(n_) } })],
        1 => vec![T::A(vec![1]), T::A(vec![])],
        2 => vec![],
        3 => vec![T::A({ let n_ = (50 + rng.below(200)) as usize; rng.bytes(n_) })],
        4 => vec![T::A({ let n_ = (3000 + rng.below(3000)) as usize; rng.bytes(n_) })],
        _ => (0..rng.below(6)).map(|_| T::A({ let n_ = (rng.below(70)) as usize; rng.bytes(n_) })).collect(),
    };
    Case { op, flags: pick_flags(rng), args: mangle(rng, items) }
}

fn case_coinid(rng: &mut Rng) -> Case {
    let len = |rng: &mut Rng| if rng.chance(1, 12) { *rng.pick(&[0usize, 31, 33, 64]) } else { 32 };
    let (l1, l2) = (len(rng), len(rng));
    let amount: Vec<u8> = match rng.below(16) {
        0 => vec![],
        1 => vec![0],
        2 => vec![0, rng.below(128) as u8],
        3 => vec![0, 0x80 | rng.below(128) as u8],
        4 => vec![0x80 | rng.below(128) as u8],
        5 => {
            let mut v = vec![0];
            let mut t = rng.bytes(8);
            t[0] |= 0x80;
            v.extend(t);
            v
        }
        6 => {
            let mut v = rng.bytes(9);
            v[0] = 1 + rng.below(127) as u8;
            v
        }
        7 => {
            let mut v = vec![0];
            let mut t = rng.bytes(8);
            t[0] &= 0x7f;
            v.extend(t);
            v
        }
        8 => {
            let mut v = { let n_ = (10 + rng.below(4)) as usize; rng.bytes(n_) };
            v[0] &= 0x7f;
            v
        }
        9 => {
            let mut v = rng.bytes(8);
            v[0] = 0x7f;
            v
        }
        10 => vec![0, 0, 1],
        // every (length, first byte, second byte) class around the 8/9/10-byte boundary of the u64 amount
        11 | 12 => {
            let n_ = *rng.pick(&[8usize, 9, 10, 11, 16]);
            let mut v = rng.bytes(n_);
            v[0] = *rng.pick(&[0u8, 0, 0, 1, 0x7f, 0x80, 0xff]);
            v[1] = *rng.pick(&[0u8, 0x7f, 0x80, 0x80, 0xff]);
            v
        }
        _ => {
            let mut v = { let n_ = (1 + rng.below(8)) as usize; rng.bytes(n_) };
            v[0] = 1 + rng.below(127) as u8;
            v
        }
    };
    let items = vec![T::A(rng.bytes(l1)), T::A(rng.bytes(l2)), T::A(amount)];
    Case { op: "coinid", flags: pick_flags(rng), args: mangle(rng, items) }
}

fn g1_atom(rng: &mut Rng) -> T {
    if rng.chance(1, 10) { T::A(g1_invalid(rng)) } else { T::A(g1_rand(rng).to_bytes().to_vec()) }
}
fn g2_atom(rng: &mut Rng) -> T {
    if rng.chance(1, 10) { T::A(g2_invalid(rng)) } else { T::A(g2_rand(rng).to_bytes().to_vec()) }
}

fn case_g1(rng: &mut Rng, op: &'static str) -> Case {
    let items = match op {
        "point_add" | "g1_subtract" => {
            let n = rng.below(5);
            let mut v: Vec<T> = (0..n).map(|_| g1_atom(rng)).collect();
            if rng.chance(1, 10) && !v.is_empty() {
                // P and -P, P and P
                let mut q = g1_of(&v[0]).unwrap_or_default();
                if rng.chance(1, 2) {
                    q.negate();
                }
                v.push(T::A(q.to_bytes().to_vec()));
            }
            v
        }
        "g1_multiply" => vec![g1_atom(rng), T::A(scalar_atom(rng))],
        "g1_negate" => vec![if rng.chance(1, 3) { T::A(g1_invalid(rng)) } else { g1_atom(rng) }],
        "pubkey_for_exp" => vec![T::A(scalar_atom(rng))],
        _ => unreachable!(),
    };
    Case { op, flags: pick_flags(rng), args: mangle(rng, items) }
}

fn case_g2(rng: &mut Rng, op: &'static str) -> Case {
    let items = match op {
        "g2_add" | "g2_subtract" => {
            let n = rng.below(4);
            let mut v: Vec<T> = (0..n).map(|_| g2_atom(rng)).collect();
            if rng.chance(1, 10) && !v.is_empty() {
                let mut q = g2_of(&v[0]).unwrap_or_default();
                if rng.chance(1, 2) {
                    q.negate();
                }
                v.push(T::A(q.to_bytes().to_vec()));
            }
            v
        }
        "g2_multiply" => vec![g2_atom(rng), T::A(scalar_atom(rng))],
        "g2_negate" => vec![if rng.chance(1, 3) { T::A(g2_invalid(rng)) } else { g2_atom(rng) }],
        _ => unreachable!(),
    };
    Case { op, flags: pick_flags(rng), args: mangle(rng, items) }
}

fn case_map(rng: &mut Rng, op: &'static str) -> Case {
    let mut items = vec![T::A({ let n_ = (rng.below(100)) as usize; rng.bytes(n_) })];
    match rng.below(6) {
        0 => items.push(T::A({ let n_ = (rng.below(60)) as usize; rng.bytes(n_) })),
        1 => items.push(T::A((if op == "g1_map" { DST_G1 } else { DST_G2 }).to_vec())),
        2 => items.push(T::A(vec![])),
        3 => items.push(T::A({ let n_ = (256 + rng.below(300)) as usize; rng.bytes(n_) })),
        _ => {}
    }
    Case { op, flags: pick_flags(rng), args: mangle(rng, items) }
}

/// pairs whose mathematical pairing product is 1: cancelling couples (aP,Q),(−P,aQ) with pairs
/// containing points at infinity inserted at random positions (finding J lives here)
fn pairing_with_infinities(rng: &mut Rng) -> Vec<T> {
    let couples = *rng.pick(&[0u64, 0, 1, 1, 1, 2, 3, 4, 8]);
    let mut pairs: Vec<(Vec<u8>, Vec<u8>)> = Vec::new();
    for _ in 0..couples {
        let a = rand_scalar_bytes(rng);
        let mut p = G1Element::from_integer(&rand_scalar_bytes(rng));
        let q0 = {
            let mut g = G2Element::generator();
            g.scalar_multiply(&rand_scalar_bytes(rng));
            g
        };
        let mut ap = p.clone();
        ap.scalar_multiply(&a);
        let mut aq = q0.clone();
        aq.scalar_multiply(&a);
        p.negate();
        pairs.push((ap.to_bytes().to_vec(), q0.to_bytes().to_vec()));
        pairs.push((p.to_bytes().to_vec(), aq.to_bytes().to_vec()));
    }
    let inf1 = G1Element::default().to_bytes().to_vec();
    let inf2 = G2Element::default().to_bytes().to_vec();
    for _ in 0..1 + rng.below(3) {
        let e = match rng.below(3) {
            0 => (inf1.clone(), inf2.clone()),
            1 => (inf1.clone(), g2_rand(rng).to_bytes().to_vec()),
            _ => (g1_rand(rng).to_bytes().to_vec(), inf2.clone()),
        };
        let pos = rng.below(pairs.len() as u64 + 1) as usize;
        pairs.insert(pos, e);
    }
    pairs.into_iter().flat_map(|(a, b)| [T::A(a), T::A(b)]).collect()
}

fn case_pairing(rng: &mut Rng) -> Case {
    let mut items = Vec::new();
    match rng.below(10) {
        8 | 9 => items = pairing_with_infinities(rng),
        0 => {}
        1 | 2 | 3 => {
            // e(aP, Q) · e(-P, aQ) = 1, possibly perturbed
            let a = rand_scalar_bytes(rng);
            let p = g1_rand(rng);
            let q = g2_rand(rng);
            let mut ap = p.clone();
            ap.scalar_multiply(&a);
            let mut aq = q.clone();
            aq.scalar_multiply(&a);
            let mut np = p.clone();
            np.negate();
            if rng.chance(1, 4) {
                aq = g2_rand(rng);
            }
            items = vec![T::A(ap.to_bytes().to_vec()), T::A(q.to_bytes().to_vec()), T::A(np.to_bytes().to_vec()), T::A(aq.to_bytes().to_vec())];
            if rng.chance(1, 3) {
                items.push(T::A(G1Element::default().to_bytes().to_vec()));
                items.push(g2_atom(rng));
            }
        }
        _ => {
            for _ in 0..rng.below(3) + 1 {
                items.push(g1_atom(rng));
                items.push(g2_atom(rng));
            }
        }
    }
    Case { op: "bls_pairing_identity", flags: pick_flags(rng), args: mangle(rng, items) }
}

fn case_verify(rng: &mut Rng) -> Case {
    let n = rng.below(4) as usize;
    let mut sigs = Vec::new();
    let mut items = Vec::new();
    for _ in 0..n {
        let sk = SecretKey::from_seed(&rng.bytes(32));
        let msg = { let n_ = (rng.below(40)) as usize; rng.bytes(n_) };
        sigs.push(sign(&sk, &msg));
        items.push(T::A(sk.public_key().to_bytes().to_vec()));
        items.push(T::A(msg));
    }
    let mut agg = G2Element::default();
    for s in &sigs {
        agg.aggregate(s);
    }
    let mut sig = T::A(agg.to_bytes().to_vec());
    match rng.below(10) {
        0 => sig = g2_atom(rng),
        1 if n > 0 => {
            // wrong message
            items[1] = T::A(rng.bytes(5));
        }
        2 if n > 0 => items[0] = g1_atom(rng),
        3 if n > 0 => items[0] = T::A(G1Element::default().to_bytes().to_vec()),
        4 => sig = T::A(g2_invalid(rng)),
        _ => {}
    }
    let mut all = vec![sig];
    all.extend(items);
    Case { op: "bls_verify", flags: pick_flags(rng), args: mangle(rng, all) }
}

fn secp_n(k1: bool) -> BigUint {
    if k1 {
        BigUint::parse_bytes(b"fffffffffffffffffffffffffffffffebaaedce6af48a03bbfd25e8cd0364141", 16).unwrap()
    } else {
        BigUint::parse_bytes(b"ffffffff00000000ffffffffffffffffbce6faada7179e84f3b9cac2fc632551", 16).unwrap()
    }
}
fn secp_p(k1: bool) -> BigUint {
    if k1 {
        BigUint::parse_bytes(b"fffffffffffffffffffffffffffffffffffffffffffffffffffffffefffffc2f", 16).unwrap()
    } else {
        BigUint::parse_bytes(b"ffffffff00000001000000000000000000000000ffffffffffffffffffffffff", 16).unwrap()
    }
}

/// (compressed pubkey, uncompressed pubkey, prehash, signature r||s) — a valid signature
pub fn secp_valid(rng: &mut Rng, k1: bool) -> (Vec<u8>, Vec<u8>, Vec<u8>, Vec<u8>) {
    let msg = rng.bytes(32);
    loop {
        let key = rng.bytes(32);
        if k1 {
            let Ok(sk) = k256::ecdsa::SigningKey::from_slice(&key) else { continue };
            let sig: k256::ecdsa::Signature = sk.sign_prehash(&msg).unwrap();
            let vk = sk.verifying_key();
            return (
                vk.to_sec1_point(true).as_bytes().to_vec(),
                vk.to_sec1_point(false).as_bytes().to_vec(),
                msg,
                sig.to_bytes().to_vec(),
            );
        } else {
            let Ok(sk) = p256::ecdsa::SigningKey::from_slice(&key) else { continue };
            let sig: p256::ecdsa::Signature = sk.sign_prehash(&msg).unwrap();
            let vk = sk.verifying_key();
            return (
                vk.to_sec1_point(true).as_bytes().to_vec(),
                vk.to_sec1_point(false).as_bytes().to_vec(),
                msg,
                sig.to_bytes().to_vec(),
            );
        }
    }
}

fn case_secp(rng: &mut Rng, k1: bool) -> Case {
    let (pkc, pku, mut msg, mut sig) = secp_valid(rng, k1);
    let n = secp_n(k1);
    let p = secp_p(k1);
    let mut pk = if rng.chance(1, 3) { pku.clone() } else { pkc.clone() };
    let r = BigUint::from_bytes_be(&sig[..32]);
    let s = BigUint::from_bytes_be(&sig[32..]);
    let put = |r: &BigUint, s: &BigUint| {
        let mut v = be_fixed(r, 32);
        v.extend(be_fixed(s, 32));
        v
    };
    match rng.below(36) {
        0 => sig = put(&BigUint::from(0u8), &s),
        1 => sig = put(&r, &BigUint::from(0u8)),
        2 => sig = put(&n, &s),
        3 => sig = put(&r, &n),
        4 => sig = put(&(&n + 1u8), &s),
        5 => sig = put(&r, &(&n + BigUint::from(rng.below(1000)))),
        6 | 7 => sig = put(&r, &(&n - &s)), // the other s (high-s ↔ low-s): valid ECDSA, policy differs per curve
        8 => sig = put(&((&r + &n) % (BigUint::from(1u8) << 256)), &s),
        9 => sig = rng.bytes(64),
        10 => sig.truncate(63),
        11 => sig.push(0),
        12 => sig = vec![],
        13 => msg.truncate(31),
        14 => msg.push(7),
        15 => msg = vec![],
        16 => msg[rng.below(32) as usize] ^= 1 << rng.below(8),
        17 => pk[0] = *rng.pick(&[0u8, 1, 5, 6, 7, 8, 0x80, 0xff]),
        18 => pk = {
            // compact / hybrid forms built from the real key
            let tag = *rng.pick(&[5u8, 6, 7]);
            let mut v = vec![tag];
            if tag == 5 { v.extend_from_slice(&pkc[1..]) } else { v.extend_from_slice(&pku[1..]) }
            v
        },
        19 => pk = vec![0],
        20 => pk = vec![],
        21 => pk = {
            let mut v = pkc.clone();
            v[0] ^= 1; // the other y
            v
        },
        22 => pk = {
            // x = p + small (not reduced)
            let mut v = vec![2 + rng.below(2) as u8];
            v.extend(be_fixed(&(&p + BigUint::from(rng.below(4))), 32));
            v
        },
        23 => pk = {
            // random x: half of them are not on the curve
            let mut v = vec![2 + rng.below(2) as u8];
            v.extend(rng.bytes(32));
            v
        },
        24 => pk = {
            // uncompressed, y altered: not on the curve
            let mut v = pku.clone();
            v[64] ^= 1;
            v
        },
        25 => pk = {
            let mut v = pku.clone();
            v.truncate(64);
            v
        },
        26 => pk = {
            let mut v = pkc.clone();
            v.push(0);
            v
        },
        27 => pk = {
            // uncompressed with y = p - y (valid point, signature fails) or y + p overflowed
            let y = BigUint::from_bytes_be(&pku[33..]);
            let mut v = pku[..33].to_vec();
            v.extend(be_fixed(&(&p - &y), 32));
            v
        },
        28 => pk = {
            let mut v = vec![5u8];
            v.extend(rng.bytes(32));
            v
        },
        29 => msg = vec![0u8; 32],
        30 => msg = vec![0xff; 32], // z ≥ n: reduced
        _ => {}
    }
    let items = vec![T::A(pk), T::A(msg), T::A(sig)];
    Case { op: if k1 { "secp256k1_verify" } else { "secp256r1_verify" }, flags: pick_flags(rng), args: mangle(rng, items) }
}

fn random_case(rng: &mut Rng) -> Case {
    // weights: cheap operators often, G2/secp less (the Lean side pays ~ms per point operation)
    match rng.below(100) {
        0..=7 => case_hash(rng, "sha256"),
        8..=13 => case_hash(rng, "keccak256"),
        14..=21 => case_coinid(rng),
        22..=29 => case_g1(rng, "point_add"),
        30..=35 => case_g1(rng, "g1_subtract"),
        36..=43 => case_g1(rng, "g1_multiply"),
        44..=49 => case_g1(rng, "g1_negate"),
        50..=54 => case_g1(rng, "pubkey_for_exp"),
        55..=58 => case_g2(rng, "g2_add"),
        59..=61 => case_g2(rng, "g2_subtract"),
        62..=66 => case_g2(rng, "g2_multiply"),
        67..=70 => case_g2(rng, "g2_negate"),
        71..=74 => case_map(rng, "g1_map"),
        75..=78 => case_map(rng, "g2_map"),
        79..=82 => case_pairing(rng),
        83..=86 => case_verify(rng),
        87..=93 => case_secp(rng, true),
        _ => case_secp(rng, false),
    }
}

/// budgets: mostly ample; otherwise centred on the actual cost so that every check_cost site is hit
fn pick_budget(rng: &mut Rng, c: &Case, tree: &[u8]) -> u64 {
    if rng.chance(3, 4) {
        return *rng.pick(&[BIG, BIG, u64::MAX, 11_000_000_000]);
    }
    let reply = call(c.op, c.flags, u64::MAX, tree, "f");
    let cost: u64 = reply.split(' ').nth(1).and_then(|s| s.parse().ok()).unwrap_or(3_000_000);
    match rng.below(8) {
        0 => cost,
        1 => cost.saturating_sub(1),
        2 => cost + 1,
        3 => 0,
        4 => cost.saturating_sub(480),
        5 => cost.saturating_sub(960),
        6 => rng.below(cost + 1),
        _ => cost.saturating_sub(rng.below(2_000_000)),
    }
}

fn line(id: &str, op: &str, flags: u32, budget: u64, args: &T, mode: &str) -> String {
    format!("CRYPTO {} {} {:08x} {} {} {} {}", id, op, flags, budget, args.hex(), oracle_field(op, args), mode)
}

pub fn generate(name: &str, rng: &mut Rng, n: usize, tier: &str) -> Vec<String> {
    let mut out = Vec::new();
    if name == "crypto_pairing" {
        // pairing operators only, biased towards points at infinity (finding J) and long lists (blst batches of 8)
        for i in 0..n {
            let c = match rng.below(4) {
                0 => case_verify(rng),
                1 => case_pairing(rng),
                _ => Case { op: "bls_pairing_identity", flags: pick_flags(rng), args: T::list(pairing_with_infinities(rng)) },
            };
            out.push(line(&format!("p{}", i), c.op, c.flags, u64::MAX, &c.args, "f"));
        }
        return out;
    }
    // 0. coinid: every (length, first byte, second byte) class of the amount around the u64 boundary
    {
        let (p, h) = (rng.bytes(32), rng.bytes(32));
        let mut i = 0;
        for n_ in [7usize, 8, 9, 10, 11, 17] {
            for b0 in [0u8, 1, 0x7f, 0x80, 0xff] {
                for b1 in [0u8, 0x7f, 0x80, 0xff] {
                    let mut v = rng.bytes(n_);
                    v[0] = b0;
                    v[1] = b1;
                    let args = T::list(vec![T::A(p.clone()), T::A(h.clone()), T::A(v)]);
                    out.push(line(&format!("k{}", i), "coinid", 0, u64::MAX, &args, "f"));
                    i += 1;
                }
            }
        }
    }
    // 0b. hash-to-curve: message x DST classes (absent, explicitly empty, one byte, the default literal,
    // around the 255/256 boundary where the expander hashes an over-long DST first), both cost models
    {
        let mut i = 0;
        for op in ["g1_map", "g2_map"] {
            let default_dst = (if op == "g1_map" { DST_G1 } else { DST_G2 }).to_vec();
            for flags in [0u32, 0x2000] {
                for msg in [vec![], b"abc".to_vec(), rng.bytes(100)] {
                    let dsts: Vec<Option<Vec<u8>>> = vec![None, Some(vec![]), Some(vec![0]), Some(b"x".to_vec()), Some(default_dst.clone()),
                                                          Some(default_dst[..42].to_vec()), Some(rng.bytes(255)), Some(rng.bytes(256)), Some(rng.bytes(257))];
                    for dst in dsts {
                        let mut items = vec![T::A(msg.clone())];
                        if let Some(d) = dst {
                            items.push(T::A(d));
                        }
                        out.push(line(&format!("m{}", i), op, flags, u64::MAX, &T::list(items), "f"));
                        i += 1;
                    }
                }
            }
        }
    }
    // 1. the repository's vectors (sampled in the quick tier; all of them in the thorough tier)
    let vectors = load_vectors();
    let keep = if tier == "thorough" { vectors.len() } else { (n / 2).min(vectors.len()) };
    let mut idx: Vec<usize> = (0..vectors.len()).collect();
    // deterministic partial shuffle; rare operators first so that the sample covers every file
    for i in 0..idx.len() {
        let j = i + rng.below((idx.len() - i) as u64) as usize;
        idx.swap(i, j);
    }
    let mut per_file: std::collections::BTreeMap<(String, String), usize> = Default::default();
    let mut taken = 0;
    let cap = (keep / 40).max(3);
    for &i in &idx {
        let v = &vectors[i];
        let k = (v.file.clone(), v.op.clone());
        let c = per_file.entry(k).or_insert(0);
        if tier != "thorough" && (*c >= cap || taken >= keep) {
            continue;
        }
        *c += 1;
        taken += 1;
        out.push(line(&format!("v{}:{}", v.file, v.line), &v.op, v.flags, BIG, &v.args, "f"));
    }
    // 2. generated cases
    for i in 0..n {
        let c = random_case(rng);
        let tree = hex::decode(c.args.hex()).unwrap();
        let budget = pick_budget(rng, &c, &tree);
        let mode = match rng.below(10) {
            0 => "w",
            1 => "p",
            _ => "f",
        };
        out.push(line(&format!("g{}", i), c.op, c.flags, budget, &c.args, mode));
    }
    out
}

// ------------------------------------------------------------------ oracles (implementation alone)

fn run_ok(op: &str, flags: u32, args: &T) -> Result<(u64, Vec<u8>), String> {
    let tree = hex::decode(args.hex()).unwrap();
    let r = call(op, flags, BIG, &tree, "f");
    let t: Vec<&str> = r.split(' ').collect();
    if t[0] == "ok" { Ok((t[1].parse().unwrap(), hex::decode(t[2]).unwrap())) } else { Err(r) }
}

/// atom payload of a serialized single atom
fn atom_of_ser(ser: &[u8]) -> Vec<u8> {
    let mut a = Allocator::new();
    let n = node_from_bytes(&mut a, ser).unwrap();
    a.atom(n).as_ref().to_vec()
}

fn point_result(op: &str, flags: u32, items: &[Vec<u8>]) -> Result<Vec<u8>, String> {
    run_ok(op, flags, &T::atoms(items)).map(|(_, s)| atom_of_ser(&s))
}

pub fn oracle(name: &str, rng: &mut Rng, n: usize, _tier: &str) -> OracleReport {
    let mut rep = OracleReport::default();
    if name == "crypto_budget" {
        // C02 for programs made of one cryptographic operator call: a run that succeeds with cost C under an
        // unlimited budget succeeds identically under budget C and (old cost model) fails with CostExceeded
        // under C - 1, including calls with no operands / no pairs.  (At *operator* level the cost of the
        // result allocation is added after the operator's last internal check: only run_program is tight.)
        let opcode = |op: &str| -> Option<u8> {
            Some(match op {
                "sha256" => 11, "point_add" | "g1_add" => 29, "pubkey_for_exp" => 30, "coinid" => 48, "g1_subtract" => 49, "g1_multiply" => 50,
                "g1_negate" => 51, "g2_add" => 52, "g2_subtract" => 53, "g2_multiply" => 54, "g2_negate" => 55, "g1_map" => 56, "g2_map" => 57,
                "bls_pairing_identity" => 58, "bls_verify" => 59, "keccak256" => 62, "secp256k1_verify" => 64, "secp256r1_verify" => 65,
                _ => return None,
            })
        };
        let mut cases: Vec<Case> = vec![];
        let g2_identity = T::A(G2Element::default().to_bytes().to_vec());
        for flags in [0u32, 0x2000] {
            cases.push(Case { op: "bls_verify", flags, args: T::list(vec![g2_identity.clone()]) });
            for op in ["g1_add", "g2_add", "g1_subtract", "g2_subtract", "bls_pairing_identity", "sha256", "keccak256"] {
                cases.push(Case { op, flags, args: T::list(vec![]) });
            }
        }
        for _ in 0..n {
            cases.push(random_case(rng));
        }
        for c in cases {
            let Some(code) = opcode(c.op) else { continue };
            let Some(args) = crate::trees::from_hex(&c.args.hex()) else { continue };
            let mut items = vec![];
            let mut cur = &args;
            while let crate::trees::T::Pair(a, b) = cur {
                items.push(crate::progs::quote((**a).clone()));
                cur = b;
            }
            let prog = crate::progs::call(code, items);
            let env = crate::trees::T::nil();
            let flags = (c.flags | 0x100 | 0x800) & !0x2;
            let base = crate::interp_oracles::run_full("chia", flags, 0, &prog, &env, "");
            rep.evaluations += 1;
            rep.hit(c.op);
            let Ok((cost, _)) = &base.res else { continue };
            let cost = *cost;
            rep.nontrivial += 1;
            let d = || format!("{} flags={:x} prog={}", c.op, flags, crate::trees::to_hex(&prog));
            let exact = crate::interp_oracles::run_full("chia", flags, cost, &prog, &env, "");
            if exact.res != base.res {
                rep.fail("crypto_budget_tight", format!("{} unlimited {:?} but budget={} {:?}", d(), base.res, cost, exact.res));
            }
            if cost > 0 && flags & 0x2000 == 0 {
                let short = crate::interp_oracles::run_full("chia", flags, cost - 1, &prog, &env, "");
                if !matches!(&short.res, Err((k, _)) if k == "CostExceeded") {
                    rep.fail("crypto_budget_tight", format!("{} cost {} but budget={} {:?}", d(), cost, cost - 1, short.res));
                }
            }
        }
        return rep;
    }
    match name {
        "crypto_vectors" => {
            // implementation vs the blspy/… generated vector files
            for v in load_vectors() {
                rep.evaluations += 1;
                rep.hit(&v.op);
                let tree = hex::decode(v.args.hex()).unwrap();
                let got = call(&v.op, v.flags, BIG, &tree, "f");
                let want = match &v.expected {
                    None => "err".to_string(),
                    Some((t, c)) => format!("ok {} {}", c, t.hex()),
                };
                // the vector files know nothing about the `fresh` field
                let got3 = got.split(' ').take(3).collect::<Vec<_>>().join(" ");
                let ok = if v.expected.is_none() { got.starts_with("err ") } else { got3 == want };
                if ok {
                    if v.expected.is_some() {
                        rep.nontrivial += 1;
                    }
                } else {
                    rep.fail("vectors", format!("{}:{} {} flags={:x} args={} want `{}` got `{}`", v.file, v.line, v.op, v.flags, v.args.hex(), want, got));
                }
                if rep.evaluations % 400 == 1 {
                    rep.sample(format!("{}:{} {} -> {}", v.file, v.line, v.op, &got[..got.len().min(80)]));
                }
            }
        }
        "crypto_algebra" => {
            let inf1 = G1Element::default().to_bytes().to_vec();
            let inf2 = G2Element::default().to_bytes().to_vec();
            let r_bytes = signed_bytes(&BigInt::from(group_order()));
            for i in 0..n {
                rep.evaluations += 1;
                let fl = if rng.chance(1, 2) { 0 } else { NEW_COST };
                let mut check = |rep: &mut OracleReport, what: &str, a: Result<Vec<u8>, String>, b: Result<Vec<u8>, String>, input: String| match (&a, &b) {
                    (Ok(x), Ok(y)) if x == y => {
                        rep.nontrivial += 1;
                    }
                    _ => rep.fail(what, format!("{} : {:?} vs {:?}", input, a.map(hex::encode), b.map(hex::encode))),
                };
                if i % 2 == 0 {
                    let (p, q, s) = (g1_rand(rng).to_bytes().to_vec(), g1_rand(rng).to_bytes().to_vec(), g1_rand(rng).to_bytes().to_vec());
                    let (a, b) = (scalar_atom(rng), scalar_atom(rng));
                    let desc = format!("P={} Q={} R={} a={} b={}", hex::encode(&p), hex::encode(&q), hex::encode(&s), hex::encode(&a), hex::encode(&b));
                    rep.hit("g1");
                    check(&mut rep, "g1_add_comm", point_result("point_add", fl, &[p.clone(), q.clone()]), point_result("point_add", fl, &[q.clone(), p.clone()]), desc.clone());
                    let pq = point_result("point_add", fl, &[p.clone(), q.clone()]).unwrap_or_default();
                    let qs = point_result("point_add", fl, &[q.clone(), s.clone()]).unwrap_or_default();
                    check(&mut rep, "g1_add_assoc", point_result("point_add", fl, &[pq.clone(), s.clone()]), point_result("point_add", fl, &[p.clone(), qs]), desc.clone());
                    check(&mut rep, "g1_add_nary", point_result("point_add", fl, &[pq.clone(), s.clone()]), point_result("point_add", fl, &[p.clone(), q.clone(), s.clone()]), desc.clone());
                    let nq = point_result("g1_negate", fl, &[q.clone()]).unwrap_or_default();
                    check(&mut rep, "g1_neg_involutive", point_result("g1_negate", fl, &[nq.clone()]), Ok(q.clone()), desc.clone());
                    check(&mut rep, "g1_sub_is_add_neg", point_result("g1_subtract", fl, &[p.clone(), q.clone()]), point_result("point_add", fl, &[p.clone(), nq.clone()]), desc.clone());
                    check(&mut rep, "g1_add_inverse", point_result("point_add", fl, &[q.clone(), nq]), Ok(inf1.clone()), desc.clone());
                    check(&mut rep, "g1_mul_order", point_result("g1_multiply", fl, &[p.clone(), r_bytes.clone()]), Ok(inf1.clone()), desc.clone());
                    // (a+b)P = aP + bP
                    let ab = signed_bytes(&(BigInt::from_signed_bytes_be(&a) + BigInt::from_signed_bytes_be(&b)));
                    let ap = point_result("g1_multiply", fl, &[p.clone(), a.clone()]).unwrap_or_default();
                    let bp = point_result("g1_multiply", fl, &[p.clone(), b.clone()]).unwrap_or_default();
                    check(&mut rep, "g1_mul_distributes", point_result("g1_multiply", fl, &[p.clone(), ab]), point_result("point_add", fl, &[ap, bp]), desc.clone());
                    let g = G1Element::generator().to_bytes().to_vec();
                    check(&mut rep, "pubkey_is_mul_generator", point_result("pubkey_for_exp", fl, &[a.clone()]), point_result("g1_multiply", fl, &[g, a.clone()]), desc.clone());
                } else {
                    let (p, q) = (g2_rand(rng).to_bytes().to_vec(), g2_rand(rng).to_bytes().to_vec());
                    let (a, b) = (scalar_atom(rng), scalar_atom(rng));
                    let desc = format!("P={} Q={} a={} b={}", hex::encode(&p), hex::encode(&q), hex::encode(&a), hex::encode(&b));
                    rep.hit("g2");
                    check(&mut rep, "g2_add_comm", point_result("g2_add", fl, &[p.clone(), q.clone()]), point_result("g2_add", fl, &[q.clone(), p.clone()]), desc.clone());
                    let nq = point_result("g2_negate", fl, &[q.clone()]).unwrap_or_default();
                    check(&mut rep, "g2_neg_involutive", point_result("g2_negate", fl, &[nq.clone()]), Ok(q.clone()), desc.clone());
                    check(&mut rep, "g2_sub_is_add_neg", point_result("g2_subtract", fl, &[p.clone(), q.clone()]), point_result("g2_add", fl, &[p.clone(), nq.clone()]), desc.clone());
                    check(&mut rep, "g2_add_inverse", point_result("g2_add", fl, &[q.clone(), nq]), Ok(inf2.clone()), desc.clone());
                    check(&mut rep, "g2_mul_order", point_result("g2_multiply", fl, &[p.clone(), r_bytes.clone()]), Ok(inf2.clone()), desc.clone());
                    let ab = signed_bytes(&(BigInt::from_signed_bytes_be(&a) + BigInt::from_signed_bytes_be(&b)));
                    let ap = point_result("g2_multiply", fl, &[p.clone(), a.clone()]).unwrap_or_default();
                    let bp = point_result("g2_multiply", fl, &[p.clone(), b.clone()]).unwrap_or_default();
                    check(&mut rep, "g2_mul_distributes", point_result("g2_multiply", fl, &[p.clone(), ab]), point_result("g2_add", fl, &[ap, bp]), desc.clone());
                    // bilinearity through the pairing operator: e(aG1, Q) e(-G1, aQ) = 1
                    let a32 = rand_scalar_bytes(rng);
                    let g = G1Element::generator().to_bytes().to_vec();
                    let ag = point_result("g1_multiply", fl, &[g.clone(), a32.clone()]).unwrap_or_default();
                    let ng = point_result("g1_negate", fl, &[g.clone()]).unwrap_or_default();
                    let aq = point_result("g2_multiply", fl, &[q.clone(), a32.clone()]).unwrap_or_default();
                    // (Q = ∞ is finding J: blst's multi-pair Miller loop maps a G2 infinity to 0, see crypto_pairing_spec)
                    let good = run_ok("bls_pairing_identity", fl, &T::atoms(&[ag.clone(), q.clone(), ng.clone(), aq.clone()]));
                    if good.is_err() && q != inf2 {
                        rep.fail("pairing_bilinear", format!("{} a32={} -> {:?}", desc, hex::encode(&a32), good));
                    }
                    if q != inf2 {
                        let bad = run_ok("bls_pairing_identity", fl, &T::atoms(&[ag, q.clone(), g.clone(), aq]));
                        if bad.is_ok() {
                            rep.fail("pairing_rejects", format!("{} a32={} accepted e(aG,Q)e(G,aQ)", desc, hex::encode(&a32)));
                        }
                    }
                }
            }
        }
        "crypto_sigs" => {
            for i in 0..n {
                rep.evaluations += 1;
                let fl = if rng.chance(1, 2) { 0 } else { NEW_COST };
                if i % 3 == 0 {
                    // BLS aggregate signatures made with chia_bls::sign verify; any altered message fails
                    rep.hit("bls_verify");
                    let k = 1 + rng.below(3) as usize;
                    let mut items = Vec::new();
                    let mut agg = G2Element::default();
                    for _ in 0..k {
                        let sk = SecretKey::from_seed(&rng.bytes(32));
                        let msg = { let n_ = (rng.below(40)) as usize; rng.bytes(n_) };
                        agg.aggregate(&sign(&sk, &msg));
                        items.push(sk.public_key().to_bytes().to_vec());
                        items.push(msg);
                    }
                    let mut all = vec![agg.to_bytes().to_vec()];
                    all.extend(items.clone());
                    match run_ok("bls_verify", fl, &T::atoms(&all)) {
                        Ok(_) => rep.nontrivial += 1,
                        Err(e) => rep.fail("bls_verify_accepts", format!("{} -> {}", T::atoms(&all).hex(), e)),
                    }
                    all[2].push(1);
                    if run_ok("bls_verify", fl, &T::atoms(&all)).is_ok() {
                        rep.fail("bls_verify_rejects", format!("{} accepted", T::atoms(&all).hex()));
                    }
                } else {
                    let k1 = i % 3 == 1;
                    let op = if k1 { "secp256k1_verify" } else { "secp256r1_verify" };
                    rep.hit(op);
                    let (pkc, pku, msg, sig) = secp_valid(rng, k1);
                    let nn = secp_n(k1);
                    let s = BigUint::from_bytes_be(&sig[32..]);
                    let low = &s * 2u8 <= nn;
                    // signature as produced by the signer (k256 normalises to low-s; p256 does not)
                    for pk in [&pkc, &pku] {
                        let args = T::atoms(&[pk.clone(), msg.clone(), sig.clone()]);
                        let r = run_ok(op, fl, &args);
                        let want = !k1 || low;
                        if r.is_ok() != want {
                            rep.fail("secp_accepts_signed", format!("{} {} -> {:?} (low-s={})", op, args.hex(), r, low));
                        } else {
                            rep.nontrivial += 1;
                        }
                    }
                    // the complementary s: also a valid ECDSA signature; k1 accepts exactly the low one
                    let mut sig2 = sig[..32].to_vec();
                    sig2.extend(be_fixed(&(&nn - &s), 32));
                    let args = T::atoms(&[pkc.clone(), msg.clone(), sig2]);
                    let r = run_ok(op, fl, &args);
                    let want = !k1 || !low;
                    if r.is_ok() != want {
                        rep.fail("secp_high_s_policy", format!("{} {} -> {:?}", op, args.hex(), r));
                    }
                    // altered digest
                    let mut m2 = msg.clone();
                    m2[rng.below(32) as usize] ^= 1 << rng.below(8);
                    let args = T::atoms(&[pkc.clone(), m2, sig.clone()]);
                    if run_ok(op, fl, &args).is_ok() {
                        rep.fail("secp_rejects_altered", format!("{} {} accepted", op, args.hex()));
                    }
                }
            }
        }
        "crypto_cache" => {
            // the validated-points cache is unobservable: fresh = run-twice = primed allocator
            for _ in 0..n {
                rep.evaluations += 1;
                let c = random_case(rng);
                rep.hit(c.op);
                let tree = hex::decode(c.args.hex()).unwrap();
                let budget = pick_budget(rng, &c, &tree);
                let f = call(c.op, c.flags, budget, &tree, "f");
                let w = call(c.op, c.flags, budget, &tree, "w");
                let p = call(c.op, c.flags, budget, &tree, "p");
                if f != w || f != p {
                    rep.fail("cache_unobservable", format!("{} flags={:x} budget={} args={} fresh=`{}` twice=`{}` primed=`{}`", c.op, c.flags, budget, c.args.hex(), f, w, p));
                } else if f.starts_with("ok") {
                    rep.nontrivial += 1;
                }
                // coinid = sha256 of the three atoms; strict negate ⊆ relaxed negate
                if c.op == "coinid" && f.starts_with("ok") {
                    let s = call("sha256", 0, BIG, &tree, "f");
                    if s.split(' ').nth(2) != f.split(' ').nth(2) {
                        rep.fail("coinid_is_sha256", format!("args={} coinid=`{}` sha256=`{}`", c.args.hex(), f, s));
                    }
                }
                if c.op == "g1_negate" || c.op == "g2_negate" {
                    let strict = call(c.op, c.flags & !RELAXED, BIG, &tree, "f");
                    let relaxed = call(c.op, c.flags | RELAXED, BIG, &tree, "f");
                    if strict.starts_with("ok") && strict != relaxed {
                        rep.fail("relaxed_superset", format!("{} args={} strict=`{}` relaxed=`{}`", c.op, c.args.hex(), strict, relaxed));
                    }
                }
                rep.sample(format!("{} {} -> {}", c.op, &c.args.hex()[..c.args.hex().len().min(60)], &f[..f.len().min(60)]));
            }
        }
        "crypto_pairing_spec" => {
            // implementation vs the mathematical statement "∏ e(Pᵢ,Qᵢ) = 1" on lists whose product is 1 by
            // construction (bilinearity; a pair containing a point at infinity contributes 1)
            let inf1 = G1Element::default().to_bytes().to_vec();
            let inf2 = G2Element::default().to_bytes().to_vec();
            for _ in 0..n {
                rep.evaluations += 1;
                let items = pairing_with_infinities(rng);
                let args = T::list(items.clone());
                let fl = if rng.chance(1, 2) { 0 } else { NEW_COST };
                let r = run_ok("bls_pairing_identity", fl, &args);
                let bytes: Vec<Vec<u8>> = items.iter().map(|t| if let T::A(b) = t { b.clone() } else { vec![] }).collect();
                let g2_inf_with_finite_g1 = bytes.chunks(2).any(|c| c[1] == inf2 && c[0] != inf1);
                let all_inf = bytes.chunks(2).all(|c| c[1] == inf2 && c[0] == inf1);
                rep.hit(if g2_inf_with_finite_g1 { "g2_infinity" } else if all_inf { "all_infinity" } else { "regular" });
                match &r {
                    Ok(_) => rep.nontrivial += 1,
                    Err(e) if g2_inf_with_finite_g1 || all_inf => rep.fail(
                        "pairing_spec",
                        format!("KNOWN-J-pairing-g2-infinity: product of pairings is 1 but the operator answers `{}`: flags={:x} args={}", e, fl, args.hex()),
                    ),
                    Err(e) => rep.fail("pairing_spec", format!("product of pairings is 1 but the operator answers `{}`: flags={:x} args={}", e, fl, args.hex())),
                }
                rep.sample(format!("{} pairs -> {:?}", bytes.len() / 2, r.map(|x| x.0)));
            }
        }
        _ => panic!("unknown oracle {name}"),
    }
    rep
}
