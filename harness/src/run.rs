//! RUN / OP: whole programs through `run_program` and single operators called directly.
//!
//! RUN <id> <dialect> <flags:hex> <budget> <heap-headroom|-> <prog> <env> [tags]
//!     (heap limit = heap size after building prog and env + headroom)
//!     -> ok <cost> <result> <d_atoms> <d_pairs> <d_heap> | err <Kind>
//! OP  <id> <op_fn_name> <flags:hex> <budget> <args> [tags]
//!     -> ok <cost> <result> <d_atoms> <d_pairs> <d_heap> | err <Kind>
//!
//! Trees are built with the real decoder (`node_from_bytes`), i.e. every atom gets the
//! representation `new_atom` chooses.  `tags` (one letter per atom of prog then env, pre-order)
//! overrides that: `H` = heap atom obtained by concatenating two halves (a multi-term concat is always
//! a heap atom), anything else = default.  Counts are reported as differences over the call.
use crate::trees::{self, T};
use crate::util::*;
use clvmr::allocator::{Allocator, NodePtr};
use clvmr::chia_dialect::{ChiaDialect, ClvmFlags};
use clvmr::cost::Cost;
use clvmr::dialect::{Dialect, OperatorSet};
use clvmr::reduction::Response;
use clvmr::run_program::run_program;
use clvmr::runtime_dialect::RuntimeDialect;
use std::collections::HashMap;

pub type OpF = fn(&mut Allocator, NodePtr, Cost, ClvmFlags) -> Response;

pub fn op_by_name(name: &str) -> Option<OpF> {
    use clvmr::bls_ops::*;
    use clvmr::core_ops::*;
    use clvmr::more_ops::*;
    Some(match name {
        "op_if" => op_if,
        "op_cons" => op_cons,
        "op_first" => op_first,
        "op_rest" => op_rest,
        "op_listp" => op_listp,
        "op_raise" => op_raise,
        "op_eq" => op_eq,
        "op_gr_bytes" => op_gr_bytes,
        "op_sha256" => op_sha256,
        "op_substr" => op_substr,
        "op_strlen" => op_strlen,
        "op_concat" => op_concat,
        "op_add" => op_add,
        "op_subtract" => op_subtract,
        "op_multiply" => op_multiply,
        "op_div" => op_div,
        "op_divmod" => op_divmod,
        "op_gr" => op_gr,
        "op_ash" => op_ash,
        "op_lsh" => op_lsh,
        "op_logand" => op_logand,
        "op_logior" => op_logior,
        "op_logxor" => op_logxor,
        "op_lognot" => op_lognot,
        "op_not" => op_not,
        "op_any" => op_any,
        "op_all" => op_all,
        "op_modpow" => op_modpow,
        "op_mod" => op_mod,
        "op_point_add" => op_point_add,
        "op_pubkey_for_exp" => op_pubkey_for_exp,
        "op_coinid" => op_coinid,
        "op_bls_g1_subtract" => op_bls_g1_subtract,
        "op_bls_g1_multiply" => op_bls_g1_multiply,
        "op_bls_g1_negate" => op_bls_g1_negate,
        "op_bls_g2_add" => op_bls_g2_add,
        "op_bls_g2_subtract" => op_bls_g2_subtract,
        "op_bls_g2_multiply" => op_bls_g2_multiply,
        "op_bls_g2_negate" => op_bls_g2_negate,
        "op_bls_map_to_g1" => op_bls_map_to_g1,
        "op_bls_map_to_g2" => op_bls_map_to_g2,
        "op_bls_pairing_identity" => op_bls_pairing_identity,
        "op_bls_verify" => op_bls_verify,
        "op_keccak256" => clvmr::keccak256_ops::op_keccak256,
        "op_sha256_tree" => clvmr::sha_tree_op::op_sha256_tree,
        "op_secp256k1_verify" => clvmr::secp_ops::op_secp256k1_verify,
        "op_secp256r1_verify" => clvmr::secp_ops::op_secp256r1_verify,
        _ => return None,
    })
}

/// the standard operator-name table (name -> opcode) used with RuntimeDialect: the names of
/// `f_table.rs` at the opcodes ChiaDialect assigns to the same functions
pub fn standard_op_map() -> HashMap<String, Vec<u8>> {
    let t: &[(&str, u8)] = &[
        ("op_if", 3), ("op_cons", 4), ("op_first", 5), ("op_rest", 6), ("op_listp", 7), ("op_raise", 8),
        ("op_eq", 9), ("op_gr_bytes", 10), ("op_sha256", 11), ("op_substr", 12), ("op_strlen", 13),
        ("op_concat", 14), ("op_add", 16), ("op_subtract", 17), ("op_multiply", 18), ("op_div", 19),
        ("op_divmod", 20), ("op_gr", 21), ("op_ash", 22), ("op_lsh", 23), ("op_logand", 24),
        ("op_logior", 25), ("op_logxor", 26), ("op_lognot", 27), ("op_point_add", 29),
        ("op_pubkey_for_exp", 30), ("op_not", 32), ("op_any", 33), ("op_all", 34),
        ("op_g1_subtract", 49), ("op_g1_multiply", 50), ("op_g1_negate", 51), ("op_g2_add", 52),
        ("op_g2_subtract", 53), ("op_g2_multiply", 54), ("op_g2_negate", 55), ("op_g1_map", 56),
        ("op_g2_map", 57), ("op_bls_pairing_identity", 58), ("op_bls_verify", 59), ("op_modpow", 60),
        ("op_mod", 61),
    ];
    t.iter().map(|(n, o)| (n.to_string(), vec![*o])).collect()
}

/// build a tree; `tags` is consumed one letter per atom (pre-order)
pub fn build_tagged(a: &mut Allocator, t: &T, tags: &mut std::str::Chars) -> NodePtr {
    match t {
        T::Atom(b) => {
            let tag = tags.next().unwrap_or('-');
            if tag == 'H' && b.len() >= 2 {
                let k = b.len() / 2;
                let x = a.new_atom(&b[..k]).unwrap();
                let y = a.new_atom(&b[k..]).unwrap();
                a.new_concat(b.len(), &[x, y]).unwrap()
            } else if tag == 'H' && b.len() == 1 {
                // substring view of a longer heap atom
                let mut long = b.clone();
                long.extend_from_slice(&[0xaa; 7]);
                let x = a.new_atom(&long).unwrap();
                a.new_substr(x, 0, 1).unwrap()
            } else if tag == 'E' {
                // a substring view (of any length, including the empty one) into a longer heap atom
                let mut long = vec![0xbb, 0xcc, 0xdd];
                long.extend_from_slice(b);
                long.extend_from_slice(&[0xaa; 7]);
                let x = a.new_atom(&long).unwrap();
                a.new_substr(x, 3, 3 + b.len() as u32).unwrap()
            } else if b.is_empty() {
                a.nil()
            } else if b == &[1u8] {
                a.one()
            } else {
                a.new_atom(b).unwrap()
            }
        }
        T::Pair(l, r) => {
            let l = build_tagged(a, l, tags);
            let r = build_tagged(a, r, tags);
            a.new_pair(l, r).unwrap()
        }
    }
}

fn counts(a: &Allocator) -> (i64, i64, i64) {
    (a.atom_count() as i64, a.pair_count() as i64, a.heap_size() as i64)
}

fn finish(a: &Allocator, before: (i64, i64, i64), r: Response) -> String {
    match r {
        Ok(red) => {
            let after = counts(a);
            let t = trees::from_node(a, red.1);
            format!("ok {} {} {} {} {}", red.0, trees::to_hex(&t), after.0 - before.0, after.1 - before.1, after.2 - before.2)
        }
        Err(e) => fmt_err(&e),
    }
}

/// a dialect that hides the softfork extensions and the 4-byte secp opcodes (C08): everything the
/// aware dialect implements through an extension is an unknown operator / unknown extension here
pub struct HideDialect {
    pub inner: ChiaDialect,
}

impl Dialect for HideDialect {
    fn quote_kw(&self) -> u32 {
        self.inner.quote_kw()
    }
    fn apply_kw(&self) -> u32 {
        self.inner.apply_kw()
    }
    fn softfork_kw(&self) -> u32 {
        self.inner.softfork_kw()
    }
    fn softfork_extension(&self, _ext: u32) -> OperatorSet {
        OperatorSet::Default
    }
    fn flags(&self) -> ClvmFlags {
        self.inner.flags()
    }
    fn gc_candidate(&self, a: &Allocator, op: NodePtr) -> bool {
        self.inner.gc_candidate(a, op)
    }
    fn op(&self, a: &mut Allocator, op: NodePtr, args: NodePtr, max_cost: Cost, _ext: OperatorSet) -> Response {
        if a.atom_len(op) == 4 {
            // the 4-byte secp opcodes are unknown operators to an unaware node
            if self.inner.flags().contains(ClvmFlags::NO_UNKNOWN_OPS) {
                return Err(clvmr::error::EvalErr::Unimplemented(op));
            }
            return clvmr::more_ops::op_unknown(a, op, args, max_cost, self.inner.flags());
        }
        self.inner.op(a, op, args, max_cost, OperatorSet::Default)
    }
    fn allow_unknown_ops(&self) -> bool {
        self.inner.allow_unknown_ops()
    }
}

/// `run_program`; in a build with the `pre-eval` feature the run goes through
/// `run_program_with_pre_eval` with an observe-only callback (C05), with `counters` alone through
/// `run_program_with_counters`
#[cfg(feature = "pre-eval")]
pub fn run_any<D: Dialect>(a: &mut Allocator, d: &D, p: NodePtr, e: NodePtr, budget: Cost) -> Response {
    use clvmr::run_program::run_program_with_pre_eval;
    let seen = std::rc::Rc::new(std::cell::Cell::new(0u64));
    let seen2 = seen.clone();
    let cb: clvmr::run_program::PreEval = Box::new(move |a: &mut Allocator, prog: NodePtr, _env: NodePtr| {
        // observe only: read the program node and the allocator counts
        let _ = a.sexp(prog);
        seen2.set(seen2.get() + a.atom_count() as u64);
        let s3 = seen2.clone();
        let post: Box<clvmr::run_program::PostEval> = Box::new(move |a: &mut Allocator, r: Option<NodePtr>| {
            if let Some(n) = r {
                let _ = a.sexp(n);
            }
            s3.set(s3.get() + 1);
        });
        Ok(Some(post))
    });
    run_program_with_pre_eval(a, d, p, e, budget, Some(cb))
}

#[cfg(all(feature = "counters", not(feature = "pre-eval")))]
pub fn run_any<D: Dialect>(a: &mut Allocator, d: &D, p: NodePtr, e: NodePtr, budget: Cost) -> Response {
    clvmr::run_program::run_program_with_counters(a, d, p, e, budget).1
}

#[cfg(not(any(feature = "counters", feature = "pre-eval")))]
pub fn run_any<D: Dialect>(a: &mut Allocator, d: &D, p: NodePtr, e: NodePtr, budget: Cost) -> Response {
    run_program(a, d, p, e, budget)
}

pub fn run_with(
    dialect: &str,
    flags: u32,
    budget: u64,
    heap: Option<usize>,
    prog: &T,
    env: &T,
    tags: &str,
) -> (String, (i64, i64, i64)) {
    // a heap limit is given relative to the heap size after the program and environment are built
    let mut a = match heap {
        Some(delta) => {
            let mut scratch = Allocator::new();
            let mut it = tags.chars();
            build_tagged(&mut scratch, prog, &mut it);
            build_tagged(&mut scratch, env, &mut it);
            Allocator::new_limited(scratch.heap_size() + delta)
        }
        None => Allocator::new(),
    };
    let mut it = tags.chars();
    let p = build_tagged(&mut a, prog, &mut it);
    let e = build_tagged(&mut a, env, &mut it);
    let before = counts(&a);
    let f = ClvmFlags::from_bits_truncate(flags);
    let r = match dialect {
        "chia" => run_any(&mut a, &ChiaDialect::new(f), p, e, budget),
        "hide" => run_any(&mut a, &HideDialect { inner: ChiaDialect::new(f) }, p, e, budget),
        "runtime" => run_any(&mut a, &RuntimeDialect::new(standard_op_map(), vec![1], vec![2], f), p, e, budget),
        _ => return ("bad-request".into(), (0, 0, 0)),
    };
    let s = finish(&a, before, r);
    let after = counts(&a);
    (s, (after.0 - before.0, after.1 - before.1, after.2 - before.2))
}

pub fn run_run(args: &[&str]) -> String {
    let flags = u32::from_str_radix(args[1], 16).unwrap();
    let budget: u64 = args[2].parse().unwrap();
    let heap = if args[3] == "-" { None } else { Some(args[3].parse::<usize>().unwrap()) };
    let prog = trees::from_hex(args[4]).unwrap();
    let env = trees::from_hex(args[5]).unwrap();
    let tags = args.get(6).copied().unwrap_or("");
    run_with(args[0], flags, budget, heap, &prog, &env, tags).0
}

pub fn run_op(args: &[&str]) -> String {
    let Some(f) = op_by_name(args[0]) else { return "bad-request".into() };
    let flags = ClvmFlags::from_bits_truncate(u32::from_str_radix(args[1], 16).unwrap());
    let budget: u64 = args[2].parse().unwrap();
    let t = trees::from_hex(args[3]).unwrap();
    let tags = args.get(4).copied().unwrap_or("");
    let mut a = Allocator::new();
    let mut it = tags.chars();
    let n = build_tagged(&mut a, &t, &mut it);
    let before = counts(&a);
    let r = f(&mut a, n, budget, flags);
    finish(&a, before, r)
}

/// `UNK <opcode-hex> <flags:hex> <budget> <args>`: `op_unknown` called directly
pub fn run_unknown(args: &[&str]) -> String {
    let opcode = parse_hex(args[0]).unwrap();
    let flags = ClvmFlags::from_bits_truncate(u32::from_str_radix(args[1], 16).unwrap());
    let budget: u64 = args[2].parse().unwrap();
    let t = trees::from_hex(args[3]).unwrap();
    let mut a = Allocator::new();
    let o = a.new_atom(&opcode).unwrap();
    let n = trees::build(&mut a, &t).unwrap();
    let before = counts(&a);
    let r = clvmr::more_ops::op_unknown(&mut a, o, n, budget, flags);
    finish(&a, before, r)
}
